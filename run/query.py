"""C15 (queries never crash) and C16 (query results equal what the Go API gives)
(spec/QueryOps.tla, Query.tla, trace/QueryTrace.tla, trace/QueryCrashTrace.tla; harness/query)."""
import json
import os
import re

from . import common

TOKENS_QUICK = [".", ".Individuals", ".Name", ".X", "|", ";", "?", "(", ")", "{", "}", ":", ",", "=", "!", ">", '\\"a\\"', "1",
                "First", "Length", "Only", "Combine", "is", "X", "Document1", "NodesWithTagPath", "MergeDocumentsAndIndividuals", "Last"]


def mc_tokens(name, tokens, maxlen):
    tla = ('---- MODULE %s ----\nEXTENDS Query, Json\ncTokens == {%s}\nEmit == toks # <<>> => PrintT(<<"CASE", ToJson([q |-> Text])>>)\n====\n'
           % (name, ", ".join('"%s"' % t for t in tokens)))
    cfg = 'SPECIFICATION QSpec\nCONSTANTS\n  Mode = "tokens"\n  Tokens <- cTokens\n  MaxLen = %d\nINVARIANTS Emit\n' % maxlen
    return {name + ".tla": tla, name + ".cfg": cfg}


def mc_asts(name, maxlen):
    tla = "---- MODULE %s ----\nEXTENDS Query\n====\n" % name
    cfg = 'SPECIFICATION QSpec\nCONSTANTS\n  Mode = "asts"\n  Tokens = {"x"}\n  MaxLen = %d\nINVARIANTS EvalTotal VariableLaw CombineLaw\n' % maxlen
    return {name + ".tla": tla, name + ".cfg": cfg}


def run(ctx):
    quick = ctx.tier == "quick"
    ctx.prepare_spec()
    for m in ("QueryOps", "Query", "QueryTrace", "QueryCrashTrace"):
        ctx.sany(m)
    ctx.build_vh()
    res = ctx.tlc("MC_Query_asts", files=mc_asts("MC_Query_asts", 3 if quick else 4), timeout=3000)
    if res["violated"]:
        raise common.MachineryError("design step: %s violated on the query model" % res["violated"])
    if ctx.prop == "C15":
        strings = ctx.path("strings.ndjson")
        n = [0]
        with open(strings, "w") as fh:
            def on_case(obj):
                fh.write(json.dumps(obj["q"]) + "\n")
                if n[0] % 20011 == 0:
                    ctx.sample({"from": "TLC", "query": obj["q"]})
                n[0] += 1
            # every token sequence up to a bounded length over the token alphabet
            ctx.tlc("MC_Query_tokens", files=mc_tokens("MC_Query_tokens", TOKENS_QUICK, 3 if quick else 4), on_case=on_case, timeout=3000)
            small = [".Individuals", ".Name", "|", "(", ")", "Only", "=", "X", "is", ";", '\\"a\\"', "First", "1", "{", "}", ":", ","]
            ctx.tlc("MC_Query_tokens5", files=mc_tokens("MC_Query_tokens5", small[:11] if quick else small, 4 if quick else 5), on_case=on_case, timeout=3000)
            p = ctx.vh(["query", "strings", str(20000 if quick else 400000)])
            for line in p.stdout.decode(errors="replace").split("\n"):
                if line.strip():
                    fh.write(line + "\n")
                    n[0] += 1
        ctx.exhaustive = True
        obs = ctx.path("querycrash_obs.ndjson")
        ctx.vh(["query", "crash"], stdin_path=strings, stdout_path=obs, timeout=6000)
        bad, total = common.validate_obs(ctx, "QueryCrashTrace", "QueryCrashTrace", "querycrash_obs.ndjson", obs, timeout=3000, chunk=100000)
        if total != n[0]:
            raise common.MachineryError("%d of %d query strings were run" % (total, n[0]))
        for o in bad:
            ex = o["spec_extras"]
            site = ex[2] if len(ex) > 2 else ""
            msg = re.sub(r"0x[0-9a-f]+|\d+", "N", o.get("msg", ""))[:70]
            ctx.violation({"clause": ex[1], "site": site, "message": msg}, "%s (%s): %r %s" % (ex[1], site, o["q"][:80], o.get("msg", "")[:100]),
                          {"query": o["q"], "parse": o["parse"], "evals": o["evals"], "formats": o["formats"], "died": o["died"], "msg": o.get("msg")})
        with open(obs) as fh:
            ctx.extra["not_run_after_30_hangs"] = sum(1 for l in fh if '"parse":"skipped"' in l)
        with open(obs) as fh:
            for k, l in enumerate(fh):
                if k in (5, 5000):
                    ctx.sample({"from": "executed", "observation": json.loads(l)})
        ctx.assumptions += [
            "every query string is parsed, evaluated on four document sets (empty, tiny, a family graph, two documents) and each value handed "
            "to the five formatters, inside child processes with a stack limit and a wall-clock limit; a batch whose child dies is bisected "
            "down to the offending query",
            "the specification contributes the exhaustive token-sequence space and the totality of Eval on the model; the verdict on the code is "
            "a totality observation (parse: engine|error, evaluate: value|error, format: written|error; no panic, overflow or timeout)",
        ]
        rule = ("every token sequence up to a bounded length over the token alphabet (TLC), mutated documented examples, random token "
                "sequences and random bytes (%d strings)" % total)
        return common.finish(ctx, rule=rule)
    # ---- C16
    n = 12000 if quick else 250000
    obs = ctx.path("query_obs.ndjson")
    ctx.vh(["query", "eval", str(n)], stdout_path=obs, timeout=6000)
    bad, total = common.validate_obs(ctx, "QueryTrace", "QueryTrace", "query_obs.ndjson", obs, timeout=6000, chunk=30000)
    for o in bad:
        ex = o["spec_extras"]
        det = {"kind": o["kind"], "query": o.get("q")}
        if o["kind"] == "ops":
            det.update({"left": "".join(map(chr, o["l"])), "right": "".join(map(chr, o["r"])), "ops": o["ops"]})
        elif o["kind"] == "equiv":
            det.update({"law": o["law"], "a": o["a"], "b": o["b"], "c": o["c"]})
        else:
            det.update({"engine": o["res"], "facts": o["facts"][:40], "stmts": o["stmts"]})
        ctx.violation({"clause": ex[1], "kind": o["kind"]}, "%s: %s" % (ex[1], (o.get("q") or "")[:100]), det)
    with open(obs) as fh:
        for k, l in enumerate(fh):
            if k in (0, 4, 6):
                o = json.loads(l)
                o["facts"] = o["facts"][:5]
                ctx.sample({"from": "executed", "observation": o})
    ctx.exhaustive = False
    ctx.assumptions += [
        "leaves are not modelled: what an accessor returns on an object is a fact computed by calling the Go API directly by reflection "
        "(closure of the query's accessor names over the objects reachable from the document), independent of the engine",
        "queries are generated well-typed with respect to the static Go types (the engine finds an accessor on the element type of a list); "
        "accessors are not applied to lists of lists; objects/Only/Combine are applied to flat lists",
        "operands that are numbers with surrounding white space, exponents, hex, Inf/NaN or underscores, and non-ASCII case folding leave the "
        "numeric-or-text choice free; trichotomy and != = not(=) are required of the observed results for every operand pair",
    ]
    rule = ("%d observations: seeded well-typed queries (accessor chains over the methods found by reflection, First/Last/Length/Only/Combine, "
            "objects, variables, the six operators) on random family-graph documents judged against QueryOps!Engine; the six operators on "
            "operand pairs; equivalences (variable inlining, Combine doubling Length, Only partition, First/Last prefix/suffix); determinism" % total)
    return common.finish(ctx, rule=rule)


def replay(ctx, path):
    with open(path) as fh:
        rec = json.load(fh)
    w = rec["witness"]
    print(json.dumps(w)[:3000])
    if ctx.prop == "C15" and "query" in w:
        ctx.build_vh()
        p = ctx.vh(["query", "crash"], input_bytes=(json.dumps(w["query"]) + "\n").encode())
        print(p.stdout.decode())
        o = json.loads(p.stdout.decode().strip().split("\n")[-1])
        bad = o["died"] or o["parse"] == "panic" or "panic" in o["evals"] or any(f.endswith(":panic") for f in o["formats"])
        return 1 if bad else 0
    if ctx.prop == "C16" and w.get("query"):
        # the observations are a function of (seed, count): generate them again and judge the ones of this query
        m = re.search(r"(quick|thorough)-seed(\d+)-", os.path.basename(path))
        tier, seed = (m.group(1), int(m.group(2))) if m else ("quick", 1)
        ctx.seed = seed
        ctx.build_vh()
        ctx.prepare_spec()
        allobs = ctx.path("all_obs.ndjson")
        ctx.vh(["query", "eval", str(12000 if tier == "quick" else 250000)], stdout_path=allobs, timeout=6000)
        obs = ctx.path("query_obs.ndjson")
        n = 0
        with open(allobs) as fin, open(obs, "w") as fout:
            for l in fin:
                if json.loads(l).get("q") == w["query"]:
                    fout.write(l)
                    n += 1
        if n == 0:
            print("the query was not generated again")
            return 2
        bad, total = common.validate_obs(ctx, "QueryTrace", "QueryTrace", "query_obs.ndjson", obs, timeout=600)
        for o in bad:
            print("rejected:", o["spec_extras"])
        print("%d observations of this query judged, %d rejected" % (total, len(bad)))
        return 1 if bad else 0
    return 0
