"""C01, C02, C03 - the GEDCOM line codec (spec/CodecOps.tla, Codec.tla, CodecBuild.tla,
trace/CodecTrace.tla; harness/codec)."""
import json
import os
import re

from . import common
from .common import log

ASIS = """  AsIsSingleDigit = FALSE
  AsIsRolePanics = FALSE
  AsIsClampEmptyPanics = FALSE
"""


def tb(s):
    """text -> TLA+ tuple of byte values"""
    if isinstance(s, str):
        s = s.encode("utf-8")
    return "<<" + ", ".join(str(c) for c in s) + ">>"


def tset(items):
    return "{" + ", ".join(tb(x) for x in items) + "}"


# ----------------------------------------------------------------------------
# Codec.tla configs (decoder machine)
STRUCT_CHUNKS = [
    "0 A\n", "1 B x \n", "2 C\r\n", "3 D\n", "1 HUSB @I@\n", "0 @F@ FAM v\n", "1 @I@ INDI w\r",
    "\n", "junk\n", "12 E\n",
]
ROLE_CHUNKS = [
    "0 HUSB @I@\n", "1 WIFE\n", "2 CHIL @C@\n", "0 @F@ FAM\n", "1 @I@ INDI v\n", "0 A\n", "1 B\n", "3 C\n", "x\n", "\r",
    "1 husb @I@\n", "0 Chil\n",
]
LEX_ALPHABET = [b"0", b"1", b" ", b"@", b"A", b"_", b"\r", b"\n", b"\xff"]


def mc_codec(name, chunks, maxchunks, options):
    tla = """---- MODULE %s ----
EXTENDS Codec, Json
cChunks == %s
cOptionSets == %s
Emit == phase = "done" => PrintT(<<"CASE", ToJson([inp |-> inp, opts |-> opts, exp |-> Result(st, inp)])>>)
====
""" % (name, tset(chunks), options)
    cfg = """SPECIFICATION Spec
CONSTANTS
%s  Chunks <- cChunks
  MaxChunks = %d
  OptionSets <- cOptionSets
INVARIANTS ForestShape OpenIsSpine DepthIsLevel ValuesTrimmed RecordLinesCarryNoValue NormalForm
  MachineIsDecode OutcomeClass PanicOnlyWhenStrict ErrorNamesLine NoCrash Emit
PROPERTIES PrefixStable
""" % (ASIS, maxchunks)
    return {name + ".tla": tla, name + ".cfg": cfg}


ALLOPTS = "[multi : BOOLEAN, lenient : BOOLEAN]"
TWOOPTS = "{[multi |-> FALSE, lenient |-> FALSE], [multi |-> TRUE, lenient |-> TRUE]}"


def mc_build(name, tags, vals, ptrs, maxnodes, maxdepth, chain):
    tla = """---- MODULE %s ----
EXTENDS CodecBuild, Json
cTags == %s
cVals == %s
cPtrs == %s
Emit == PrintT(<<"CASE", ToJson([bom |-> bom, forest |-> f, bytes |-> Encode(bom, f)])>>)
====
""" % (name, tset(tags), tset(vals), tset(ptrs))
    cfg = """SPECIFICATION BSpec
CONSTANTS
%s  Tags <- cTags
  Vals <- cVals
  Ptrs <- cPtrs
  MaxNodes = %d
  MaxDepth = %d
  ChainOnly = %s
INVARIANTS BuiltIsForest RoundTrip AcceptedUnderAllOptions Emit
""" % (ASIS, maxnodes, maxdepth, "TRUE" if chain else "FALSE")
    return {name + ".tla": tla, name + ".cfg": cfg}


def run_emit_and_replay(ctx, module, files, sub, timeout):
    return common.emit_and_replay(ctx, module, files, ["codec", sub], timeout=timeout)


def validate_obs(ctx, mode, obs_path, timeout):
    bad, n = common.validate_obs(ctx, "CodecTrace", "CodecTrace_" + mode, "codec_obs.ndjson", obs_path, timeout=timeout)
    for o in bad:
        o["spec_out"] = o["spec_extra"]
    with open(obs_path) as fh:
        for k, l in enumerate(fh):
            if k >= 2:
                break
            o = json.loads(l)
            if "inp" in o:
                o["text"] = bytes(o["inp"]).decode("latin-1")
            ctx.sample({"from": "recorded", "observation": o})
    return bad, n


def text_of(ints):
    return bytes(ints).decode("utf-8", errors="backslashreplace")


# classification ------------------------------------------------------------
def classify_decode(prop, exp_out, obs, nf):
    """Which property a decode disagreement belongs to (None = drift, see DESIGN section 6)."""
    o = obs["out"]
    if o in ("crash", "hang"):
        return "C03", {"kind": o, "site": re.sub(r"\d+", "N", obs.get("msg", ""))[:60]}
    if o == "panic-indent" and exp_out != "panic-indent":
        return "C03", {"kind": "panic-not-tolerated"}
    if o == "error" and exp_out == "error":
        return "C03", {"kind": "error-names-wrong-line"}
    if o == "panic-indent" and exp_out == "panic-indent":
        return "C03", {"kind": "panic-names-wrong-line"}
    if o == "doc" and exp_out != "doc":
        return "C02", {"kind": "accepts-ungrammatical-input", "spec": exp_out}
    if o == "doc" and exp_out == "doc":
        if nf:
            return "C02", {"kind": "normal-form"}
        return "C02", {"kind": "wrong-tree"}
    return None, {"kind": "over-rejection", "spec": exp_out, "code": o}


def run(ctx):
    prop, quick = ctx.prop, ctx.tier == "quick"
    ctx.prepare_spec()
    for m in ("CodecOps", "Codec", "CodecBuild", "CodecTrace"):
        ctx.sany(m)
    ctx.build_vh()
    drift = 0
    if prop == "C01":
        tags_lex = ["A", "NAME", "DATE", "_X", "1A", "INDI", "FAM", "HUSB", "SEX", "Note", "date"]
        vals_lex = ["", "x", "@P@", "1", "NAME", "0 A", "a  b"]
        jobs = [
            ("MC_Build_shape", mc_build("MC_Build_shape", ["A", "NAME"], ["", "x"], [""], 4 if quick else 5, 4, False)),
            ("MC_Build_lex", mc_build("MC_Build_lex", tags_lex, vals_lex if not quick else vals_lex[:5], ["", "P"], 2, 2, False)),
            ("MC_Build_fam", mc_build("MC_Build_fam", ["FAM", "HUSB", "CHIL", "A", "INDI"], ["", "@I@"], ["", "F"], 3 if quick else 4, 2, False)),
            ("MC_Build_chain", mc_build("MC_Build_chain", ["A"], [""], [""], 15 if quick else 102, 101, True)),
        ]
        for name, files in jobs:
            res, mism = run_emit_and_replay(ctx, name, files, "replay-build", 1500)
            for mm in mism:
                ctx.violation({"kind": "roundtrip", "why": re.sub(r"[:].*", "", mm["why"])}, mm["why"],
                              {"config": name, "forest": mm["case"]["forest"], "bom": mm["case"]["bom"],
                               "text": mm.get("text"), "observed": mm["obs"]})
        ctx.exhaustive = True
        n = 300 if quick else 6000
        obs = ctx.path("build_obs.ndjson")
        ctx.vh(["codec", "record-build", str(n)], stdout_path=obs)
        bad, total = validate_obs(ctx, "build", obs, 1500)
        for o in bad:
            why = "recorded build/encode/decode observation rejected by CodecTrace!CheckBuild"
            dec = o["decoded"]
            kind = "roundtrip"
            sig = {"kind": kind, "why": "trace-rejected", "decoded": dec["out"]}
            if o.get("big"):
                sig["why"] = "large-document"
            ctx.violation(sig, why, {"text": text_of(o["bytes"])[:2000], "nodes": o.get("nodes"), "size": o.get("size"),
                                     "built": o["built"], "decoded": dec,
                                     "kindsok": o["kindsok"], "kinds": o.get("kinds"), "encsame": o["encsame"]})
        rule = ("A: every forest TLC enumerates (4 bounded alphabets incl. a depth-0..N chain) is built through the public API, "
                "encoded, decoded and compared; B: %d seeded forests over all registered tags (depth <= 99) recorded and judged by "
                "CodecTrace!CheckBuild" % total)
    else:
        jobs = []
        if prop == "C02":
            jobs.append(("MC_Codec_struct", mc_codec("MC_Codec_struct", STRUCT_CHUNKS, 4 if quick else 5, ALLOPTS)))
            jobs.append(("MC_Codec_lex", mc_codec("MC_Codec_lex", LEX_ALPHABET, 4 if quick else 6, TWOOPTS)))
        else:
            jobs.append(("MC_Codec_roles", mc_codec("MC_Codec_roles", ROLE_CHUNKS, 4 if quick else 5, ALLOPTS)))
            jobs.append(("MC_Codec_lex3", mc_codec("MC_Codec_lex3", LEX_ALPHABET + [b"H", b"2"], 3 if quick else 5, ALLOPTS)))
        for name, files in jobs:
            res, mism = run_emit_and_replay(ctx, name, files, "replay", 2400)
            for mm in mism:
                c = mm["case"]
                p, sig = classify_decode(prop, c["exp"]["out"], mm["obs"], mm["kind"] == "normal-form")
                det = {"config": name, "input": text_of(c["inp"]), "bytes": c["inp"], "opts": c["opts"],
                       "spec": c["exp"], "code": mm["obs"], "why": mm["why"]}
                if p == prop:
                    ctx.violation(sig, "%s: %s" % (sig["kind"], mm["why"]), det)
                else:
                    drift += 1
        ctx.exhaustive = True
        if prop == "C02":
            n, big = (4000, 0) if quick else (60000, 0)
        else:
            n, big = (6000, 4) if quick else (120000, 8)
        obs = ctx.path("decode_obs.ndjson")
        ctx.vh(["codec", "record", str(n), str(big)], stdout_path=obs)
        bad, total = validate_obs(ctx, "decode", obs, 2400)
        hangs = 0
        for o in bad:
            if o.get("big"):
                p, sig = "C03", {"kind": "outcome-class-large-input", "out": o["obs"]["out"]}
                det = {"size": o["size"], "opts": o["opts"], "code": o["obs"]}
            else:
                # what did the spec expect?  re-derive the class cheaply from the observation:
                # the runner does not re-implement the decoder, so it asks for the class only
                p, sig = classify_from_obs(ctx, o)
                det = {"input": text_of(o["inp"]), "bytes": o["inp"], "opts": o["opts"], "code": o["obs"], "nf": o["nf"]}
            if p == prop:
                ctx.violation(sig, "recorded decode observation rejected by CodecTrace!CheckDecode (%s)" % sig["kind"], det)
            else:
                drift += 1
        if prop == "C03":
            # decoders on several goroutines at once, fed with tags nobody has used before (one process per round)
            rounds = 4 if quick else 40
            decodes = 0
            for k in range(rounds):
                p = ctx.vh(["codec", "concurrent", "300"], check=False, env={"VERIF_SEED": str(ctx.seed + k), "GOMAXPROCS": ["16", "4", "2", "8"][k % 4]}, timeout=600)
                err = p.stderr.decode(errors="replace")
                if p.returncode != 0:
                    m = re.search(r"^(fatal error: .*|panic: .*)$", err, re.M)
                    if not m:
                        raise common.MachineryError("vh codec concurrent failed:\n" + err[-2000:])
                    ctx.violation({"kind": "crash", "site": "concurrent decoders: " + re.sub(r"\d+", "N", m.group(1))[:60]},
                                  "decoding on several goroutines at once crashed the process: " + m.group(1), {"stderr": err[:3000]})
                    continue
                r = json.loads(p.stdout.decode())
                decodes += r["decodes"]
                if r["mismatches"]:
                    ctx.violation({"kind": "concurrent-decode-differs"}, "%d of %d documents decoded concurrently differ from their sequential decode" % (
                        r["mismatches"], r["decodes"]), r)
            ctx.traces += decodes
            ctx.extra["concurrent_decodes"] = decodes
            ctx.assumptions.append("decoders running on 8 goroutines at once (each with its own reader, inputs with tags that no decoder has seen before) "
                                   "must not crash the process and must give the sequential result; this is an outcome-class observation, outside the decoder machine")
        rule = ("A: every terminal state of the decoder machine (all inputs built from <= N chunks, all option sets) replayed on the "
                "real decoder; B: %d seeded observations (level walks, mixed terminators, BOM, byte mutations, random bytes, "
                "adversarial files, 1 MB inputs) x 4 option sets judged by CodecTrace!CheckDecode" % total)
    ctx.extra["drift_not_counted"] = drift
    ctx.extra["cases_emitted_by_tlc"] = getattr(ctx, "cases_emitted", 0)
    ctx.assumptions += [
        "TLC (model checker) and the CommunityModules Json reader are trusted",
        "harness/proj.Forest is the only projection of real documents onto the abstract forest",
        "panics are classified by their message; a decode that does not return within 20 s is a hang",
    ]
    return common.finish(ctx, rule=rule)


def classify_from_obs(ctx, o):
    """A rejected recorded observation: decide which property it concerns from what the
    code did (obs) - the specification's own outcome is re-obtained from TLC by the replay
    command; here only the observed side is needed for the signature."""
    obs = o["obs"]
    out = obs["out"]
    if out in ("crash", "hang"):
        return "C03", {"kind": out, "site": re.sub(r"\d+", "N", obs.get("msg", ""))[:60]}
    if out == "panic-indent":
        return "C03", {"kind": "panic-not-tolerated" if o["opts"]["lenient"] else "panic-names-wrong-line-or-unexpected"}
    if out == "error":
        if obs.get("line", 0) < 1:
            return "C03", {"kind": "error-does-not-name-line"}
        # either the wrong line is named (C03) or a grammatical input is rejected (drift);
        # the trace spec cannot tell us which without the expected value, so ask TLC
        exp = o.get("spec_out") or spec_outcome(ctx, o)
        if exp == "error":
            return "C03", {"kind": "error-names-wrong-line"}
        return None, {"kind": "over-rejection"}
    if o.get("nf"):
        return "C02", {"kind": "normal-form"}
    exp = o.get("spec_out") or spec_outcome(ctx, o)
    if exp != "doc":
        return "C02", {"kind": "accepts-ungrammatical-input", "spec": exp}
    return "C02", {"kind": "wrong-tree"}


def spec_outcome(ctx, o):
    """Outcome class the specification assigns to one recorded input (one tiny TLC run)."""
    name = "MC_Codec_one"
    tla = """---- MODULE %s ----
EXTENDS CodecOps, Json
VARIABLE x
Init == x = 0
Next == x = 0 /\\ x' = 1 /\\ PrintT(<<"CASE", ToJson([out |-> Decode(%s, [multi |-> %s, lenient |-> %s]).out])>>)
====
""" % (name, tb(bytes(o["inp"])), str(o["opts"]["multi"]).upper(), str(o["opts"]["lenient"]).upper())
    cfg = "INIT Init\nNEXT Next\nCONSTANTS\n" + ASIS
    got = []
    ctx.tlc(name, files={name + ".tla": tla, name + ".cfg": cfg}, on_case=lambda c: got.append(c), workers=1, timeout=300)
    if not got:
        raise common.MachineryError("could not obtain the specification's outcome")
    return got[0]["out"]


def replay(ctx, path):
    """./vcheck Cxx --replay <file>: re-run the witness on the current tree and on the spec."""
    with open(path) as fh:
        rec = json.load(fh)
    w = rec["witness"]
    ctx.build_vh()
    ctx.prepare_spec()
    if "bytes" in w and "opts" in w:
        case = {"inp": w["bytes"], "opts": w["opts"], "exp": w.get("spec") or {"out": "?"}}
        if "spec" not in w:
            exp = spec_outcome(ctx, {"inp": w["bytes"], "opts": w["opts"]})
            case["exp"] = {"out": exp, "line": -1, "alt": -1, "bom": False, "forest": []}
        p = ctx.vh(["codec", "replay"], input_bytes=(json.dumps(case) + "\n").encode())
        print(p.stdout.decode())
        last = json.loads(p.stdout.decode().strip().split("\n")[-1])
        return 1 if last.get("mismatches") else 0
    if "forest" in w:
        case = {"bom": w["bom"], "forest": w["forest"], "bytes": list(w.get("text", "").encode())}
        p = ctx.vh(["codec", "replay-build"], input_bytes=(json.dumps(case) + "\n").encode())
        print(p.stdout.decode())
        last = json.loads(p.stdout.decode().strip().split("\n")[-1])
        return 1 if last.get("mismatches") else 0
    print("witness has no replayable input")
    return 2
