"""C12 - similarity scores (spec/SimilarityOps.tla, Similarity.tla, trace/SimilarityTrace.tla; harness/similarity)."""
import json
import re

from . import common
from .common import log


def cfg(mode, alphabet="{1, 2}", maxlen=1, prefixes="{8}", scores="{0}", maxn=1, minsims="{0}", distances="{<<0, 1>>}", maxyears="{3}", invs=""):
    return ("SPECIFICATION SSpec\nCONSTANTS\n  Mode = \"%s\"\n  Alphabet = %s\n  MaxLen = %d\n  Prefixes = %s\n  Scores = %s\n  MaxN = %d\n"
            "  MinSims = %s\n  Distances <- cDistances\n  MaxYearsSet = %s\nINVARIANTS %s\n"
            % (mode, alphabet, maxlen, prefixes, scores, maxn, minsims, maxyears, invs)), distances


def mc(name, mode, emit, **kw):
    c, distances = cfg(mode, **kw)
    tla = "---- MODULE %s ----\nEXTENDS Similarity, Json\ncDistances == %s\n%s\n====\n" % (name, distances, emit)
    return {name + ".tla": tla, name + ".cfg": c}


STR_EMIT = 'Emit == Ready => PrintT(<<"CASE", ToJson([kind |-> "string", x |-> x, y |-> y, p |-> p, jw |-> JW(x, y, p)])>>)'
STR_INV = "StringInUnit StringSymmetric StringIdentity Emit"
LIST_INV = "ListInUnit ListSymmetric ListIdentity"
DATE_INV = "DateInUnit DateMonotone DateIdentity DateZeroBeyond"


def date_cases(quick):
    """Date pairs with exactly known distances on the Years scale, and the parabola TLC-side is checked by
    MC_Sim_dates; the expected rational of each pair is computed by TLC from the distance the module derives."""
    return None


def names_stage(ctx, quick):
    """NamesOps.tla / Names.tla: the pieces of a personal name (what the surname and given-name similarity layers and the
    published name lists are computed from).  Conformance only: every clause is a drift clause."""
    for m in ("NamesOps", "Names", "NamesTrace"):
        ctx.sany(m)
    tla = ("---- MODULE MC_Names ----\nEXTENDS Names\n"
           "cSub == {<<>>, <<97>>, <<32, 66, 32, 32, 97>>, <<97, 47>>, <<194, 160, 97, 32>>}\n====\n")
    cfg = ("SPECIFICATION NSpec\nCONSTANTS\n  Alphabet = {97, 66, 32, 47%s}\n  MaxLen = %d\n  SubValues <- cSub\n"
           "INVARIANTS PartsPartition PartsShape ComposeInverse RenderingsClean SubTagWins WrittenIsValueWithoutSlashes Emit\n"
           % ("" if quick else ", 9", 4 if quick else 5))
    res, mism = common.emit_and_replay(ctx, "MC_Names", {"MC_Names.tla": tla, "MC_Names.cfg": cfg}, ["names", "replay"], timeout=3000, sample_every=40009)
    drift = {}
    for mm in mism:
        drift[mm["why"]] = drift.get(mm["why"], 0) + 1
    obs = ctx.path("names_obs.ndjson")
    ctx.vh(["names", "record", str(6000 if quick else 120000)], stdout_path=obs)
    bad, total = common.validate_obs(ctx, "NamesTrace", "NamesTrace", "names_obs.ndjson", obs, timeout=3000, chunk=40000)
    for o in bad:
        k = "recorded: " + o["spec_extras"][1]
        drift[k] = drift.get(k, 0) + 1
    ctx.extra["names_cases_replayed"] = res["cases"]
    ctx.extra["names_observations"] = total
    ctx.extra["names_drift_by_clause"] = drift
    if drift:
        log("note: NameNode drifts from NamesOps: %s" % drift)


def run(ctx):
    quick = ctx.tier == "quick"
    ctx.prepare_spec()
    for m in ("SimilarityOps", "Similarity", "SimilarityTrace"):
        ctx.sany(m)
    ctx.build_vh()
    # ---- strings: exhaustive over small alphabets (the match window opens at length 6)
    jobs = [
        ("MC_Sim_ab", mc("MC_Sim_ab", "strings", STR_EMIT, alphabet="{1, 2}", maxlen=7 if quick else 9, prefixes="{8}" if quick else "{0, 4, 10}", invs=STR_INV)),
        ("MC_Sim_abc", mc("MC_Sim_abc", "strings", STR_EMIT, alphabet="{1, 2, 3}", maxlen=4 if quick else 6, prefixes="{2, 8}" if quick else "{8}", invs=STR_INV)),
    ]
    for name, files in jobs:
        res, mism = common.emit_and_replay(ctx, name, files, ["similarity", "replay"], timeout=3000, sample_every=50021)
        for mm in mism:
            ctx.violation({"clause": re.sub(r"[^a-z0-9]+", "-", mm["why"].lower()).strip("-"), "layer": "string"}, mm["why"],
                          {"config": name, "x": mm["case"]["x"], "y": mm["case"]["y"], "prefix": mm["case"]["p"], "observed": mm["obs"]})
    # ---- dates: distances of whole years and of days within a year; the parabola and its monotonicity on the model,
    # every pair replayed (year-only dates resp. days of 1900 / 2000)
    date_emit = ('Emit == Ready => PrintT(<<"CASE", ToJson([kind |-> "date", a |-> DateA(x), b |-> DateB(x, y), max |-> p, '
                 'sim |-> DateSim(DistOf(x, y), p)])>>)')
    helpers = """
\\* a "distance" is <<kind, n>>: kind 1 = n whole years (year-only dates 1900 and 1900+n), kind 2 = n days within the
\\* non-leap year 1900 (1 Jan and the n-th following day: distance n/366 on the Years scale)
Md == <<31, 28, 31, 30, 31, 30, 31, 31, 30, 31, 30, 31>>
RECURSIVE DayOf1900(_, _)
DayOf1900(n, m) == IF n <= Md[m] THEN <<1900, m, n>> ELSE DayOf1900(n - Md[m], m + 1)
"""
    # simpler and fully inside the machine: Distances are rationals; the harness is given matching dates by the module
    dist_years = "{<<k, 1>> : k \\in 0..12}"
    dist_days = "{<<k, 366>> : k \\in {0, 1, 2, 30, 100, 200, 300, 364}}"
    tla_dates = """---- MODULE MC_Sim_dates ----
EXTENDS Similarity, Json
cDistances == %s \\cup %s
Md == <<31, 28, 31, 30, 31, 30, 31, 31, 30, 31, 30, 31>>
RECURSIVE DayOf1900(_, _)
DayOf1900(n, m) == IF n <= Md[m] THEN <<1900, m, n>> ELSE DayOf1900(n - Md[m], m + 1)
\\* dates whose distance on the Years scale is |x - y|: whole years as year-only dates, n/366 as days of 1900
DateOf(d) == IF d[2] = 1 THEN <<1900 + d[1], 0, 0>> ELSE DayOf1900(d[1] + 1, 1)
SameKind == x[2] = y[2]
Dist == IF x[2] = 1 THEN <<IF x[1] > y[1] THEN x[1] - y[1] ELSE y[1] - x[1], 1>> ELSE <<IF x[1] > y[1] THEN x[1] - y[1] ELSE y[1] - x[1], 366>>
Emit == (Ready /\\ SameKind) => PrintT(<<"CASE", ToJson([kind |-> "date", a |-> DateOf(x), b |-> DateOf(y), max |-> p, sim |-> DateSim(Dist, p)])>>)
====
""" % (dist_years, dist_days)
    cfg_dates = ("SPECIFICATION SSpec\nCONSTANTS\n  Mode = \"dates\"\n  Alphabet = {1}\n  MaxLen = 1\n  Prefixes = {8}\n  Scores = {0}\n  MaxN = 1\n"
                 "  MinSims = {0}\n  Distances <- cDistances\n  MaxYearsSet = {1, 3, 10}\nINVARIANTS %s Emit\n" % DATE_INV)
    res, mism = common.emit_and_replay(ctx, "MC_Sim_dates", {"MC_Sim_dates.tla": tla_dates, "MC_Sim_dates.cfg": cfg_dates},
                                       ["similarity", "replay"], timeout=1200, sample_every=401)
    for mm in mism:
        ctx.violation({"clause": re.sub(r"[^a-z0-9]+", "-", mm["why"].lower()).strip("-"), "layer": "date"}, mm["why"],
                      {"a": mm["case"]["a"], "b": mm["case"]["b"], "max": mm["case"]["max"], "observed": mm["obs"]})
    # ---- lists: the greedy assignment with 0.5 padding on every score matrix (model only; bound to the code by the recorded matrices)
    res = ctx.tlc("MC_Sim_lists", files=mc("MC_Sim_lists", "lists", "", scores="{0, 5000, 10000}" if quick else "{0, 2500, 5000, 7500, 10000}",
                                           maxn=3, minsims="{0, 7350}", invs=LIST_INV), timeout=3000)
    if res["violated"]:
        raise common.MachineryError("design step: %s violated on the list model" % res["violated"])
    ctx.exhaustive = True
    # ---- direction B: every layer on seeded inputs
    n = 30000 if quick else 600000
    obs = ctx.path("similarity_obs.ndjson")
    ctx.vh(["similarity", "record", str(n)], stdout_path=obs)
    bad, total = common.validate_obs(ctx, "SimilarityTrace", "SimilarityTrace", "similarity_obs.ndjson", obs, timeout=3000, chunk=100000)
    drift = 0
    for o in bad:
        ex = o["spec_extras"]
        if ex[0] == "model":
            drift += 1
            if drift <= 3:
                ctx.extra.setdefault("drift_samples", []).append({k: o[k] for k in o if not k.startswith("spec_")})
            continue
        ctx.violation({"clause": ex[1], "layer": ex[2]}, "%s (%s layer)" % (ex[1], ex[2]), {k: o[k] for k in o if not k.startswith("spec_")})
    with open(obs) as fh:
        for k, l in enumerate(fh):
            if k >= 6:
                break
            ctx.sample({"from": "recorded", "observation": json.loads(l)})
    ctx.extra["drift_not_counted"] = drift
    ctx.assumptions += [
        "floating point rounding is outside TLA+: floats are compared with the specification's rationals within 1e-9 (replay) and with "
        "scaled integers (recorded layers, 1e-4 .. 4e-3); bounds and operand-order independence are judged on the floats themselves "
        "(|s(a,b) - s(b,a)| <= 1e-12, 1e-9 for the weighted sum)",
        "names longer than 12 cleaned bytes are judged on bounds, symmetry and identity only (32-bit integers in TLC)",
    ]
    names_stage(ctx, quick)
    rule = ("A: every pair of strings over {a,b} / {a,b,c} up to a bounded length (Jaro-Winkler rational vs float, decorated with case, "
            "punctuation and spacing) and date pairs at exact distances; the list assignment on every score matrix up to 3x3 (model); "
            "B: %d seeded observations of the name, date, individual, list, family and weighted layers judged by SimilarityTrace" % total)
    return common.finish(ctx, rule=rule)


def replay(ctx, path):
    with open(path) as fh:
        rec = json.load(fh)
    print(json.dumps(rec["witness"])[:2000])
    return 0
