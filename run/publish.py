"""C17 (nothing about living people is published), C19 (closed, confined, deterministic file set; fail-stop)
(spec/PublishOps.tla, Publish.tla, PublishCases.tla, trace/PublishTrace.tla; harness/publish)."""
import json
import re

from . import common
from .common import log


def mc_pipeline(name, files, workers):
    tla = "---- MODULE %s ----\nEXTENDS Publish\n====\n" % name
    cfg = ("SPECIFICATION Spec\nCONSTANTS\n  MaxFiles = %d\n  MaxWorkers = %d\nINVARIANTS FailStop CallsAsExpected ProducerMayLeak\n"
           "PROPERTIES MainReturns\n" % (files, workers))
    return {name + ".tla": tla, name + ".cfg": cfg}


def mc_cases(name, people, masks, vis, jobs):
    tla = "---- MODULE %s ----\nEXTENDS PublishCases\ncJobs == <<%s>>\n====\n" % (name, ", ".join(str(j) for j in jobs))
    cfg = ("SPECIFICATION CSpec\nCONSTANTS\n  MaxPeople = %d\n  OptMasks = {%s}\n  Visibilities = {%s}\n  JobsList <- cJobs\n"
           "INVARIANTS TwinIsATwin Emit\n" % (people, ", ".join(str(m) for m in masks), ", ".join('"%s"' % v for v in vis)))
    return {name + ".tla": tla, name + ".cfg": cfg}


def people_of(case):
    return [(p["p"], p["kind"], p["given"], p["sur"], p["bplac"]) for p in case["doc"]["people"]]


def witness(o):
    c = o["case"]
    return {"kind": c["kind"], "opts": c["opts"], "jobs": c["jobs"], "failk": c["failk"], "failm": c["failm"], "doc": c["doc"],
            "twin_people": len(c["twin"]["people"]), "prior_people": len(c["prior"]["people"]),
            "runs": [{"variant": r["variant"], "files": len(r["files"]), "writes": r["writes"], "err": r["err"], "hung": r["hung"],
                      "died": r["died"], "races": r["races"][:4]} for r in o["runs"]],
            "case": c}


PN_SEEDS = ["places", "-70laces", "places-", "Places", "sources", "individuals-a", "individuals-", "individuals", "-69ndividuals-2da", "../x", "a/b", "a-2fb",
            "surnames", "families", "statistics", "index", "S1", "..", ".", "a b", "-", "--", "-2d", "_"]


def pagenames_stage(ctx, quick):
    """PageNames.tla: the page name of a source for every pointer over a hostile alphabet (plain, never a fixed page, injective on the
    model), every case replayed into html.PageSource."""
    ctx.sany("PageNames")
    def runes(s):
        return "<<" + ", ".join("<<%s>>" % ", ".join(str(b) for b in ch.encode("utf-8")) for ch in s) + ">>"
    tla = ("---- MODULE MC_PageNames ----\nEXTENDS PageNames\n"
           "cRunes == {<<112>>, <<97>>, <<45>>, <<95>>, <<55>>, <<48>>, <<47>>, <<46>>, <<92>>, <<32>>, <<80>>, <<195, 169>>%s}\n"
           "cSeeds == {%s}\n====\n" % ("" if quick else ", <<50>>, <<100>>, <<226, 130, 172>>", ", ".join(runes(x) for x in PN_SEEDS)))
    cfg = ("SPECIFICATION Spec\nCONSTANTS\n  Runes <- cRunes\n  MaxLen = %d\n  Seeds <- cSeeds\n"
           "INVARIANTS NameIsPlain NameIsNotReserved InjectiveOnce Emit\n" % (3 if quick else 4))
    res, mism = common.emit_and_replay(ctx, "MC_PageNames", {"MC_PageNames.tla": tla, "MC_PageNames.cfg": cfg}, ["publish", "pagenames"], timeout=3000, sample_every=100003)
    drift = 0
    for mm in mism:
        if mm["why"] == "model":
            drift += 1
            continue
        clause = "file-names-are-plain" if mm["why"].startswith("file-names") else "no-two-pages-share-a-name"
        ctx.violation({"clause": clause, "detail": "PageSource"}, "%s: source pointer %r gets the page name %r" % (mm["why"], mm["obs"]["pointer"], mm["obs"]["got"]),
                      {"pointer": mm["obs"]["pointer"], "page": mm["obs"]["got"], "specification": mm["obs"]["want"], "other_pointer": mm["obs"]["other"]})
    ctx.extra["pagenames_cases_replayed"] = res["cases"]
    ctx.extra["pagenames_drift"] = drift


def run(ctx):
    quick = ctx.tier == "quick"
    prop = ctx.prop
    ctx.prepare_spec()
    for m in ("PublishOps", "Publish", "PublishCases", "PublishTrace"):
        ctx.sany(m)
    ctx.build_vh()
    if prop == "C19":
        pagenames_stage(ctx, quick)
    # ---- design step: the pipeline model (every interleaving of producer, workers, writer failure)
    res = ctx.tlc("MC_Publish", files=mc_pipeline("MC_Publish", 4 if quick else 5, 3), deadlock=False, timeout=3000)
    if res["violated"]:
        raise common.MachineryError("design step: %s violated on the pipeline model" % res["violated"])
    cases = ctx.path("cases.ndjson")
    n = [0]
    env = {}
    with open(cases, "w") as fh:
        def on_case(obj):
            fh.write(json.dumps(obj, separators=(",", ":")) + "\n")
            if n[0] % 997 == 0:
                ctx.sample({"from": "TLC", "opts": obj["opts"], "people": people_of(obj), "families": obj["doc"]["families"]})
            n[0] += 1

        def seeded(kind, count):
            p = ctx.vh(["publish", "seeded", kind, str(count)])
            for line in p.stdout.decode().split("\n"):
                if line.strip():
                    fh.write(line + "\n")
                    n[0] += 1
        if prop == "C17":
            # every graph of up to 2 (3) people x page-group subsets x {hide, placeholder}
            if quick:
                ctx.tlc("MC_PublishCases", files=mc_cases("MC_PublishCases", 2, [63, 1, 9, 2, 62], ["hide", "placeholder"], [1]), on_case=on_case, timeout=3000)
            else:
                ctx.tlc("MC_PublishCases", files=mc_cases("MC_PublishCases", 2, range(1, 64), ["hide", "placeholder", "show"], [1]), on_case=on_case, timeout=6000)
                ctx.tlc("MC_PublishCases3", files=mc_cases("MC_PublishCases3", 3, [63, 11], ["hide", "placeholder"], [2]), on_case=on_case, timeout=6000)
            seeded("living", 400 if quick else 6000)
        else:
            if quick:
                ctx.tlc("MC_PublishCases", files=mc_cases("MC_PublishCases", 2, [63, 9, 62], ["show", "hide"], [1, 4]), on_case=on_case, timeout=3000)
            else:
                ctx.tlc("MC_PublishCases", files=mc_cases("MC_PublishCases", 2, range(1, 64), ["show", "hide", "placeholder"], [1, 8]), on_case=on_case, timeout=6000)
            seeded("files", 300 if quick else 5000)
            seeded("failstop", 300 if quick else 5000)
            env["VH_RACE_BIN"] = ctx.build_vh(race=True)
    ctx.exhaustive = True
    obs = ctx.path("publish_obs.ndjson")
    ctx.vh(["publish", "run"], stdin_path=cases, stdout_path=obs, timeout=20000, env=env)
    bad, total = common.validate_obs(ctx, "PublishTrace", "PublishTrace_" + prop, "publish_obs.ndjson", obs, timeout=6000, chunk=2500)
    if total != n[0]:
        raise common.MachineryError("%d of %d cases were published" % (total, n[0]))
    drift = 0
    for o in bad:
        ex = o["spec_extras"]
        if ex[0] == "model":
            drift += 1
            continue
        clause, detail = ex[1], (ex[2] if len(ex) > 2 else "").strip()
        detail = re.sub(r"0x[0-9a-f]+|\d+", "N", detail)[:90]
        ctx.violation({"clause": clause, "detail": detail}, "%s (%s) %s" % (clause, detail, json.dumps(o["case"]["opts"])), witness(o))
    ctx.extra["drift_not_counted"] = drift
    kinds, variants, roles = {}, {}, {}
    with open(obs) as fh:
        for k, l in enumerate(fh):
            o = json.loads(l)
            kinds[o["case"]["kind"]] = kinds.get(o["case"]["kind"], 0) + 1
            for r in o["runs"]:
                variants[r["variant"]] = variants.get(r["variant"], 0) + 1
            if k in (3, 3000):
                w = witness(o)
                del w["case"]
                ctx.sample({"from": "executed", "observation": w})
    ctx.extra["cases_by_kind"] = kinds
    ctx.extra["publish_runs_by_variant"] = variants
    ctx.assumptions += [
        "who is living is decided by the specification from the kind of record the materialiser wrote (death / born before 1850 / no date / "
        "born 40-60 years ago / burial only), not by calling IsLiving; births are placed well clear of the 100-year limit",
        "every private string is a unique marker token (shared surnames and places are shared tokens, which makes them public when one owner is "
        "not living); a file contains a string when its bytes or its name do, in any letter case",
        "every site is published in its own child process (the surname cache is process-wide and a rendering panic happens in a worker "
        "goroutine); links are href / src / location.href values read with the x/net/html tokenizer, fragment-only and external links are inert",
    ]
    if prop == "C17":
        rule = ("TLC builds every family graph of up to 2 (thorough: 3) people over 5 kinds of record with own or shared surnames and places "
                "and every family shape (living child, spouse, parent, unconnected), x page-group subsets x visibility, each with its twin "
                "(other data for the living people only); plus seeded graphs of up to 7 people; every site is published and PublishTrace "
                "judges it: no name of a living person in any file, hide site identical to the twin's, not-living people fully published "
                "(%d sites)" % total)
    else:
        rule = ("TLC checks the Publish pipeline (producer, N workers, failing writer) for all interleavings: main returns, a failed write is "
                "reported, writer calls follow the closed form; every graph of up to 2 people x page groups x visibility x jobs, seeded "
                "hostile graphs (path-like pointers, names of fixed pages, people and places sharing a key, odd surnames) x jobs {1,2,8,16} "
                "x run again x earlier publish in the same process x race detector, and a writer failing at the k-th call (once / from "
                "then on); PublishTrace judges names, collisions, links, equality of file maps, races, fail-stop (%d cases)" % total)
    return common.finish(ctx, rule=rule)


def replay(ctx, path):
    with open(path) as fh:
        rec = json.load(fh)
    w = rec["witness"]
    ctx.build_vh()
    ctx.prepare_spec()
    env = {"VH_RACE_BIN": ctx.build_vh(race=True)} if ctx.prop == "C19" else {}
    obs = ctx.path("publish_obs.ndjson")
    p = ctx.vh(["publish", "run"], input_bytes=(json.dumps(w["case"]) + "\n").encode(), env=env)
    with open(obs, "wb") as fh:
        fh.write(p.stdout)
    bad, total = common.validate_obs(ctx, "PublishTrace", "PublishTrace_" + ctx.prop, "publish_obs.ndjson", obs, timeout=600)
    for o in bad:
        print("rejected:", o["spec_extras"])
    return 1 if any(o["spec_extras"][0] == "prop" for o in bad) else 0
