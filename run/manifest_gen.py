#!/usr/bin/env python3
"""Regenerates MANIFEST.json from the table below (single source for the interface file)."""
import json
import os

VERIF = os.path.dirname(os.path.dirname(os.path.abspath(__file__)))

CHECKS = {
    "C01": ("codec", "TLC enumerates every forest of the CodecBuild machine (bounded alphabets, a depth chain across the 9->10 and 99->100 digit boundaries) and checks RoundTrip on the model; every emitted forest is built through the public API, encoded and decoded by the real code and compared with the specification's bytes and forest (replay); seeded forests over all registered tags are recorded and judged by the trace specification.",
            "Trusted: TLC, the Json module, harness/proj (projection) and harness/codec BuildReal (constructor paths). Bounded alphabets in the exhaustive part; random beyond.", "8 C01",
            "TLA+ spec (CodecOps/CodecBuild) + TLC exhaustive enumeration replayed into the real encoder/decoder + TLC trace validation of recorded round-trips"),
    "C02": ("codec", "The decoder is an explicit TLA+ state machine with one action per branch of Decode; TLC checks the attachment invariants (spine, depth = level, prefix stability, trimmed values, normal form) on every reachable state for all inputs built from <= N chunks x option sets, every terminal state is replayed on the real decoder, and seeded byte streams far beyond the bounds are recorded and judged by the same Decode operator.",
            "Trusted: TLC, Json module, harness/proj.Forest. Inputs the decoder rejects although the grammar accepts them are outside the property and reported as drift only.", "8 C02",
            "TLA+ decoder state machine + TLC exhaustive model checking, replay of all terminal states, TLC validation of recorded decode observations"),
    "C03": ("codec", "Same machine; TLC proves totality and the outcome classes (document | error naming a line | indent panic only when strict) over inputs with role/record tags at every level; all terminal states replayed; a seeded adversarial/random/mutated corpus incl. 1 MB inputs is decoded under all four option sets with a hang watchdog and judged by the trace specification.",
            "Trusted: TLC, panic classification by message, 20 s watchdog = hang. Coverage-guided native fuzzing is a different technique and is not used.", "8 C03",
            "TLA+ decoder state machine + TLC exhaustive model checking + TLC validation of recorded outcomes"),
}

NOT_YET = {}


def main():
    baseline = json.load(open("/root/.vp/BASELINE.json"))["cmd"] if os.path.exists("/root/.vp/BASELINE.json") else "cd /repo && go test ./..."
    props = [json.loads(l)["id"] for l in open(os.path.join(VERIF, "properties.jsonl")) if l.strip()]
    extra = {}
    p = os.path.join(VERIF, "run", "manifest_extra.json")
    if os.path.exists(p):
        extra = json.load(open(p))
    checks_tbl = dict(CHECKS)
    checks_tbl.update({k: tuple(v) for k, v in extra.get("checks", {}).items()})
    na = dict(NOT_YET)
    na.update(extra.get("not_applicable", {}))
    checks = []
    for pid in props:
        if pid not in checks_tbl:
            continue
        engine, text, note, ref, tech = checks_tbl[pid]
        checks.append({
            "property_id": pid,
            "quick_cmd": "./vcheck %s --tier quick" % pid,
            "thorough_cmd": "./vcheck %s --tier thorough" % pid,
            "evidence_file": "/verif/evidence/%s.json" % pid,
            "replay_cmd_template": "./vcheck %s --replay {path}" % pid,
            "engine": engine,
            "level_claimed": {"category": "model_checking", "text": text, "design_ref": "DESIGN.md section " + ref},
            "level_note": note,
            "technique": tech,
        })
    man = {
        "version": 1,
        "setup_cmd": "./setup.sh",
        "hooks": {
            "guard": "verif",
            "enable": "go build -tags verif (harness/go.mod replaces github.com/elliotchance/gedcom/v39 with /repo)",
            "baseline_off_cmd": extra.get("baseline_off_cmd", "cd /repo && GOFLAGS=-mod=mod GOPROXY=off GOSUMDB=off go test -vet=off -count=1 ./..."),
            "source_commits": extra.get("hook_commits", []),
            "add_only": True,
        },
        "engines": [],
        "checks": checks,
        "not_applicable": [{"property_id": p, "reason": na.get(p, "check not built yet in this round; planned in DESIGN.md section 8")}
                           for p in props if p not in checks_tbl],
        "notes": "All checks: ./vcheck <id> [--tier quick|thorough]; exit 0 held, 1 violation (VIOLATION line + replay file), 2 machinery failure. See DESIGN.md.",
    }
    engines = {}
    for pid in props:
        if pid in checks_tbl:
            engines.setdefault(checks_tbl[pid][0], []).append(pid)
    for e, ps in engines.items():
        man["engines"].append({"name": e, "path": "run/%s.py + harness/%s + spec/" % (e, e), "serves_properties": ps,
                               "kind_free_text": "TLA+ specification checked by TLC, bound to the Go code by replay and trace validation"})
    with open(os.path.join(VERIF, "MANIFEST.json"), "w") as fh:
        json.dump(man, fh, indent=1)
    print("MANIFEST.json:", len(checks), "checks,", len(man["not_applicable"]), "not applicable")


if __name__ == "__main__":
    main()
