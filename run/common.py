"""Shared machinery of ./vcheck: scratch space, TLC invocation, harness build,
known-findings classification, evidence writing and the exit protocol.

Exit protocol (see DESIGN.md section 3):
  0  property held on everything explored (listed known findings allowed)
  1  at least one unlisted violation; each printed as
       VIOLATION property=<id> replay=<path>
  2  the machinery itself failed (never reported as a violation)
"""
import json
import os
import re
import shutil
import subprocess
import sys
import tempfile
import time

VERIF = os.path.dirname(os.path.dirname(os.path.abspath(__file__)))
REPO = os.environ.get("VERIF_REPO", "/repo")
SPEC = os.path.join(VERIF, "spec")
HARNESS = os.path.join(VERIF, "harness")
MODPATH = "github.com/elliotchance/gedcom/v39"

GOENV = {
    "GOFLAGS": "-mod=mod",
    "GOPROXY": "off",
    "GOSUMDB": "off",
    "GOTOOLCHAIN": "local",
}


class MachineryError(Exception):
    """The check could not be carried out (exit 2); never a violation."""


def log(*a):
    print(*a, file=sys.stderr, flush=True)


class Ctx:
    def __init__(self, prop, tier, seed):
        self.prop = prop
        self.tier = tier
        self.seed = seed
        self.t0 = time.time()
        self.scratch = tempfile.mkdtemp(prefix="vcheck-%s-" % prop)
        self.specdir = os.path.join(self.scratch, "spec")
        self.states = 0          # distinct states over all TLC jobs
        self.transitions = 0     # generated states (= transitions explored)
        self.traces = 0          # cases replayed + traces/observations validated
        self.samples = []
        self.violations = []     # [{sig:{}, what:str, detail:{}}]
        self.tlc_jobs = []       # per job summary for the evidence file
        self.extra = {}          # extra coverage keys
        self.assumptions = []
        self.exhaustive = False
        self._spec_ready = False
        self._vh = {}

    # ------------------------------------------------------------------ spec
    def prepare_spec(self):
        """Flatten spec/ (lib, mc, trace) into one scratch directory."""
        if self._spec_ready:
            return
        os.makedirs(self.specdir, exist_ok=True)
        for root, _dirs, files in os.walk(SPEC):
            for f in files:
                if f.endswith((".tla", ".cfg")):
                    shutil.copy(os.path.join(root, f), os.path.join(self.specdir, f))
        self._spec_ready = True

    def tlc(self, module, cfg=None, workers="auto", timeout=600, simulate=None,
            depth=None, deadlock=False, on_case=None, extra_args=(), files=None,
            xss="512m", deque=False, coverage=False, cont=False, defines=None,
            expect_violation=None, heap=None, tool=False):
        """Run TLC on <module>.tla with <cfg>.cfg in the scratch spec dir.

        on_case(obj) is called for every `<<"CASE", "<json>">>` line printed by
        the spec.  Returns a dict: generated, distinct, violated (invariant /
        property name or None), exit, out (list of non-CASE output lines).
        """
        self.prepare_spec()
        if files:
            for name, content in files.items():
                mode = "wb" if isinstance(content, bytes) else "w"
                with open(os.path.join(self.specdir, name), mode) as fh:
                    fh.write(content)
        cfg = cfg or module
        meta = tempfile.mkdtemp(prefix="meta-", dir=self.scratch)
        cmd = ["java", "-XX:+UseParallelGC", "-Djava.io.tmpdir=" + self.scratch]   # TLC unpacks its standard modules into tmpdir
        if heap:
            cmd.append("-Xmx" + heap)
        if deque:
            cmd.append("-Dtlc2.tool.queue.IStateQueue=StateDeque")
        for k, v in (defines or {}).items():
            cmd.append("-D%s=%s" % (k, v))
        cmd += ["-cp", "/opt/veriftools/tla/tla2tools.jar:/opt/veriftools/tla/CommunityModules-deps.jar",
                "tlc2.TLC", "-metadir", meta, "-workers", str(workers),
                "-config", cfg + ".cfg"]
        if not deadlock:
            cmd.append("-deadlock")      # -deadlock DISABLES deadlock checking
        if simulate:
            cmd += ["-simulate", simulate]
        if depth:
            cmd += ["-depth", str(depth)]
        if coverage:
            cmd += ["-coverage", "1"]
        if cont:
            cmd.append("-continue")
        cmd += ["-seed", str(self.seed)] if simulate else []
        cmd += list(extra_args)
        cmd.append(module + ".tla")
        env = dict(os.environ)
        env["JAVA_TOOL_OPTIONS"] = "-Xss" + xss
        t0 = time.time()
        proc = subprocess.Popen(cmd, cwd=self.specdir, env=env, stdout=subprocess.PIPE,
                                stderr=subprocess.STDOUT, text=True, errors="replace")
        out = []
        res = {"module": module, "cfg": cfg, "generated": 0, "distinct": 0,
               "violated": None, "violations": [], "cases": 0, "error": None}
        pending = None
        pending_bad = None
        timed_out = []

        def _kill():
            timed_out.append(1)
            proc.kill()
        import threading
        timer = threading.Timer(timeout, _kill)
        timer.daemon = True
        timer.start()
        try:
            for line in proc.stdout:
                line = line.rstrip("\n")
                if pending is not None:
                    pending += line.strip()
                    if line.endswith(">>"):
                        self._case(pending, on_case, res)
                        pending = None
                    continue
                if line.startswith('<<"CASE"'):
                    if line.endswith(">>"):
                        self._case(line, on_case, res)
                    else:
                        pending = line
                    continue
                if pending_bad is not None:
                    pending_bad += " " + line.strip()
                    if line.rstrip().endswith(">>"):
                        out.append(re.sub(r'^<<\s*', '<<', re.sub(r'\s*>>$', '>>', re.sub(r',\s+', ', ', pending_bad))))
                        pending_bad = None
                    continue
                if re.match(r'^<<\s*"BAD"', line) and not line.rstrip().endswith(">>"):
                    pending_bad = line.strip()
                    continue
                out.append(line)
                m = re.search(r"(\d+) states generated, (\d+) distinct states found", line)
                if m:
                    res["generated"] = int(m.group(1))
                    res["distinct"] = int(m.group(2))
                m = re.search(r"Invariant (\S+) is violated", line)
                if m:
                    res["violated"] = m.group(1)
                    res["violations"].append(m.group(1))
                m = re.search(r"(Temporal properties were violated|Action property (\S+) is violated|Deadlock reached)", line)
                if m:
                    res["violated"] = m.group(2) or m.group(1)
                    res["violations"].append(res["violated"])
            proc.wait()
            if timed_out:
                raise MachineryError("TLC timed out on %s (%ds)" % (cfg, timeout))
        finally:
            timer.cancel()
            if proc.poll() is None:
                proc.kill()
            shutil.rmtree(meta, ignore_errors=True)
            shutil.rmtree(os.path.join(self.specdir, "states"), ignore_errors=True)
        res["exit"] = proc.returncode
        res["out"] = out
        res["wall_s"] = round(time.time() - t0, 1)
        # TLC exit codes: 0 ok; 10 assumption; 11 deadlock; 12 safety; 13 liveness;
        # >= 75 are errors of the tool / the spec.
        if proc.returncode not in (0, 11, 12, 13):
            tail = "\n".join(out[-40:])
            raise MachineryError("TLC failed on %s (exit %s):\n%s" % (cfg, proc.returncode, tail))
        if proc.returncode == 0 and simulate is None and res["generated"] == 0:
            # tiny models print the totals on one line only; be strict
            pass
        self.states += res["distinct"]
        self.transitions += res["generated"]
        self.tlc_jobs.append({k: res[k] for k in ("module", "cfg", "generated", "distinct",
                                                   "violated", "cases", "wall_s")})
        log("[tlc] %s: %d generated, %d distinct, %d cases, violated=%s, %.1fs" % (
            cfg, res["generated"], res["distinct"], res["cases"], res["violated"], res["wall_s"]))
        if expect_violation is None and res["violated"]:
            pass
        return res

    @staticmethod
    def _case(line, on_case, res):
        # <<"CASE", "....json with \" escapes...">>
        m = re.match(r'^<<"CASE",\s*(".*")>>$', line)
        if not m:
            raise MachineryError("cannot parse CASE line: " + line[:200])
        payload = json.loads(m.group(1))
        obj = json.loads(payload)
        res["cases"] += 1
        if on_case:
            on_case(obj)

    def sany(self, module):
        self.prepare_spec()
        p = subprocess.run(["java", "-Djava.io.tmpdir=" + self.scratch, "-cp", "/opt/veriftools/tla/tla2tools.jar:/opt/veriftools/tla/CommunityModules-deps.jar",
                            "tla2sany.SANY", module + ".tla"], cwd=self.specdir,
                           capture_output=True, text=True)
        if p.returncode != 0 or "Semantic errors" in p.stdout or "Parse Error" in p.stdout or "Fatal errors" in p.stdout:
            raise MachineryError("SANY rejected %s:\n%s" % (module, p.stdout[-3000:]))

    def apalache(self, module, inv, init="Init", nxt="Next", length=0, timeout=600):
        """Check invariant <inv> of <module>.tla with Apalache (symbolic, unbounded over integers) for executions of
        <length> steps.  A refuted law is a defect of the specification, not of the code: exit 2, like every other
        failure of this step."""
        self.prepare_spec()
        out = tempfile.mkdtemp(prefix="apalache-", dir=self.scratch)
        cmd = ["apalache-mc", "check", "--out-dir=" + out, "--length=%d" % length, "--init=" + init, "--next=" + nxt,
               "--inv=" + inv, module + ".tla"]
        t0 = time.time()
        try:
            p = subprocess.run(cmd, cwd=self.specdir, capture_output=True, text=True, timeout=timeout)
        except subprocess.TimeoutExpired:
            raise MachineryError("apalache timed out on %s!%s" % (module, inv))
        ok = p.returncode == 0 and "EXITCODE: OK" in p.stdout
        job = {"tool": "apalache-mc check", "module": module, "invariant": inv, "length": length,
               "result": "holds" if ok else "error", "wall_s": round(time.time() - t0, 1)}
        self.extra.setdefault("apalache_jobs", []).append(job)
        log("[apalache] %s!%s length=%d -> %s (%.1fs)" % (module, inv, length, job["result"], time.time() - t0))
        shutil.rmtree(out, ignore_errors=True)
        if not ok:
            raise MachineryError("apalache did not establish %s!%s:\n%s" % (module, inv, p.stdout[-2500:]))
        return job

    # --------------------------------------------------------------- harness
    def build_vh(self, race=False, tags="verif"):
        key = (race, tags)
        if key in self._vh:
            return self._vh[key]
        out = os.path.join(self.scratch, "vh" + ("-race" if race else "") + ("-" + tags if tags != "verif" else ""))
        env = dict(os.environ)
        env.update(GOENV)
        # the replace directive in harness/go.mod points at /repo: every build
        # compiles the repository's current working tree
        try:
            shutil.copy(os.path.join(REPO, "go.sum"), os.path.join(HARNESS, "go.sum"))
        except OSError:
            pass
        cmd = ["go", "build", "-o", out]
        if tags:
            cmd += ["-tags", tags]
        if race:
            cmd.append("-race")
        cmd.append("./cmd/vh")
        t0 = time.time()
        p = subprocess.run(cmd, cwd=HARNESS, env=env, capture_output=True, text=True)
        if p.returncode != 0:
            raise MachineryError("harness does not build against %s:\n%s" % (REPO, (p.stdout + p.stderr)[-4000:]))
        log("[build] vh%s in %.1fs" % (" -race" if race else "", time.time() - t0))
        self._vh[key] = out
        return out

    def vh(self, args, stdin_path=None, stdout_path=None, race=False, timeout=3600, env=None, check=True,
           input_bytes=None):
        exe = self.build_vh(race=race)
        e = dict(os.environ)
        e.update(GOENV)
        e["VERIF_SEED"] = str(self.seed)
        e["VERIF_TIER"] = self.tier
        e["VH_SELF"] = exe
        if env:
            e.update(env)
        fin = open(stdin_path, "rb") if stdin_path else None
        fout = open(stdout_path, "wb") if stdout_path else subprocess.PIPE
        try:
            p = subprocess.run([exe] + list(args), stdin=fin, stdout=fout, stderr=subprocess.PIPE,
                               env=e, timeout=timeout, input=input_bytes if fin is None else None)
        except subprocess.TimeoutExpired:
            raise MachineryError("vh %s timed out" % " ".join(args))
        finally:
            if fin:
                fin.close()
            if stdout_path:
                fout.close()
        if check and p.returncode != 0:
            raise MachineryError("vh %s failed (exit %d):\n%s" % (" ".join(args), p.returncode,
                                                                  p.stderr.decode(errors="replace")[-4000:]))
        return p

    def path(self, name):
        return os.path.join(self.scratch, name)

    # ------------------------------------------------------------ violations
    def violation(self, sig, what, detail=None):
        """Record a disagreement between the real code and the specification.
        sig: small dict naming the mechanism / input class (see known_findings.json)."""
        self.violations.append({"sig": sig, "what": what, "detail": detail})

    def sample(self, obj, limit=6):
        if len(self.samples) < limit:
            self.samples.append(obj)

    def cleanup(self):
        shutil.rmtree(self.scratch, ignore_errors=True)


def load_known(prop):
    path = os.path.join(VERIF, "known_findings.json")
    if not os.path.exists(path):
        return []
    with open(path) as fh:
        data = json.load(fh)
    return [e for e in data.get("findings", []) if e.get("property") == prop and e.get("status") == "known"]


def sig_matches(entry_sig, sig):
    """A known-finding signature matches when every key it names is present in the
    violation's signature with an equal value (lists = any-of)."""
    for k, v in entry_sig.items():
        if k not in sig:
            return False
        if isinstance(v, list):
            if sig[k] not in v:
                return False
        elif sig[k] != v:
            return False
    return True


def finish(ctx, level="model_checking", rule=None):
    """Classify violations, write evidence, print protocol lines, return exit code."""
    known = load_known(ctx.prop)
    printed_known = set()
    unlisted = []
    for v in ctx.violations:
        hit = None
        for e in known:
            if sig_matches(e["signature"], v["sig"]):
                hit = e
                break
        if hit:
            if hit["id"] not in printed_known:
                printed_known.add(hit["id"])
                print("KNOWN-FINDING: property=%s %s [%s]" % (ctx.prop, hit["what"], hit["id"]), flush=True)
        else:
            unlisted.append(v)
    # one replay file per distinct signature (first witness), capped
    seen = {}
    for v in unlisted:
        key = json.dumps(v["sig"], sort_keys=True)
        seen.setdefault(key, []).append(v)
    rdir = os.path.join(VERIF, "replays", ctx.prop)
    nfiles = 0
    for key, vs in seen.items():
        if nfiles >= 20:
            break
        os.makedirs(rdir, exist_ok=True)
        nfiles += 1
        name = "%s-seed%d-%d.json" % (ctx.tier, ctx.seed, nfiles)
        path = os.path.join(rdir, name)
        with open(path, "w") as fh:
            json.dump({"property": ctx.prop, "signature": vs[0]["sig"], "what": vs[0]["what"],
                       "count": len(vs), "witness": vs[0]["detail"],
                       "more": [x["detail"] for x in vs[1:4]]}, fh, indent=1, default=str)
        print("VIOLATION property=%s replay=%s" % (ctx.prop, path), flush=True)
        log("  -> %s (%d cases) sig=%s" % (vs[0]["what"], len(vs), key))
    cov = {
        "states": ctx.states,
        "transitions": ctx.transitions,
        "traces_validated_against_impl": ctx.traces,
        "samples": ctx.samples if ctx.samples else [{"note": "no sample recorded"}],
        "tlc_jobs": ctx.tlc_jobs,
        "exhaustive": bool(ctx.exhaustive),
        "known_findings_seen": sorted(printed_known),
    }
    if rule:
        cov["rule"] = rule
    cov.update(ctx.extra)
    ev = {
        "property_id": ctx.prop,
        "tier": ctx.tier,
        "seed": ctx.seed,
        "level": level,
        "coverage": cov,
        "assumptions": ctx.assumptions,
        "wall_s": round(time.time() - ctx.t0, 1),
        "violations": len(unlisted),
    }
    os.makedirs(os.path.join(VERIF, "evidence"), exist_ok=True)
    with open(os.path.join(VERIF, "evidence", ctx.prop + ".json"), "w") as fh:
        json.dump(ev, fh, indent=1, default=str)
    log("[done] %s tier=%s seed=%d states=%d transitions=%d traces=%d violations=%d known=%d wall=%.1fs" % (
        ctx.prop, ctx.tier, ctx.seed, ctx.states, ctx.transitions, ctx.traces, len(unlisted),
        len(printed_known), time.time() - ctx.t0))
    return 1 if unlisted else 0


def emit_and_replay(ctx, module, files, vh_args, timeout=1800, cfg=None, sample_every=997, **tlc_kw):
    """Direction A.  TLC enumerates the model, checks its invariants and prints every
    case; the real code replays every case (vh <vh_args> reads cases on stdin, writes one
    JSON line per mismatch plus a {"summary":1,"cases":n,...} line).
    Returns (tlc result, list of mismatch records)."""
    cases = ctx.path(module + ".cases.ndjson")
    count = [0]
    with open(cases, "w") as fh:
        def on_case(obj):
            fh.write(json.dumps(obj, separators=(",", ":")) + "\n")
            if count[0] % sample_every == 0:
                ctx.sample({"from": module, "case": obj})
            count[0] += 1
        res = ctx.tlc(module, cfg=cfg, files=files, on_case=on_case, timeout=timeout, **tlc_kw)
    if res["violated"]:
        raise MachineryError(
            "design step: %s is violated on the model itself (%s): the specification is wrong or an "
            "as-is switch is on; this is never reported as a violation of the code" % (res["violated"], module))
    ctx.cases_emitted = getattr(ctx, "cases_emitted", 0) + res["cases"]
    out = ctx.path(module + ".results.ndjson")
    ctx.vh(vh_args, stdin_path=cases, stdout_path=out, timeout=timeout)
    mism, summary = [], None
    for o in read_ndjson(out):
        if "summary" in o:
            summary = o
        else:
            mism.append(o)
    if summary is None or summary["cases"] != res["cases"]:
        raise MachineryError("replay of %s incomplete: %s of %d cases" % (module, summary, res["cases"]))
    ctx.traces += summary["cases"]
    os.remove(cases)
    return res, mism


def validate_obs(ctx, module, cfg, obs_name, obs_path, timeout=1800, chunk=40000, per_obs_states=2):
    """Direction B.  Every line of obs_path is an independent observation recorded from
    the real code; the trace specification <module> reads it as <obs_name>, evaluates the
    specification on each (TNext) and prints <<"BAD", i, "extra">> for every one it rejects.
    Returns (bad observations with key "spec_extra", number of observations)."""
    with open(obs_path) as fh:
        lines = [l for l in fh if l.strip()]
    n = len(lines)
    if n == 0:
        raise MachineryError("driver recorded nothing")
    save = os.environ.get("VERIF_SAVE_OBS")          # tools/selftest.py: keep a sample of what was validated
    if save:
        os.makedirs(save, exist_ok=True)
        target = os.path.join(save, "%s__%s__%s__%s" % (ctx.prop, module, cfg, obs_name))
        if not os.path.exists(target):
            with open(target, "w") as fh:
                fh.writelines(lines[:300])
    ctx.prepare_spec()
    bad = []
    # chunks of at most <chunk> observations and about 100 MB of JSON (TLC holds the parsed chunk in memory)
    parts, cur, size = [], [], 0
    for l in lines:
        if cur and (len(cur) >= chunk or size + len(l) > 100000000):
            parts.append(cur)
            cur, size = [], 0
        cur.append(l)
        size += len(l)
    if cur:
        parts.append(cur)
    for part in parts:
        with open(os.path.join(ctx.specdir, obs_name), "w") as fh:
            fh.writelines(part)
        res = ctx.tlc(module, cfg=cfg, cont=True, timeout=timeout)
        extra = []          # (index, [strings]) - one entry per BAD line; an observation may fail several clauses
        for l in res["out"]:
            m = re.match(r'^<<"BAD", (\d+)(.*)>>$', l)
            if m:
                rest = m.group(2)
                strs = re.findall(r'"([^"]*)"', rest)
                if not strs and rest.strip(", "):
                    strs = [rest.strip(", ")]
                extra.append((int(m.group(1)), strs))
        if res["distinct"] != per_obs_states * len(part):
            raise MachineryError("trace validation explored %d states for %d observations:\n%s" % (
                res["distinct"], len(part), "\n".join(res["out"][-25:])))
        if bool(extra) != bool(res["violated"]):
            raise MachineryError("BAD lines and TLC's verdict disagree")
        seen = set()
        for (i, strs) in sorted(extra, key=lambda x: (x[0], x[1])):
            key = (i, tuple(strs))
            if key in seen:
                continue      # TLC may evaluate the printing conjunct more than once
            seen.add(key)
            o = json.loads(part[i - 1])
            o["spec_extras"] = strs
            o["spec_extra"] = strs[0] if strs else ""
            bad.append(o)
        ctx.traces += len(part)
    os.remove(os.path.join(ctx.specdir, obs_name))
    return bad, n


def read_ndjson(path):
    with open(path) as fh:
        for line in fh:
            line = line.strip()
            if line:
                yield json.loads(line)
