"""C05 - date bounds and the Years scale (spec/DateBounds.tla, trace/DateBoundsTrace.tla; harness/datebounds)."""
import json

from . import common


def run(ctx):
    quick = ctx.tier == "quick"
    ctx.prepare_spec()
    for m in ("DateBounds", "DateBoundsTrace"):
        ctx.sany(m)
    ctx.build_vh()
    # the whole domain in both tiers: all 119,988 months of the years 1..9999 (3,652,059 days)
    res, mism = common.emit_and_replay(ctx, "MC_DateBounds", None, ["datebounds", "replay"], timeout=1800, sample_every=20011)
    for mm in mism:
        what = mm["what"]
        ctx.violation({"kind": what}, "%s: %04d-%02d-%02d expected %s observed %s" % (what, mm["y"], mm["m"], mm["d"], mm["exp"], mm["obs"]),
                      {"date": [mm["y"], mm["m"], mm["d"]], "what": what, "expected": mm["exp"], "observed": mm["obs"]})
    ctx.exhaustive = True
    n = 60000 if quick else 1500000
    obs = ctx.path("datebounds_obs.ndjson")
    ctx.vh(["datebounds", "record", str(n)], stdout_path=obs)
    bad, total = common.validate_obs(ctx, "DateBoundsTrace", "DateBoundsTrace", "datebounds_obs.ndjson", obs, timeout=1800, chunk=300000)
    for o in bad:
        ctx.violation({"kind": "trace-rejected"}, "recorded bounds/Years/order of %s rejected by DateBoundsTrace!Check" % [o["y"], o["m"], o["d"]],
                      {"date": [o["y"], o["m"], o["d"]], "observation": o})
    with open(obs) as fh:
        for k, l in enumerate(fh):
            if k >= 2:
                break
            ctx.sample({"from": "recorded", "observation": json.loads(l)})
    ctx.extra["days_checked_on_real_code"] = 3652059
    ctx.assumptions += [
        "lib/Calendar.tla (leap rule, month lengths, closed-form day number) is the calendar; Go's time package is used only to read "
        "Unix seconds / nanoseconds off the bounds the code returns",
        "float Years values are compared with the specification's rational within 1e-9 (replay) / 1e-6 (recorded), strict monotonicity on the floats themselves",
    ]
    rule = ("A: TLC steps through every month of years 1..9999 checking the bound/length/monotonicity/containment invariants; every month "
            "state is replayed on the real code for each of its days (both range ends, struct and parsed forms), the month-year and the "
            "year-only date; B: %d random dates through the parser judged by DateBoundsTrace" % total)
    return common.finish(ctx, rule=rule)


def replay(ctx, path):
    with open(path) as fh:
        rec = json.load(fh)
    print("witness:", json.dumps(rec["witness"]))
    print("re-run ./vcheck C05 to re-judge (the check is exhaustive over all days)")
    return 0
