"""C14 - no command crashes on a file the decoder accepts
(spec/CommandsOps.tla, Commands.tla, trace/CommandsTrace.tla; harness/commands; the real gedcom binary)."""
import json
import os
import re
import subprocess

from . import common


def mc(name, maxfaults):
    tla = "---- MODULE %s ----\nEXTENDS Commands\n====\n" % name
    cfg = "SPECIFICATION CSpec\nCONSTANTS\n  MaxFaults = %d\n  Bases = {1, 2}\nINVARIANTS OrderIrrelevant Emit\nVIEW View\n" % maxfaults
    tla = tla.replace("====", "View == <<base, faults>>\n====")
    return {name + ".tla": tla, name + ".cfg": cfg}


def build_cli(ctx):
    """the gedcom binary, built from /repo's current working tree"""
    out = ctx.path("gedcom")
    env = dict(os.environ)
    env.update(common.GOENV)
    p = subprocess.run(["go", "build", "-o", out, "./cmd/gedcom"], cwd=common.REPO, env=env, stdout=subprocess.PIPE, stderr=subprocess.STDOUT, timeout=900)
    if p.returncode != 0:
        raise common.MachineryError("cannot build cmd/gedcom:\n" + p.stdout.decode(errors="replace")[-2000:])
    return out


def mc_diffpage(name, n, w, cap, skip, key):
    tla = "---- MODULE %s ----\nEXTENDS DiffPage\ncKey == <<%s>>\n====\n" % (name, ", ".join(map(str, key)))
    cfg = ("SPECIFICATION Spec\nCONSTANTS\n  N = %d\n  W = %d\n  Cap = %d\n  Skip = {%s}\n  Key <- cKey\n"
           "INVARIANTS Bounded NoSendOnClosedChannel ClosedOnlyWhenDrained InFlightOnce PageIsTheFilteredSortedList "
           "ScheduleIndependentWithoutTies\nPROPERTY Terminates\n" % (n, w, cap, ", ".join(map(str, skip))))
    return {name + ".tla": tla, name + ".cfg": cfg}


def diffpage_stage(ctx, quick):
    """The goroutine pipeline of html.DiffPage (the library traversal behind `gedcom diff`): DiffPage.tla is model checked in every
    interleaving; real runs are judged by DiffPageTrace (termination and no panic are property clauses, the rest is conformance)."""
    for m in ("DiffPageOps", "DiffPage", "DiffPageTrace"):
        ctx.sany(m)
    shapes = [(4, 2, 1, [3], [2, 1, 2, 1]), (3, 3, 1, [], [1, 1, 1]), (4, 1, 2, [1, 4], [3, 2, 1, 1])]
    if not quick:
        shapes += [(5, 2, 2, [2], [2, 1, 2, 1, 3]), (4, 3, 1, [], [2, 2, 1, 1]), (5, 3, 1, [5], [1, 2, 1, 2, 1])]
    for k, (n, w, cap, skip, key) in enumerate(shapes):
        name = "MC_DiffPage_%d" % k
        res = ctx.tlc(name, files=mc_diffpage(name, n, w, cap, skip, key), timeout=3000, deadlock=True)
        if res["violated"]:
            raise common.MachineryError("design step: %s violated on the report pipeline model (%s)" % (res["violated"], name))
    cfgs = ctx.path("diffpage_cfgs.ndjson")
    with open(cfgs, "w") as fh:
        p = ctx.vh(["matching", "gen", str(120 if quick else 1500), "6"])
        fh.write(p.stdout.decode())
        p = ctx.vh(["matching", "gen", str(20 if quick else 200), "14"], env={"VERIF_SEED": str(ctx.seed + 1)})
        fh.write(p.stdout.decode())
    obs = ctx.path("diffpage_obs.ndjson")
    ctx.vh(["matching", "diffpage", "4"], stdin_path=cfgs, stdout_path=obs, timeout=3000)
    bad, total = common.validate_obs(ctx, "DiffPageTrace", "DiffPageTrace", "diffpage_obs.ndjson", obs, timeout=3000, chunk=20000)
    drift_by = {}
    for o in bad:
        ex = o["spec_extras"]
        if ex[0] == "model":
            drift_by[ex[1]] = drift_by.get(ex[1], 0) + 1
            continue
        ctx.violation({"clause": ex[1], "command": "diff (library)", "message": (o["panic"] or "")[:100]},
                      "%s: DiffPage.WriteHTMLTo show=%s sort=%s jobs=%s GOMAXPROCS=%s %s" % (ex[1], o["show"], o["sort"], o["jobs"], o["gomax"], o["panic"][:200]),
                      {"cfg": o["cfg"], "show": o["show"], "sort": o["sort"], "jobs": o["jobs"], "gomax": o["gomax"], "timeout": o["timeout"], "panic": o["panic"]})
    ties = 0
    with open(obs) as fh:
        for k, l in enumerate(fh):
            o = json.loads(l)
            kept = [it["key"] for it in o["items"] if not it["skip"]]
            ties += len(kept) != len(set(kept))
            if k == 5:
                o.pop("cfg", None)
                ctx.sample({"from": "recorded report run", "observation": o})
    ctx.extra["diffpage_runs"] = total
    ctx.extra["diffpage_runs_with_tied_keys"] = ties
    ctx.extra["diffpage_drift_by_clause"] = drift_by
    return total


def run(ctx):
    quick = ctx.tier == "quick"
    ctx.prepare_spec()
    for m in ("CommandsOps", "Commands", "CommandsTrace"):
        ctx.sany(m)
    ctx.build_vh()
    dp_total = diffpage_stage(ctx, quick)
    cli = build_cli(ctx)
    cases = ctx.path("cases.ndjson")
    n = [0]
    with open(cases, "w") as fh:
        def on_case(obj):
            fh.write(json.dumps(obj, separators=(",", ":")) + "\n")
            if n[0] % 211 == 0:
                ctx.sample({"from": "TLC", "case": obj})
            n[0] += 1
        # every set of up to 2 (thorough: 3) of the 31 faults, on both base graphs
        ctx.tlc("MC_Commands", files=mc("MC_Commands", 2 if quick else 3), on_case=on_case, timeout=3000)
        p = ctx.vh(["commands", "seeded", str(100 if quick else 3000)])
        for line in p.stdout.decode().split("\n"):
            if line.strip():
                fh.write(line + "\n")
                n[0] += 1
    ctx.exhaustive = True
    obs = ctx.path("commands_obs.ndjson")
    ctx.vh(["commands", "run"], stdin_path=cases, stdout_path=obs, timeout=20000, env={"VH_GEDCOM_BIN": cli})
    bad, total = common.validate_obs(ctx, "CommandsTrace", "CommandsTrace", "commands_obs.ndjson", obs, timeout=6000, chunk=4000)
    if total != n[0]:
        raise common.MachineryError("%d of %d files were run" % (total, n[0]))
    drift = 0
    for o in bad:
        ex = o["spec_extras"]
        if ex[0] == "model":
            drift += 1
            continue
        clause, cmd, msg = ex[1], (ex[2] if len(ex) > 2 else ""), (ex[3] if len(ex) > 3 else "")
        group = re.sub(r"-(show|hide|placeholder|no-\w+|only-\w+|all|subset|only-matches|written-name|highest-similarity|base|jobs\d+|\d+).*$", "", cmd)
        msg = re.sub(r"^\d{4}/\d\d/\d\d \d\d:\d\d:\d\d ", "", msg)
        msg = re.sub(r"0x[0-9a-f]+|\d+", "N", msg)[:100]
        ctx.violation({"clause": clause, "command": group, "message": msg}, "%s: %s %s (faults %s)" % (clause, cmd, msg, ",".join(o["faults"])),
                      {"base": o["base"], "faults": o["faults"], "file": o["text"], "failing_runs": [r for r in o["runs"] if r["panic"] or r["fatal"] or r["hung"] or (r["exit"] and not r["errlen"])][:6]})
    if drift:
        raise common.MachineryError("%d files of the model were not decodable or ran unknown commands" % drift)
    runs, failing = 0, 0
    with open(obs) as fh:
        for k, l in enumerate(fh):
            o = json.loads(l)
            runs += len(o["runs"])
            failing += sum(1 for r in o["runs"] if r["exit"])
            if k in (40, 900):
                ctx.sample({"from": "executed", "faults": o["faults"], "runs": [(r["cmd"], r["exit"], r["msg"][:60]) for r in o["runs"]][:12]})
    ctx.extra["process_runs"] = runs
    ctx.extra["runs_ending_with_an_error_message"] = failing
    ctx.assumptions += [
        "files are two base family graphs with sets of structural faults applied (35 fault kinds: references to missing / wrong-kind records, "
        "empty HUSB/WIFE/CHIL, missing / partial names, cyclic links, duplicate pointers, empty families, dates of every validity class, odd "
        "surnames); every file is checked to be accepted by the decoder before the commands run",
        "the commands are executed by the gedcom binary built from /repo/cmd/gedcom: warnings; publish (3 visibility modes, 4 jobs, each page "
        "group off, individuals only); diff (3 -show x 2 -sort against itself, against the fault-free base, 4 jobs); 12 queries over the 5 "
        "output formats; a process that prints 'panic:' or 'fatal error:' or runs for 60 s is a violation; a non-zero exit needs a message",
        "the specification contributes the fault-combination space (TLC enumerates every set up to the bound; the order of application is "
        "shown irrelevant) and the classification of outcomes; the verdict on the code is an outcome-class observation",
    ]
    ctx.assumptions.append("the goroutine pipeline of html.DiffPage (createJobs / workers / sortResults / caller) is the PlusCal model DiffPage.tla, checked by TLC "
                           "in every interleaving (bounded channels, no send on a closed channel, nothing lost or duplicated in flight, page = sorted filter, "
                           "termination under fairness); %d real runs (-show x -sort x Jobs x GOMAXPROCS) are judged by DiffPageTrace: termination and no "
                           "panic are property clauses, the content and order of the page are conformance clauses (drift, not counted)" % dp_total)
    rule = ("TLC enumerates every set of up to %d of 35 structural faults on 2 base graphs; plus seeded sets of 3-8 faults and the full set; "
            "each file is run through 32 invocations of the real gedcom binary and CommandsTrace judges every process outcome (%d files, %d "
            "process runs)" % (2 if quick else 3, total, runs))
    return common.finish(ctx, rule=rule)


def replay(ctx, path):
    with open(path) as fh:
        rec = json.load(fh)
    w = rec["witness"]
    ctx.build_vh()
    ctx.prepare_spec()
    cli = build_cli(ctx)
    obs = ctx.path("commands_obs.ndjson")
    p = ctx.vh(["commands", "run"], input_bytes=(json.dumps({"base": w["base"], "faults": w["faults"]}) + "\n").encode(), env={"VH_GEDCOM_BIN": cli})
    with open(obs, "wb") as fh:
        fh.write(p.stdout)
    bad, total = common.validate_obs(ctx, "CommandsTrace", "CommandsTrace", "commands_obs.ndjson", obs, timeout=600)
    for o in bad:
        print("rejected:", o["spec_extras"])
    return 1 if any(o["spec_extras"][0] == "prop" for o in bad) else 0
