"""C18 - file content can never change the structure of a published page
(spec/HtmlStructureOps.tla, HtmlStructure.tla, trace/HtmlStructureTrace.tla; harness/publish)."""
import json
import re

from . import common


def mc(name, mode, maxlen, escapes, invs):
    tla = "---- MODULE %s ----\nEXTENDS HtmlStructure\n====\n" % name
    cfg = 'SPECIFICATION HSpec\nCONSTANTS\n  Mode = "%s"\n  MaxLen = %d\n  Escapes = %s\nINVARIANTS %s\n' % (mode, maxlen, "TRUE" if escapes else "FALSE", invs)
    return {name + ".tla": tla, name + ".cfg": cfg}


def witness(o):
    c = o["case"]
    return {"opts": c["opts"], "doc": c["doc"],
            "runs": [{"variant": r["variant"], "files": [f["name"] for f in r["files"]], "err": r["err"], "hung": r["hung"], "died": r["died"]} for r in o["runs"]],
            "case": c}


def run(ctx):
    quick = ctx.tier == "quick"
    ctx.prepare_spec()
    for m in ("HtmlStructureOps", "HtmlStructure", "HtmlStructureTrace"):
        ctx.sany(m)
    ctx.build_vh()
    # ---- design step: the nesting machine against the rewriting definition on every event sequence; the sink models
    res = ctx.tlc("MC_Html_events", files=mc("MC_Html_events", "events", 5 if quick else 6, True, "StackIsRun MachineIsBalance BadIsFinal"), timeout=3000)
    if res["violated"]:
        raise common.MachineryError("design step: %s violated by the nesting machine" % res["violated"])
    res = ctx.tlc("MC_Html_escaping", files=mc("MC_Html_escaping", "values", 4 if quick else 5, True, "SinkIsSafe"), timeout=3000)
    if res["violated"]:
        raise common.MachineryError("design step: an escaping sink violates %s" % res["violated"])
    res = ctx.tlc("MC_Html_copying", files=mc("MC_Html_copying", "values", 4, False, "SinkIsSafe"), timeout=3000)
    ctx.extra["copying_sink_counterexample"] = res["violated"]
    if res["violated"] != "SinkIsSafe":
        raise common.MachineryError("design step: the copying sink should violate SinkIsSafe")
    cases = ctx.path("cases.ndjson")
    n = 150 if quick else 3000
    ctx.vh(["publish", "seeded", "structure", str(n)], stdout_path=cases)
    obs = ctx.path("htmlstructure_obs.ndjson")
    ctx.vh(["publish", "run"], stdin_path=cases, stdout_path=obs, timeout=20000)
    bad, total = common.validate_obs(ctx, "HtmlStructureTrace", "HtmlStructureTrace", "htmlstructure_obs.ndjson", obs, timeout=6000, chunk=100)
    for o in bad:
        ex = o["spec_extras"]
        clause, detail = ex[1], (ex[2] if len(ex) > 2 else "").strip()
        detail = re.sub(r"0x[0-9a-f]+|\d+", "N", detail)[:90]
        ctx.violation({"clause": clause, "detail": detail}, "%s (%s)" % (clause, detail), witness(o))
    pages, events = 0, 0
    with open(obs) as fh:
        for k, l in enumerate(fh):
            o = json.loads(l)
            for r in o["runs"]:
                pages += len(r["files"])
                events += sum(len(f["ev"]) for f in r["files"])
            if k == 2:
                w = witness(o)
                del w["case"], w["doc"]
                ctx.sample({"from": "executed", "observation": w})
    ctx.extra["pages_tokenised"] = pages
    ctx.extra["tag_events"] = events
    ctx.exhaustive = False
    ctx.assumptions += [
        "pages are tokenised with golang.org/x/net/html (trusted lexer); the specification decides nesting and equality of the tag-event "
        "skeletons, not byte-level lexing",
        "the tainted document carries the token <q7\"'&> at the end of every value (names, name parts, nicknames, places, notes, occupations, "
        "sex, event values and types, source titles and authors, marriage places); its benign twin carries q7 in the same places; pages are "
        "paired by their name without the token and punctuation; each document is published in its own process",
        "strict nesting: every start tag of a non-void element has its end tag (the library writes all of them)",
    ]
    rule = ("TLC checks the nesting machine against an independent rewriting definition on every event sequence up to 5 (6) events, and that "
            "an escaping sink makes the page skeleton independent of the value while a copying sink does not; %d seeded documents (tainted + "
            "benign twin) are published with all page kinds, the diff report (3 modes) and 7 html-formatted query results; "
            "HtmlStructureTrace requires equal skeletons, strict nesting and no verbatim token (%d pages, %d tag events)" % (total, pages, events))
    return common.finish(ctx, rule=rule)


def replay(ctx, path):
    with open(path) as fh:
        rec = json.load(fh)
    w = rec["witness"]
    ctx.build_vh()
    ctx.prepare_spec()
    obs = ctx.path("htmlstructure_obs.ndjson")
    p = ctx.vh(["publish", "run"], input_bytes=(json.dumps(w["case"]) + "\n").encode())
    with open(obs, "wb") as fh:
        fh.write(p.stdout)
    bad, total = common.validate_obs(ctx, "HtmlStructureTrace", "HtmlStructureTrace", "htmlstructure_obs.ndjson", obs, timeout=600)
    for o in bad:
        print("rejected:", o["spec_extras"])
    return 1 if bad else 0
