"""C20 - warnings are reported exactly when the recorded facts warrant them
(spec/WarningsOps.tla, Warnings.tla, trace/WarningsTrace.tla; harness/warnings)."""
import json

from . import common

QUICK = dict(
    FatherSexes='{<<"M">>, <<"F">>, <<"M", "F">>}', MotherSexes='{<<"F">>, <<"M">>}',
    FatherBirth='{<<D(1900, 6, 15)>>}', MotherBirth='{<<D(1901, 7, 20)>>, <<>>}',
    Child1Birth='{<<D(1900, 3, 1)>>, <<D(1900, 12, 25)>>, <<D(1925, 5, 10)>>}',
    Child2Birth='{<<D(1925, 5, 11)>>, <<D(1925, 5, 20)>>, <<D(1926, 1, 30)>>, <<D(1926, 2, 20)>>, <<D(1924, 11, 1)>>}',
    TwoChildren='BOOLEAN', Child1Baptism='{<<>>, <<D(1925, 5, 1)>>}',
    Marriage='{<<>>, <<D(1916, 6, 1)>>, <<D(2001, 8, 15)>>, <<Bad("long ago")>>}',
    FatherDeath='{<<>>, <<D(2000, 6, 1)>>, <<D(2000, 7, 1)>>}', FatherBurial='{<<>>, <<D(2000, 5, 20)>>}',
    SecondFamily='{"none", "samechild", "otherchild"}')
THOROUGH = dict(QUICK)
THOROUGH.update(
    FatherSexes='{<<"M">>, <<"F">>, <<"M", "F">>, <<>>}',
    Child1Birth='{<<D(1900, 3, 1)>>, <<D(1900, 12, 25)>>, <<D(1925, 5, 10)>>, <<Bad("sometime")>>}',
    Child2Birth='{<<D(1925, 5, 11)>>, <<D(1925, 5, 20)>>, <<D(1926, 1, 30)>>, <<D(1926, 2, 20)>>, <<D(1927, 6, 1)>>, <<D(1924, 11, 1)>>}',
    Child1Baptism='{<<>>, <<D(1925, 5, 1)>>, <<D(1925, 6, 1)>>}',
    Marriage='{<<>>, <<D(1916, 6, 1)>>, <<D(1924, 1, 10)>>, <<D(2000, 7, 1)>>, <<D(2001, 8, 15)>>, <<Bad("long ago")>>}',
    FatherBurial='{<<>>, <<D(2000, 5, 20)>>, <<D(2000, 7, 10)>>}')


def mc(name, sets):
    tla = "---- MODULE %s ----\nEXTENDS Warnings, Json\n" % name
    cfg = "SPECIFICATION WSpec\nCONSTANTS\n"
    for k, v in sets.items():
        tla += "c%s == %s\n" % (k, v)
        cfg += "  %s <- c%s\n" % (k, k)
    tla += 'Emit == Done => PrintT(<<"CASE", ToJson([doc |-> Doc])>>)\n====\n'
    cfg += "INVARIANTS OrderIndependent NamesRealPeople Emit\n"
    return {name + ".tla": tla, name + ".cfg": cfg}


def run(ctx):
    quick = ctx.tier == "quick"
    ctx.prepare_spec()
    for m in ("WarningsOps", "Warnings", "WarningsTrace"):
        ctx.sany(m)
    ctx.build_vh()
    cases = ctx.path("cases.ndjson")
    n = [0]
    with open(cases, "w") as fh:
        def on_case(obj):
            fh.write(json.dumps(obj, separators=(",", ":")) + "\n")
            if n[0] % 9001 == 0:
                ctx.sample({"from": "TLC", "case": obj})
            n[0] += 1
        res = ctx.tlc("MC_Warnings", files=mc("MC_Warnings", QUICK if quick else THOROUGH), on_case=on_case, timeout=2400)
        if res["violated"]:
            raise common.MachineryError("design step: %s violated on the model" % res["violated"])
        p = ctx.vh(["warnings", "gen", str(4000 if quick else 80000)])
        for line in p.stdout.decode().split("\n"):
            if line.strip():
                fh.write(line + "\n")
                n[0] += 1
    ctx.exhaustive = True
    obs = ctx.path("warnings_obs.ndjson")
    ctx.vh(["warnings", "exec"], stdin_path=cases, stdout_path=obs, timeout=3000)
    bad, total = common.validate_obs(ctx, "WarningsTrace", "WarningsTrace", "warnings_obs.ndjson", obs, timeout=3000, chunk=60000)
    for o in bad:
        ex = o["spec_extras"]
        clause, mech = ex[1], ex[2] if len(ex) > 2 else ""
        ctx.violation({"clause": clause, "mechanism": mech}, "%s (%s)" % (clause, mech),
                      {"doc": o["doc"], "got": o["got"], "gotp": o["gotp"], "panic": o["panic"]})
    ctx.extra["documents"] = total
    ctx.assumptions += [
        "all generated dates stay >= 10 days away from every threshold (2 / 274 days, 16 / 100 years of 365.25 days), so the "
        "documented condition is clearly met or clearly not met",
        "the Go time package is used by the driver only to place dates (inputs); the calendar of the oracle is lib/Calendar.tla",
    ]
    rule = ("TLC builds every family graph of the Warnings machine (sexes x births at margins x sibling gaps x baptism x marriage ages x "
            "death/burial x second family of the same father), seeded larger graphs are added; each is materialised in the given order and "
            "in two permutations of records and children, Document.Warnings() is projected to (name, people) and judged against "
            "WarningsOps!Expected by WarningsTrace (%d documents)" % total)
    return common.finish(ctx, rule=rule)


def replay(ctx, path):
    with open(path) as fh:
        rec = json.load(fh)
    ctx.build_vh()
    ctx.prepare_spec()
    obs = ctx.path("warnings_obs.ndjson")
    p = ctx.vh(["warnings", "exec"], input_bytes=(json.dumps({"doc": rec["witness"]["doc"]}) + "\n").encode())
    with open(obs, "wb") as fh:
        fh.write(p.stdout)
    bad, total = common.validate_obs(ctx, "WarningsTrace", "WarningsTrace", "warnings_obs.ndjson", obs, timeout=600)
    for o in bad:
        print("rejected:", o["spec_extras"])
    return 1 if bad else 0
