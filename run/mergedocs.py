"""C10 - merging documents accounts for every person and keeps links valid
(spec/MergeDocsOps.tla, MergeDocs.tla, trace/MergeDocsTrace.tla; harness/mergedocs)."""
import json

from . import common
from .common import log

BASES = """{ [people |-> <<P("I1", 1), P("I2", 2), P("I3", 3)>>, fams |-> <<F("F1", "I1", "I2", <<"I3">>)>>],
            [people |-> <<P("I1", 1), P("I2", 2)>>, fams |-> <<F("F1", "I1", "", <<"I2">>)>>],
            [people |-> <<P("I1", 1), P("I2", 2), P("I3", 3)>>, fams |-> <<F("F1", "I1", "I2", <<>>), F("F2", "I1", "", <<"I3">>)>>],
            [people |-> <<P("I1", 1)>>, fams |-> <<>>],
            [people |-> <<>>, fams |-> <<>>] }"""


def mc(name, norewrite, emit=True):
    tla = """---- MODULE %s ----
EXTENDS MergeDocs, Json
P(p, w) == [p |-> p, who |-> w]
F(p, h, w, c) == [p |-> p, husb |-> h, wife |-> w, chil |-> c]
cBases == %s
Emit == stage = "merged" => PrintT(<<"CASE", ToJson([left |-> left, right |-> right])>>)
====
""" % (name, BASES)
    cfg = "SPECIFICATION MSpec\nCONSTANTS\n  Bases <- cBases\n  NoRewrite = %s\nINVARIANTS InputsWellFormed Accounted LinksValid%s\n" % (
        "TRUE" if norewrite else "FALSE", " Emit" if emit else "")
    return {name + ".tla": tla, name + ".cfg": cfg}


def run(ctx):
    quick = ctx.tier == "quick"
    ctx.prepare_spec()
    for m in ("MergeDocsOps", "MergeDocs", "MergeDocsTrace"):
        ctx.sany(m)
    ctx.build_vh()
    cases = ctx.path("cases.ndjson")
    n = [0]
    with open(cases, "w") as fh:
        def on_case(obj):
            fh.write(json.dumps(obj, separators=(",", ":")) + "\n")
            if n[0] % 301 == 0:
                ctx.sample({"from": "TLC", "case": obj})
            n[0] += 1
        res = ctx.tlc("MC_Merge_ideal", files=mc("MC_Merge_ideal", False), on_case=on_case, timeout=1800)
        if res["violated"]:
            raise common.MachineryError("design step: %s violated by the ideal merge" % res["violated"])
        res = ctx.tlc("MC_Merge_asis", files=mc("MC_Merge_asis", True, emit=False), timeout=1800)
        ctx.extra["asis_counterexample"] = {"AsIs_NoPointerRewrite": res["violated"]}
        if res["violated"] != "LinksValid":
            log("note: the as-is merge model violates %s" % res["violated"])
        p = ctx.vh(["mergedocs", "gen", str(600 if quick else 12000)])
        for line in p.stdout.decode().split("\n"):
            if line.strip():
                fh.write(line + "\n")
                n[0] += 1
    ctx.exhaustive = True
    obs = ctx.path("mergedocs_obs.ndjson")
    ctx.vh(["mergedocs", "exec"], stdin_path=cases, stdout_path=obs, timeout=3000)
    bad, total = common.validate_obs(ctx, "MergeDocsTrace", "MergeDocsTrace", "mergedocs_obs.ndjson", obs, timeout=3000, chunk=20000)
    drift = 0
    for o in bad:
        ex = o["spec_extras"]
        if ex[0] == "model":
            drift += 1
            continue
        clause, mech = ex[1], ex[2] if len(ex) > 2 else ""
        ctx.violation({"clause": clause, "mechanism": mech}, "%s (%s)" % (clause, mech),
                      {"left": o["left"], "right": o["right"], "default_options": o["default"], "lib": o["lib"], "query": o["query"]})
    ctx.extra["drift_not_counted"] = drift
    ctx.assumptions += [
        "people with the same ground-truth identity get identical names and birth dates, different people disjoint ones, so the matching "
        "(C11's subject) is clear-cut under the default options; strict / lenient thresholds are exercised as well",
        "provenance is observed through marker notes and per-person facts (one flat, one nested below BIRT) that the materialiser writes",
    ]
    rule = ("TLC derives right documents from base family graphs by edit actions (renumber one / all pointers, drop, add a stranger under a "
            "free or a clashing pointer, drop families) and checks the ideal merge (with pointer rewriting) against the property and the "
            "as-is merge against its named deviation; every pair plus seeded larger pairs is merged by the library call and by the query "
            "function and the projected outputs are judged by MergeDocsTrace (%d pairs)" % total)
    return common.finish(ctx, rule=rule)


def replay(ctx, path):
    with open(path) as fh:
        rec = json.load(fh)
    w = rec["witness"]
    ctx.build_vh()
    ctx.prepare_spec()
    obs = ctx.path("mergedocs_obs.ndjson")
    p = ctx.vh(["mergedocs", "exec"], input_bytes=(json.dumps({"left": w["left"], "right": w["right"]}) + "\n").encode())
    with open(obs, "wb") as fh:
        fh.write(p.stdout)
    bad, total = common.validate_obs(ctx, "MergeDocsTrace", "MergeDocsTrace", "mergedocs_obs.ndjson", obs, timeout=600)
    for o in bad:
        print("rejected:", o["spec_extras"])
    return 1 if any(o["spec_extras"][0] == "prop" for o in bad) else 0
