"""C11 - matching individuals on any schedule (spec/Matching.tla [PlusCal], MatchingOps.tla, trace/MatchingTrace.tla;
harness/matching; hooks in /repo under the build tag verif)."""
import json
import os
import re

from . import common
from .common import log

# input configurations explored exhaustively on the PlusCal model (all interleavings) and replayed on the real code
# (ptrl, ptrr, uidl, uidr, score table of the model, who of the materialised individuals)
CONFIGS = [
    dict(name="uid_and_pointer", ptrl=[1, 2, 3], ptrr=[1, 5, 6], uidl=[0, 7, 0], uidr=[0, 7, 0],
         score=[[90, 10, 20], [30, 95, 40], [50, 60, 80]], whol=[1, 2, 3], whor=[1, 2, 3]),
    dict(name="duplicate_uid", ptrl=[1, 2, 3], ptrr=[1, 5, 6], uidl=[7, 7, 0], uidr=[7, 0, 0],
         score=[[90, 10, 20], [30, 95, 40], [50, 60, 80]], whol=[1, 2, 3], whor=[1, 2, 3]),
    dict(name="crossing_uid_pointer", ptrl=[1, 2], ptrr=[2, 9], uidl=[7, 0], uidr=[7, 0],
         score=[[90, 10], [95, 40]], whol=[1, 2], whor=[1, 2]),
    dict(name="ties_twins", ptrl=[1, 2, 3], ptrr=[4, 5, 6], uidl=[0, 0, 0], uidr=[0, 0, 0],
         score=[[90, 90, 20], [90, 90, 40], [50, 60, 80]], whol=[1, 1, 3], whor=[1, 1, 3]),
    dict(name="uneven_sides", ptrl=[1, 2, 3], ptrr=[3], uidl=[0, 0, 0], uidr=[0],
         score=[[30], [85], [90]], whol=[1, 2, 3], whor=[3]),
    dict(name="empty_right", ptrl=[1, 2], ptrr=[], uidl=[5, 0], uidr=[], score=[[], []], whol=[1, 2], whor=[]),
]


def tup(x):
    if isinstance(x, list):
        return "<<" + ", ".join(tup(y) for y in x) + ">>"
    return str(x)


def mc(name, c, w, cap, fix, threshold=70, prefer=70):
    tla = "---- MODULE %s ----\nEXTENDS Matching\ncPtrL == %s\ncPtrR == %s\ncUidL == %s\ncUidR == %s\ncScore == %s\n====\n" % (
        name, tup(c["ptrl"]), tup(c["ptrr"]), tup(c["uidl"]), tup(c["uidr"]), tup(c["score"]))
    cfg = ("SPECIFICATION Spec\nCONSTANTS\n  NL = %d\n  NR = %d\n  W = %d\n  Cap = %d\n  PtrL <- cPtrL\n  PtrR <- cPtrR\n  UidL <- cUidL\n"
           "  UidR <- cUidR\n  Score <- cScore\n  Threshold = %d\n  PreferAbove = %d\n  FixUniq = %s\n"
           "INVARIANTS EveryLeftOnce EveryRightOnce NoEmptyResult PairsJustified Bounded ScheduleIndependent\nPROPERTY Terminates\n"
           % (len(c["ptrl"]), len(c["ptrr"]), w, cap, threshold, prefer, "TRUE" if fix else "FALSE"))
    return {name + ".tla": tla, name + ".cfg": cfg}


RACE_KNOWN_FUNCS = [
    # lazily filled, unsynchronised caches (see known_findings.json C11-F2)
    "validateCache", "resetCache", "(*IndividualNode).Families", "(*IndividualNode).Spouses", "(*IndividualNode).UniqueIdentifiers",
    "(*FamilyNode).Husband", "(*FamilyNode).Wife", "(*Document).Families",
]


def parse_races(stderr):
    """Each race report is reduced to the repository frames of its two accesses:
    [(innermost frame, all frames), (innermost frame, all frames)]."""
    reports = stderr.split("WARNING: DATA RACE")[1:]
    out = []
    for rep in reports:
        rep = rep.split("==================")[0]
        accesses = []
        for block in re.split(r"\n\s*\n", rep):
            block = block.strip()
            if not re.match(r"^(Write|Read|Previous write|Previous read|Atomic|Previous atomic)", block):
                continue
            frames = []
            for line in block.split("\n")[1:]:
                line = line.strip()
                if line.startswith("github.com/elliotchance/gedcom/v39"):
                    fn = line.replace("github.com/elliotchance/gedcom/v39.", "").replace("github.com/elliotchance/gedcom/v39/", "")
                    fn = re.sub(r"\(\)$", "", fn)
                    fn = re.sub(r"\((0x[0-9a-f]+|\{|\.\.\.|[0-9]).*$", "", fn).strip()
                    frames.append(fn)
            if frames:
                accesses.append((frames[0], frames))
        if len(accesses) >= 2:
            out.append(accesses[:2])
    return out


def run(ctx):
    quick = ctx.tier == "quick"
    ctx.prepare_spec()
    for m in ("MatchingOps", "Matching", "MatchingTrace"):
        ctx.sany(m)
    ctx.build_vh()
    # ---- design step: every interleaving of the pipeline for each input configuration
    combos = [(2, 1)] if quick else [(1, 1), (2, 1), (2, 2), (3, 1)]
    for c in CONFIGS:
        if not c["ptrr"]:
            continue   # NR = 0: the score table is degenerate for the model; exercised on the real code only
        for (w, cap) in combos:
            if not quick and w == 3 and len(c["ptrl"]) > 2 and c["name"] not in ("uid_and_pointer",):
                continue
            name = "MC_Match_%s_w%d_c%d" % (c["name"], w, cap)
            res = ctx.tlc(name, files=mc(name, c, w, cap, True), timeout=3000, deadlock=True)
            if res["violated"]:
                raise common.MachineryError("design step: %s violated on the ideal pipeline model (%s)" % (res["violated"], name))
    # the named deviation of the tree before the repair: the unique-id phase ignores the right individuals already sent
    dup = [c for c in CONFIGS if c["name"] == "duplicate_uid"][0]
    res = ctx.tlc("MC_Match_asis", files=mc("MC_Match_asis", dup, 2, 1, False), timeout=3000, deadlock=True)
    ctx.extra["asis_counterexample"] = {"AsIs_UniqPhaseIgnoresSentB": res["violated"]}
    if res["violated"] != "EveryRightOnce":
        log("note: the as-is pipeline model no longer violates EveryRightOnce (%s)" % res["violated"])
    # ---- direction B: the same configurations and seeded larger ones on the real goroutines
    cfgs = ctx.path("configs.ndjson")
    with open(cfgs, "w") as fh:
        for c in CONFIGS:
            for (th, pr) in ((0.735, 0.735), (0, 0), (1, 1), (0.9, 0)):
                fh.write(json.dumps({"ptrl": c["ptrl"], "ptrr": c["ptrr"], "uidl": c["uidl"], "uidr": c["uidr"],
                                     "whol": c["whol"], "whor": c["whor"], "threshold": th, "prefer": pr}) + "\n")
        p = ctx.vh(["matching", "gen", str(250 if quick else 4000), "6"])
        fh.write(p.stdout.decode())
        p = ctx.vh(["matching", "gen", str(40 if quick else 400), "14"], env={"VERIF_SEED": str(ctx.seed + 1)})
        fh.write(p.stdout.decode())
    obs = ctx.path("matching_obs.ndjson")
    ctx.vh(["matching", "run", str(6 if quick else 12)], stdin_path=cfgs, stdout_path=obs, timeout=3000)
    bad, total = common.validate_obs(ctx, "MatchingTrace", "MatchingTrace", "matching_obs.ndjson", obs, timeout=3000, chunk=20000)
    drift = 0
    drift_by = {}
    drift_example = {}
    for o in bad:
        ex = o["spec_extras"]
        if ex[0] == "model":
            drift += 1
            drift_by[ex[1]] = drift_by.get(ex[1], 0) + 1
            drift_example.setdefault(ex[1], {"jobs": o["jobs"], "I": o["I"], "logs": o["logs"], "final": o["final"]})
            continue
        ctx.violation({"clause": ex[1]}, "%s (jobs=%s GOMAXPROCS=%s)" % (ex[1], o["jobs"], o["gomax"]),
                      {"cfg": o["cfg"], "jobs": o["jobs"], "gomax": o["gomax"], "seed": o["seed"], "final": o["final"], "seq": o["seq"],
                       "timeout": o["timeout"], "panic": o["panic"], "I": o["I"]})
    ctx.extra["drift_not_counted"] = drift
    ctx.extra["drift_by_clause"] = drift_by
    if os.environ.get("VERIF_DEBUG_DRIFT"):
        with open(os.environ["VERIF_DEBUG_DRIFT"], "w") as fh:
            json.dump(drift_example, fh)
    with open(obs) as fh:
        for k, l in enumerate(fh):
            if k in (1, 7):
                o = json.loads(l)
                o["logs"] = {k2: v[:6] for k2, v in o["logs"].items()}
                ctx.sample({"from": "recorded run", "observation": o})
    # ---- data races: the Go race detector is the event source
    n = 60 if quick else 600
    p = ctx.vh(["matching", "race", str(n)], race=True, check=False, timeout=3000)
    err = p.stderr.decode(errors="replace")
    if "VH-RACE-RUNS" not in err:
        raise common.MachineryError("race run did not complete:\n" + err[-2000:])
    races = parse_races(err)
    ctx.extra["race_runs"] = n
    ctx.extra["race_reports"] = len(races)
    ctx.extra["race_sites"] = sorted({" / ".join(sorted(a[0] for a in r)) for r in races})
    ctx.traces += n
    for r in races:
        # a race on a lazily filled cache: one of the two accesses happens inside one of the known lazy accessors
        # (the filler); the other side may be a plain read of the value it handed out earlier
        known = any(any(any(k in f for k in RACE_KNOWN_FUNCS) for f in frames) for (_inner, frames) in r)
        inner = sorted(a[0] for a in r)
        ctx.violation({"clause": "data-race", "class": "lazy-cache" if known else "other", "site": "lazy-cache" if known else " / ".join(inner)},
                      "data race between %s and %s" % (inner[0], inner[1]), {"innermost": inner, "stacks": [a[1][:8] for a in r]})
    ctx.assumptions += [
        "similarities enter the specification as dense ranks of the float values measured on the same documents (the model only compares them)",
        "schedules are perturbed through the verif hook (yield / sleep at the logged points) under GOMAXPROCS in {1,2,16}; a Compare that does "
        "not return within 20 s is a violation of termination",
        "data races are observed by the Go race detector (the compiler's instrumentation is the hook); a report is reduced to its two innermost "
        "repository frames",
    ]
    rule = ("TLC explores every interleaving of the PlusCal pipeline (uniq/ptr workers with barriers, matrix, proc workers, collector, "
            "winners) for each uid/pointer configuration: one-to-one, justified pairs, schedule independence without ties, termination; the "
            "real Compare is run on those configurations and seeded ones for Jobs in {0,1,2,3,8,16} x GOMAXPROCS in {1,2,16} under perturbed "
            "schedules (%d runs) and every result is judged by MatchingTrace; %d runs under the race detector" % (total, n))
    return common.finish(ctx, rule=rule)


def replay(ctx, path):
    with open(path) as fh:
        rec = json.load(fh)
    w = rec["witness"]
    if "cfg" not in w:
        print(json.dumps(w))
        return 0
    ctx.build_vh()
    ctx.prepare_spec()
    obs = ctx.path("matching_obs.ndjson")
    p = ctx.vh(["matching", "run", "12"], input_bytes=(json.dumps(w["cfg"]) + "\n").encode())
    with open(obs, "wb") as fh:
        fh.write(p.stdout)
    bad, total = common.validate_obs(ctx, "MatchingTrace", "MatchingTrace", "matching_obs.ndjson", obs, timeout=600)
    for o in bad:
        print("rejected:", o["spec_extras"], "jobs", o["jobs"], "gomax", o["gomax"])
    return 1 if any(o["spec_extras"][0] == "prop" for o in bad) else 0
