"""C04 - the documented DATE grammar (spec/DatesOps.tla, Dates.tla, trace/DatesTrace.tla; harness/dates)."""
import json
import re

from . import common


def sset(items):
    return "{" + ", ".join(str(x) if not isinstance(x, str) else '"%s"' % x for x in items) + "}"


def bset(items):
    return "{" + ", ".join("TRUE" if x else "FALSE" for x in items) + "}"


def mc(name, **k):
    d = dict(Cases=["lower", "upper", "title"], KwSet=list(range(16)), Days=[1, 9, 28, 29, 30, 31], LeadZero=[False, True],
             MonthSet=list(range(1, 24)), JunkMonthSet=[], Years=[1, 89, 999, 1900, 2000, 2023, 9999], RangeSet=[False],
             BetSet=[1, 2, 3, 4], AndSet=[1, 2, 3], Extra=[0], AllowMissingYear=False, AllowDayWithoutMonth=False, TrailSet=[0])
    d.update(k)
    tla = """---- MODULE %s ----
EXTENDS Dates, Json
Emit == stage = "done" => PrintT(<<"CASE", ToJson([text |-> text, exp |-> Meaning,
                                              canon |-> IF Meaning.valid THEN Canon(Meaning) ELSE <<>>])>>)
====
""" % name
    cfg = "SPECIFICATION DSpec\nCONSTANTS\n"
    for key in ("Cases", "KwSet", "Days", "MonthSet", "JunkMonthSet", "Years", "BetSet", "AndSet", "Extra", "TrailSet"):
        cfg += "  %s = %s\n" % (key, sset(d[key]))
    for key in ("LeadZero", "RangeSet"):
        cfg += "  %s = %s\n" % (key, bset(d[key]))
    for key in ("AllowMissingYear", "AllowDayWithoutMonth"):
        cfg += "  %s = %s\n" % (key, "TRUE" if d[key] else "FALSE")
    cfg += "INVARIANTS ParserAgreesWithGrammar PrintParse CanonIsCanonical NearMissIsInvalid Emit\n"
    return {name + ".tla": tla, name + ".cfg": cfg}


def classify(why):
    w = why
    if w.startswith("panic"):
        return {"kind": "panic"}
    if w.startswith("wrong "):
        return {"kind": "wrong-field", "field": w[6:]}
    return {"kind": re.sub(r"[^a-z]+", "-", w.lower()).strip("-")[:60]}


def run(ctx):
    quick = ctx.tier == "quick"
    ctx.prepare_spec()
    for m in ("DatesOps", "Dates", "DatesTrace"):
        ctx.sany(m)
    ctx.build_vh()
    jobs = [
        ("MC_Dates_single", mc("MC_Dates_single") if quick else
         mc("MC_Dates_single", Days=[1, 2, 9, 10, 19, 28, 29, 30, 31], Years=[1, 9, 10, 89, 100, 999, 1000, 1582, 1900, 2000, 2023, 2024, 9999])),
        ("MC_Dates_range", mc("MC_Dates_range", RangeSet=[True], Cases=["lower", "upper"], KwSet=[0, 2, 14], Days=[31], LeadZero=[False],
                              MonthSet=[3], Years=[1900, 2000]) if quick else
         mc("MC_Dates_range", RangeSet=[True], Cases=["lower", "title"], KwSet=[0, 1, 4, 11, 14], Days=[1, 31], LeadZero=[False],
            MonthSet=[3, 17], Years=[1900, 2000])),
        ("MC_Dates_near", mc("MC_Dates_near", Cases=["lower"], KwSet=[0, 1, 15], Days=[0, 1, 29, 30, 31, 32], MonthSet=[1, 3, 4, 7, 16],
                             JunkMonthSet=[1, 2, 3, 4], Years=[1, 1900, 2000, 2001, 2004, 2100], AllowMissingYear=True,
                             AllowDayWithoutMonth=True, TrailSet=[0, 1, 5], RangeSet=[False])),
        ("MC_Dates_nearrange", mc("MC_Dates_nearrange", Cases=["lower"], KwSet=[0, 13], Days=[29, 31], LeadZero=[False], MonthSet=[3, 7],
                                  JunkMonthSet=[2], Years=[1900, 2004], AllowMissingYear=True, TrailSet=[0, 5], RangeSet=[True],
                                  BetSet=[1, 4], AndSet=[1, 3])),
        ("MC_Dates_spaces", mc("MC_Dates_spaces", Cases=["title"], KwSet=[0, 2, 10], Days=[3], LeadZero=[False], MonthSet=[16], Years=[1943],
                               Extra=[0, 1, 2, 4, 7], RangeSet=[False])),
        ("MC_Dates_spacesrange", mc("MC_Dates_spacesrange", Cases=["title"], KwSet=[0, 14], Days=[3], LeadZero=[False], MonthSet=[16],
                                    Years=[1943], Extra=[0, 5], RangeSet=[True], BetSet=[3], AndSet=[1])),
    ]
    for name, files in jobs:
        res, mism = common.emit_and_replay(ctx, name, files, ["dates", "replay"], timeout=2400)
        for mm in mism:
            ctx.violation(classify(mm["why"]), "%s: %r" % (mm["why"], mm["text"]),
                          {"config": name, "text": mm["text"], "bytes": mm["case"]["text"], "spec": mm["case"]["exp"],
                           "canon": bytes(mm["case"]["canon"]).decode("latin-1"), "code": mm["obs"]})
    ctx.exhaustive = True
    n = 40000 if quick else 600000
    obs = ctx.path("dates_obs.ndjson")
    ctx.vh(["dates", "record", str(n)], stdout_path=obs)
    bad, total = common.validate_obs(ctx, "DatesTrace", "DatesTrace", "dates_obs.ndjson", obs, timeout=2400, chunk=100000)
    for o in bad:
        text = bytes(o["text"]).decode("utf-8", errors="backslashreplace")
        if o.get("panic"):
            sig = {"kind": "panic"}
        elif o["spec_extra"] == "valid" and not o["parsed"]["valid"]:
            sig = {"kind": "documented-form-reported-invalid"}
        elif o["spec_extra"] == "invalid" and o["parsed"]["valid"]:
            sig = {"kind": "invalid-form-accepted"}
        else:
            sig = {"kind": "trace-rejected", "spec": o["spec_extra"]}
        ctx.violation(sig, "recorded parse/print rejected by DatesTrace!Check: %r" % text,
                      {"text": text, "bytes": o["text"], "code": {k: o[k] for k in ("parsed", "node", "re", "nre")},
                       "str": bytes(o["str"]).decode("latin-1"), "nstr": bytes(o["nstr"]).decode("latin-1")})
    with open(obs) as fh:
        for k, l in enumerate(fh):
            if k >= 2:
                break
            o = json.loads(l)
            o["text_str"] = bytes(o["text"]).decode("latin-1")
            ctx.sample({"from": "recorded", "observation": o})
    ctx.extra["cases_emitted_by_tlc"] = getattr(ctx, "cases_emitted", 0)
    ctx.assumptions += [
        "TLC and the CommunityModules Json reader are trusted",
        "the reference parser DatesOps!ParseValue is a transcription of the grammar documented on gedcom.Date; forms outside it "
        "(5-digit years, days with two leading zeros, other keywords) are not generated",
    ]
    rule = ("A: every sentence of the generative machine (keyword x case x shape x month spelling x boundary days/years; ranges; near "
            "misses; extra spaces) parsed and printed by the real code and compared with Meaning/Canon; B: %d seeded sentences "
            "(uniform days/years, random per-letter case, 0-6 extra spaces, ranges, near misses) judged by DatesTrace!Check" % total)
    return common.finish(ctx, rule=rule)


def replay(ctx, path):
    with open(path) as fh:
        rec = json.load(fh)
    w = rec["witness"]
    ctx.build_vh()
    case = {"text": w["bytes"], "exp": w.get("spec", {"valid": False}), "canon": list(w.get("canon", "").encode("latin-1"))}
    if "spec" not in w:
        print("witness came from trace validation; re-run the check to re-judge it (text: %r)" % w.get("text"))
    p = ctx.vh(["dates", "replay"], input_bytes=(json.dumps(case) + "\n").encode())
    print(p.stdout.decode())
    last = json.loads(p.stdout.decode().strip().split("\n")[-1])
    return 1 if last.get("mismatches") else 0
