"""Alphabets (childless nodes) for the NodeHeap configs: each entry gives the node as the Go
harness builds it (tag, value, pointer) together with how the kind rules read the value."""


def sig(t, v="", p="", x=None):
    return {"t": t, "v": v, "p": p, "x": x or {"k": "plain"}, "kids": []}


def date(c, y):
    word = {"Exact": "", "About": "Abt. ", "Before": "Bef. ", "After": "Aft. "}[c]
    return sig("DATE", "%s%d" % (word, y), "", {"k": "date", "c": c, "y": y})


NOTE_A, NOTE_B, OCCU = sig("NOTE", "a"), sig("NOTE", "b"), sig("OCCU", "a")
BIRT, DEAT = sig("BIRT"), sig("DEAT", "Y")
HEAD, INDI_LIKE = sig("HEAD"), sig("_REC", "", "P1")
RESI, EVEN, EVEN_X = sig("RESI"), sig("EVEN"), sig("EVEN", "x")
PLAC_A, PLAC_B = sig("PLAC", "Paris"), sig("PLAC", "Rome")
NAME = sig("NAME", "John /Smith/")
D1900, D1950 = date("Exact", 1900), date("Exact", 1950)
A1900 = date("About", 1900)
B1900, B1950 = date("Before", 1900), date("Before", 1950)
AF1900, AF1950 = date("After", 1900), date("After", 1950)
PHRASE = sig("DATE", "(after the war)", "", {"k": "phrase"})
BADDATE = sig("DATE", "sometime", "", {"k": "baddate"})
UID1 = sig("_UID", "EE13561DDB204985BFFDEEBF82A5226C5B2E", "", {"k": "uid", "u": 1})
UID2 = sig("_UID", "92FF8B766F327F48A256C3AE6DAE50D3A114", "", {"k": "uid", "u": 2})
UIDBAD = sig("_UID", "xyz", "", {"k": "baduid"})
UIDBAD2 = sig("_UID", "not-a-uuid", "", {"k": "baduid"})


def tla(v):
    if isinstance(v, dict):
        return "[" + ", ".join("%s |-> %s" % (k, tla(x)) for k, x in v.items()) + "]"
    if isinstance(v, list):
        return "<<" + ", ".join(tla(x) for x in v) + ">>"
    if isinstance(v, bool):
        return "TRUE" if v else "FALSE"
    if isinstance(v, int):
        return str(v)
    return '"%s"' % v


def tlaset(items):
    return "{" + ", ".join(tla(x) for x in items) + "}"
