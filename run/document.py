"""C13 - reads never modify a document, views reflect every edit
(spec/DocumentOps.tla, Document.tla, trace/DocumentTrace.tla; harness/document)."""
import json

from . import common
from .nodeheap_alpha import tlaset


def ops_alphabet(big):
    ops = [
        {"k": "AddIndividual", "p": "I1"}, {"k": "AddIndividual", "p": "I2"}, {"k": "AddFamily", "p": "F1"},
        {"k": "AddFamilyWithHusbandAndWife", "p": "F1", "h": "I1", "w": "I2"},
        {"k": "SetHusband", "f": "F1", "i": "I1"}, {"k": "SetHusband", "f": "F1", "i": "I2"}, {"k": "SetWife", "f": "F1", "i": "I2"},
        {"k": "ClearHusband", "f": "F1"}, {"k": "ClearWife", "f": "F1"}, {"k": "AddChild", "f": "F1", "i": "I2"},
        {"k": "AddNode", "rt": "INDI", "rp": "I1", "t": "NAME", "v": "a"},
        {"k": "DeleteNode", "rt": "INDI", "rp": "I1", "t": "NAME"}, {"k": "DeleteNode", "rt": "FAM", "rp": "F1", "t": "HUSB"},
        {"k": "DeleteNode", "rt": "FAM", "rp": "F1", "t": "CHIL"},
        {"k": "SetNodes", "rt": "INDI", "rp": "I1", "kids": []}, {"k": "SetNodes", "rt": "FAM", "rp": "F1", "kids": []},
        {"k": "DocAddNode", "t": "NOTE", "v": "n", "p": ""},
        {"k": "DocDeleteNode", "rt": "INDI", "rp": "I1"}, {"k": "DocDeleteNode", "rt": "INDI", "rp": "I2"}, {"k": "DocDeleteNode", "rt": "FAM", "rp": "F1"},
    ]
    if big:
        ops += [{"k": "AddFamily", "p": "F2"}, {"k": "SetWife", "f": "F2", "i": "I1"}, {"k": "AddChild", "f": "F2", "i": "I1"},
                {"k": "DeleteNode", "rt": "INDI", "rp": "I2", "t": "FAMC"}, {"k": "DocDeleteNode", "rt": "FAM", "rp": "F2"},
                {"k": "SetNodes", "rt": "INDI", "rp": "I1", "kids": [{"t": "NAME", "v": "s", "p": "", "kids": []}]}]
    return ops


def mc(name, ops, maxlen):
    tla = """---- MODULE %s ----
EXTENDS Document, Json
cOps == %s
Emit == Len(h) = MaxLen => PrintT(<<"CASE", ToJson([ops |-> [k \\in 1..Len(h) |-> h[k].op]])>>)
====
""" % (name, tlaset(ops))
    cfg = "SPECIFICATION DSpec\nCONSTANTS\n  Ops <- cOps\n  MaxLen = %d\nINVARIANTS ViewsDefined PointersStayUnique EditsVisible Emit\n" % maxlen
    return {name + ".tla": tla, name + ".cfg": cfg}


def run(ctx):
    quick = ctx.tier == "quick"
    ctx.prepare_spec()
    for m in ("DocumentOps", "Document", "DocumentTrace"):
        ctx.sany(m)
    ctx.build_vh()
    hist = ctx.path("histories.ndjson")
    n = [0]
    with open(hist, "w") as fh:
        def on_case(obj):
            fh.write(json.dumps(obj, separators=(",", ":")) + "\n")
            if n[0] % 5003 == 0:
                ctx.sample({"from": "TLC", "history": obj})
            n[0] += 1
        jobs = [("MC_Doc_small", mc("MC_Doc_small", ops_alphabet(False), 5 if quick else 6))]
        if not quick:
            jobs.append(("MC_Doc_big", mc("MC_Doc_big", ops_alphabet(True), 5)))
        for name, files in jobs:
            res = ctx.tlc(name, files=files, on_case=on_case, timeout=2400)
            if res["violated"]:
                raise common.MachineryError("design step: %s violated on the ideal machine (%s)" % (res["violated"], name))
        p = ctx.vh(["document", "gen", str(300 if quick else 5000), str(40 if quick else 60)])
        for line in p.stdout.decode().split("\n"):
            if line.strip():
                fh.write(line + "\n")
                n[0] += 1
    ctx.exhaustive = True
    obs = ctx.path("document_obs.ndjson")
    ctx.vh(["document", "exec"], stdin_path=hist, stdout_path=obs, timeout=3000)
    bad, total = common.validate_obs(ctx, "DocumentTrace", "DocumentTrace", "document_obs.ndjson", obs, timeout=3000, chunk=12000)
    drift = 0
    for o in bad:
        ex = o["spec_extras"]
        keep = {k: o[k] for k in ("hist", "step", "op", "pre", "post", "live", "fresh", "livef", "freshf", "read", "readok", "readp", "oppanic")}
        if ex[0] == "model":
            drift += 1
            if drift <= 3:
                ctx.extra.setdefault("drift_samples", []).append({"what": ex[1], "op": o["op"], "pre": o["pre"], "post": o["post"]})
            continue
        clause, detail, opk = ex[1], ex[2], ex[3]
        sig = {"clause": clause, "view_or_read": detail}
        ctx.violation(sig, "%s (%s) after %s" % (clause, detail, opk), keep)
    ctx.extra["drift_not_counted"] = drift
    ctx.extra["histories"] = n[0]
    ctx.assumptions += [
        "a step is judged from the logged state before it, so one divergence does not hide later ones",
        "publishing as a read-only operation is exercised by C17/C19 (each publish needs its own process); the other read-only "
        "operations rotate through Warnings, String, Compare, SurroundingSimilarity, CompareNodes, DeepCopy, Filter, queries, MergeDocuments",
        "panics inside an edit or a read-only operation are C14/C15 material and are not counted here",
    ]
    rule = ("TLC enumerates every history of public edit operations up to a bounded length over a small universe (checking that edits are "
            "visible in the views of the ideal machine); every history plus seeded long histories on a larger universe is executed on a real "
            "document, reading all views after every step on the live document and on a fresh decode and running a read-only operation; "
            "each of the %d steps is judged by DocumentTrace" % total)
    return common.finish(ctx, rule=rule)


def replay(ctx, path):
    with open(path) as fh:
        rec = json.load(fh)
    print(json.dumps(rec["witness"].get("op")), "after", len(rec["witness"].get("pre", [])), "records; re-run ./vcheck C13")
    return 0
