"""C07 C08 C09 - node trees: deep equality / copies, diffs, merges
(spec/NodeHeapOps.tla, NodeHeap.tla, trace/NodeHeapTrace.tla; harness/nodeheap)."""
import json
import os

from . import common
from .common import log
from .nodeheap_alpha import *  # noqa: F401,F403

IDEAL = "[dateFuzzy |-> FALSE, uidBadNeverEq |-> FALSE, kidsInEquals |-> FALSE]"
ASIS = "[dateFuzzy |-> TRUE, uidBadNeverEq |-> FALSE, kidsInEquals |-> TRUE]"


def mc(name, mode, sigs, roots, depth, maxkids, edits=None, flags=IDEAL, maxlist=2, fns=("eq",), emit=True):
    edits = edits or [NOTE_A, OCCU]
    tlam = """---- MODULE %s ----
EXTENDS NodeHeap, Json
cSigs == %s
cRoot == %s
cEdit == %s
cFlags == %s
Emit == op # NoneOp => PrintT(<<"CASE", ToJson([mode |-> Mode, A |-> A, B |-> B, op |-> op])>>)
====
""" % (name, tlaset(sigs), tlaset(roots), tlaset(edits), flags)
    cfg = """SPECIFICATION HSpec
CONSTANTS
  Mode = "%s"
  Flags <- cFlags
  Sigs <- cSigs
  RootSigs <- cRoot
  EditSigs <- cEdit
  Depth = %d
  MaxKids = %d
  MaxList = %d
  Fns = {%s}
INVARIANTS C07Holds SelfEqual C08Holds C09NodesHolds C09SlicesHolds%s
""" % (mode, depth, maxkids, maxlist, ", ".join('"%s"' % f for f in fns), " Emit" if emit else "")
    return {name + ".tla": tlam, name + ".cfg": cfg}


def jobs_for(prop, quick):
    J = []
    if prop == "C07":
        J.append(("MC_NH07_plain", mc("MC_NH07_plain", "c07", [NOTE_A, NOTE_B, BIRT], [HEAD], 3, 2), "ideal"))
        J.append(("MC_NH07_kinds", mc("MC_NH07_kinds", "c07", [D1900, A1900, B1950, AF1900, PHRASE, BADDATE, UID1, UIDBAD, NOTE_A] if not quick
                                      else [D1900, A1900, B1950, AF1900, PHRASE, UID1, UIDBAD], [HEAD], 2, 3, edits=[NOTE_A, UIDBAD2]), "ideal"))
        J.append(("MC_NH07_resi", mc("MC_NH07_resi", "c07", [RESI, D1900, B1950, PLAC_A] if not quick else [RESI, D1900, PLAC_A], [HEAD], 3, 2), "ideal"))
        J.append(("MC_NH07_places", mc("MC_NH07_places", "c07", [RESI, PLAC_A, PLAC_B] if quick else [RESI, EVEN, PLAC_A, PLAC_B], [HEAD], 3, 2), "ideal"))
        J.append(("MC_NH07_even", mc("MC_NH07_even", "c07", [EVEN_X, EVEN, A1900, PLAC_A, PLAC_B], [HEAD], 3 if not quick else 2, 2 if not quick else 3), "ideal"))
        # the named deviation: two different Before (After) dates as siblings
        J.append(("MC_NH07_asis", mc("MC_NH07_asis", "c07", [B1900, B1950, D1900, A1900, NOTE_A], [HEAD], 2, 3, flags=ASIS), "asis"))
    elif prop == "C08":
        J.append(("MC_NH08_deep", mc("MC_NH08_deep", "c08", [NOTE_A, BIRT], [HEAD], 3, 2), "ideal"))
        J.append(("MC_NH08_wide", mc("MC_NH08_wide", "c08", [NOTE_A, NOTE_B, BIRT] if quick else [NOTE_A, NOTE_B, BIRT, D1900], [HEAD], 2, 3), "ideal"))
        J.append(("MC_NH08_kinds", mc("MC_NH08_kinds", "c08", [D1900, A1900, B1950, UIDBAD, RESI, PLAC_A], [HEAD], 2, 2 if quick else 3), "ideal"))
        J.append(("MC_NH08_asis", mc("MC_NH08_asis", "c08", [B1900, B1950, NOTE_A], [HEAD], 2, 2, flags=ASIS), "asis"))
    else:
        J.append(("MC_NH09_deep", mc("MC_NH09_deep", "c09n", [NOTE_A, BIRT], [HEAD], 3, 2), "ideal"))
        J.append(("MC_NH09_wide", mc("MC_NH09_wide", "c09n", [NOTE_A, NOTE_B, BIRT] if quick else [NOTE_A, NOTE_B, BIRT, D1900], [HEAD], 2, 3), "ideal"))
        J.append(("MC_NH09_kinds", mc("MC_NH09_kinds", "c09n", [D1900, A1900, UIDBAD, RESI, PLAC_A], [HEAD], 2, 2 if quick else 3), "ideal"))
        J.append(("MC_NH09_lists", mc("MC_NH09_lists", "c09s", [NOTE_A, NOTE_B, BIRT], [HEAD], 1, 0, maxlist=3, fns=("eq", "always", "never")), "ideal"))
        J.append(("MC_NH09_listtrees", mc("MC_NH09_listtrees", "c09s", [NOTE_A, BIRT] if quick else [NOTE_A, NOTE_B, BIRT], [HEAD], 2, 1,
                                          maxlist=2, fns=("eq", "always", "never")), "ideal"))
    return J


MODES = {"C07": ["c07"], "C08": ["c08"], "C09": ["c09n", "c09s"]}


def run(ctx):
    quick = ctx.tier == "quick"
    prop = ctx.prop
    ctx.prepare_spec()
    for m in ("NodeHeapOps", "NodeHeap", "NodeHeapTrace"):
        ctx.sany(m)
    ctx.build_vh()
    cases = ctx.path("cases.ndjson")
    ncases = [0]
    with open(cases, "w") as fh:
        def on_case(obj):
            fh.write(json.dumps(obj, separators=(",", ":")) + "\n")
            if ncases[0] % 4001 == 0:
                ctx.sample({"from": "TLC", "case": obj})
            ncases[0] += 1
        for name, files, kind in jobs_for(prop, quick):
            res = ctx.tlc(name, files=files, on_case=on_case, timeout=2400)
            if kind == "ideal" and res["violated"]:
                raise common.MachineryError("design step: %s violated on the ideal machine (%s)" % (res["violated"], name))
            if kind == "asis":
                # (b) of DESIGN section 1: the as-is machine must fail, and only through the named deviation
                ctx.extra.setdefault("asis_counterexamples", {})[name] = res["violated"]
                if not res["violated"]:
                    log("note: the as-is machine %s no longer violates the property on the model" % name)
                # TLC stops at the first violation: emit the whole alphabet with the invariant switched off
                f2 = dict(files)
                cfgname = name + ".cfg"
                f2[cfgname] = f2[cfgname].replace("INVARIANTS C07Holds SelfEqual C08Holds C09NodesHolds C09SlicesHolds Emit", "INVARIANTS Emit")
                ctx.tlc(name, files=f2, on_case=on_case, timeout=2400)
        # seeded cases beyond the bounds (random trees over every kind, wide nodes, duplicates)
        for mode in MODES[prop]:
            n = (3000 if quick else 60000) if mode != "c07" else (4000 if quick else 80000)
            p = ctx.vh(["nodeheap", "gen", mode, str(n)])
            for line in p.stdout.decode().split("\n"):
                if line.strip():
                    fh.write(line + "\n")
                    ncases[0] += 1
    ctx.exhaustive = True
    obs = ctx.path("nodeheap_obs.ndjson")
    ctx.vh(["nodeheap", "exec"], stdin_path=cases, stdout_path=obs, timeout=3000)
    bad, total = common.validate_obs(ctx, "NodeHeapTrace", "NodeHeapTrace", "nodeheap_obs.ndjson", obs, timeout=3000, chunk=60000)
    if total != ncases[0]:
        raise common.MachineryError("executed %d of %d cases" % (total, ncases[0]))
    drift = 0
    for o in bad:
        ex = o["spec_extras"]
        if ex[0] == "model":
            drift += 1
            if drift <= 3:
                ctx.extra.setdefault("drift_samples", []).append({k: o[k] for k in o if k not in ("spec_extra", "spec_extras")})
            continue
        clause, mech = ex[1], ex[2]
        sig = {"clause": clause, "mechanism": mech}
        det = {k: o[k] for k in o if k not in ("spec_extra", "spec_extras")}
        ctx.violation(sig, "%s fails (%s)" % (clause, mech), det)
    ctx.extra["drift_not_counted"] = drift
    ctx.extra["cases_emitted_by_tlc"] = ncases[0]
    ctx.assumptions += [
        "TLC and the Json module are trusted; harness/nodeheap only executes and projects (identity labels by pointer comparison)",
        "DATE values in the exhaustive alphabets are year-only dates (Years() = year + 1/2); the date parser itself is C04's subject",
        "a result that satisfies every clause of the property but differs from the transcribed algorithm is counted as drift, not as a violation",
    ]
    rule = ("TLC enumerates every tree (pair of trees, pair of lists) over bounded alphabets per kind rule and checks the property on the "
            "transcribed algorithms; every case plus seeded random cases over all kinds are executed on the real code and every recorded "
            "observation (%d) is judged by NodeHeapTrace (property clauses, refinement of the transcription)" % total)
    return common.finish(ctx, rule=rule)


def replay(ctx, path):
    with open(path) as fh:
        rec = json.load(fh)
    w = rec["witness"]
    ctx.build_vh()
    ctx.prepare_spec()
    mode = w["mode"]
    case = {"mode": mode, "op": w.get("op", {"k": "x"})}
    if mode in ("c07", "c08"):
        case["A"], case["B"] = w["A"], w.get("B", [])
    elif mode == "c09n":
        case["A"], case["B"] = w["A"][0], w["B"][0]
    else:
        case["A"], case["B"] = w["A"], w["B"]
        case["op"] = {"k": "mergeslices", "fn": w.get("fn", "eq")}
    if "order" in w:
        pass
    obs = ctx.path("nodeheap_obs.ndjson")
    p = ctx.vh(["nodeheap", "exec"], input_bytes=(json.dumps(case) + "\n").encode())
    with open(obs, "wb") as fh:
        fh.write(p.stdout)
    bad, total = common.validate_obs(ctx, "NodeHeapTrace", "NodeHeapTrace", "nodeheap_obs.ndjson", obs, timeout=600)
    for o in bad:
        print("rejected:", o["spec_extras"])
    return 1 if any(o["spec_extras"][0] == "prop" for o in bad) else 0
