"""C06 - date range comparison (spec/DateCompareOps.tla, DateCompare.tla, trace/DateCompareTrace.tla; harness/datecompare)."""
import json
import re

from . import common


def mc_compare(window):
    cfg = ("SPECIFICATION CSpec\nCONSTANT Window = %d\nINVARIANTS Total SelfEqual ConverseHolds ConversePossible "
           "AmbiguousOnlyIfDegenerate ExactlyOneVerdict PickAllowed Emit\n" % window)
    return {"MC_DateCompare.cfg": cfg}


def mc_gran(years, days):
    cfg = ("SPECIFICATION GSpec\nCONSTANTS\n  YearsSpan = {%s}\n  DaysOfMonth = {%s}\nINVARIANTS GTotal GEmit\n"
           % (", ".join(map(str, years)), ", ".join(map(str, days))))
    return {"MC_DateGranularity.cfg": cfg}


def mc_gran_named(name, years, days):
    """a second instance of the granularity machine under another module name (other years)"""
    import os
    src = open(os.path.join(common.SPEC, "mc", "MC_DateGranularity.tla")).read().replace("MODULE MC_DateGranularity", "MODULE " + name)
    cfg = list(mc_gran(years, days).values())[0]
    return {name + ".tla": src, name + ".cfg": cfg}


def run(ctx):
    quick = ctx.tier == "quick"
    ctx.prepare_spec()
    for m in ("DateCompareRel", "DateCompareOps", "DateCompare", "DateCompareTrace", "DateCompareInd"):
        ctx.sany(m)
    # the laws of the relation algebra for ALL pairs of forward integer intervals (SMT), not only those of TLC's window
    ctx.apalache("DateCompareInd", "Laws", length=0, timeout=900)
    ctx.build_vh()
    jobs = [("MC_DateCompare", mc_compare(10 if quick else 13)),
            ("MC_DateGranularity", mc_gran([1999, 2000, 2001], [1, 15]) if quick else mc_gran([1899, 1900, 1901, 2000], [1, 2, 15, 28]))]
    # century years that are leap years in the Julian calendar only (before 1582) and the first years of the calendar
    jobs.append(("MC_DateGranularityOld", mc_gran_named("MC_DateGranularityOld", [1499, 1500, 1501] if quick else [99, 100, 101, 1500], [1, 28] if quick else [1, 15, 28])))
    if not quick:
        jobs.append(("MC_DateGranularityFirst", mc_gran_named("MC_DateGranularityFirst", [1, 2, 4], [1, 2, 28])))
    for name, files in jobs:
        res, mism = common.emit_and_replay(ctx, name, files, ["datecompare", "replay"], timeout=1800)
        for mm in mism:
            sig = {"kind": re.sub(r"[^a-z]+", "-", mm["why"].lower()).strip("-")}
            ctx.violation(sig, "%s: [%s] compared with [%s] gives %s / swapped %s" % (mm["why"], mm["left"], mm["right"], mm["obs"]["r1"], mm["obs"]["r2"]),
                          {"config": name, "left": mm["left"], "right": mm["right"], "observed": mm["obs"], "via_string": mm["via_string"],
                           "allowed_pairs": mm["case"]["pairs"]})
    ctx.exhaustive = True
    n = 60000 if quick else 1200000
    obs = ctx.path("datecompare_obs.ndjson")
    ctx.vh(["datecompare", "record", str(n)], stdout_path=obs)
    bad, total = common.validate_obs(ctx, "DateCompareTrace", "DateCompareTrace", "datecompare_obs.ndjson", obs, timeout=1800, chunk=300000)
    for o in bad:
        kind = "invalid-for-forward-ranges" if "Invalid" in (o["r1"], o["r2"]) else "trace-rejected"
        ctx.violation({"kind": kind}, "recorded comparison rejected by DateCompareTrace!Check: %s..%s vs %s..%s -> %s / %s" % (
            o["A"], o["B"], o["C"], o["D"], o["r1"], o["r2"]), {"observation": o})
    with open(obs) as fh:
        for k, l in enumerate(fh):
            if k >= 2:
                break
            ctx.sample({"from": "recorded", "observation": json.loads(l)})
    ctx.assumptions += [
        "where an operand is a single day several drawn relations hold at once; any of them is accepted as long as the two operand "
        "orders give converse relations (DateCompareOps!AllowedPairs)",
        "dates of month/year granularity are the day intervals given by lib/Calendar.tla",
    ]
    ctx.assumptions.append("apalache-mc (length 0, end points ranging over Int) establishes DateCompareInd!Laws: totality, converse law for proper ranges, "
                           "uniqueness for proper ranges, self-equality, converse-consistent pick, existence of a lawful pair of answers, sound verdicts")
    rule = ("A: every [a,b] x [c,d] in a day window, mapped onto 8 calendar anchors (month, year, leap-day, century and int64-nanosecond "
            "boundaries) and every day/month/year granularity pairing in a multi-year span, compared both ways through the constructor and "
            "the parser; B: %d random ranges over years 1..9999 judged by DateCompareTrace" % total)
    return common.finish(ctx, rule=rule)


def replay(ctx, path):
    with open(path) as fh:
        rec = json.load(fh)
    print("witness:", json.dumps(rec["witness"]))
    return 0
