#!/bin/sh
# Run once after a fresh restore (offline): checks that the tools are there,
# parses every specification module and builds the harness from files on disk.
set -e
cd "$(dirname "$0")"
export GOFLAGS=-mod=mod GOPROXY=off GOSUMDB=off GOTOOLCHAIN=local
cp /repo/go.sum harness/go.sum
(cd harness && go build -tags verif -o /dev/null ./cmd/vh)
tmp=$(mktemp -d)
trap 'rm -rf "$tmp"' EXIT
find spec -name '*.tla' -exec cp {} "$tmp"/ \;
cd "$tmp"
fail=0
for f in *.tla; do
  if ! java -Djava.io.tmpdir="$tmp" -cp /opt/veriftools/tla/tla2tools.jar:/opt/veriftools/tla/CommunityModules-deps.jar tla2sany.SANY "$f" > "$f.out" 2>&1 \
     || grep -q -E 'Semantic errors|Parse Error|Fatal errors|Could not find module' "$f.out"; then
    echo "SANY failed on $f"; tail -20 "$f.out"; fail=1
  fi
done
[ $fail -eq 0 ] && echo "setup ok"
exit $fail
