// Package commands materialises fault-perturbed family graphs (the cases of Commands.tla), runs the real gedcom
// binary on them - warnings, publish in every visibility mode and with page groups off, diff with every -show and
// -sort, query with the documented examples and formats - and records what each process did.  It decides nothing.
package commands

import (
	"bufio"
	"bytes"
	"encoding/json"
	"fmt"
	"io"
	"math/rand"
	"os"
	"os/exec"
	"path/filepath"
	"regexp"
	"sort"
	"strconv"
	"strings"
	"sync"
	"time"

	"github.com/elliotchance/gedcom/v39"
)

type Case struct {
	Base   int      `json:"base"`
	Faults []string `json:"faults"`
}

type Run struct {
	Cmd    string `json:"cmd"`
	Exit   int    `json:"exit"`
	Panic  bool   `json:"panic"`
	Fatal  bool   `json:"fatal"`
	Hung   bool   `json:"hung"`
	ErrLen int    `json:"errlen"`
	OutLen int    `json:"outlen"`
	Msg    string `json:"msg"`
	Stack  string `json:"stack"` // the beginning of stderr when the process panicked
}

type Obs struct {
	Base      int      `json:"base"`
	Faults    []string `json:"faults"`
	Decodable bool     `json:"decodable"`
	Text      string   `json:"text"`
	Runs      []Run    `json:"runs"`
}

// FaultKinds must be the list of CommandsOps.tla (the trace specification checks it)
var FaultKinds = []string{"husb-missing", "wife-missing", "chil-missing", "husb-wrong-kind", "chil-wrong-kind", "wife-is-source", "husb-empty", "wife-empty",
	"chil-empty", "no-name", "name-without-surname", "name-empty", "own-parent", "own-spouse", "own-grandparent", "duplicate-individual",
	"duplicate-family", "individual-and-family-share-pointer", "family-without-members", "source-without-title", "famc-missing", "fams-missing",
	"date-garbage", "date-empty", "date-partial", "date-reversed-range", "date-far-future", "surname-digit", "surname-symbol", "surname-multibyte",
	"surname-only-punctuation", "only-faulty-people", "undated-people",
	"lower-case-tags", "person-named-like-place"}

type indi struct {
	ptr, given, sur  string
	noName, nameOnly bool
	emptyName        bool
	sex              string
	birth, death     string
	place            string
	fams, famc       []string
	extra            []string
}

type fam struct {
	ptr              string
	husb, wife       string
	chil             []string
	hasHusb, hasWife bool
	marr             string
}

// Materialise writes the base graph with the faults applied (in the fixed order of FaultKinds)
func Materialise(base int, faults []string) string {
	has := map[string]bool{}
	for _, f := range faults {
		has[f] = true
	}
	people := []*indi{
		{ptr: "I1", given: "John", sur: "Smith", sex: "M", birth: "3 Sep 1843", death: "1 Jan 1900", place: "London, England", fams: []string{"F1"}},
		{ptr: "I2", given: "Jane", sur: "Doe", sex: "F", birth: "Abt. 1845", death: "1910", place: "Paris", fams: []string{"F1"}},
		{ptr: "I3", given: "Bob", sur: "Smith", sex: "M", birth: "1870", death: "Bet. 1930 and 1940", place: "London, England", famc: []string{"F1"}, fams: []string{"F2"}},
		{ptr: "I4", given: "Mary Ann", sur: "O'Neil", sex: "F", birth: "1872", place: "New York, NY, USA", fams: []string{"F2"}},
		{ptr: "I5", given: "Zoë", sur: "Smith", sex: "F", birth: "12 Mar 1995", famc: []string{"F2"}},
	}
	fams := []*fam{
		{ptr: "F1", husb: "I1", wife: "I2", chil: []string{"I3"}, hasHusb: true, hasWife: true, marr: "1868"},
		{ptr: "F2", husb: "I3", wife: "I4", chil: []string{"I5"}, hasHusb: true, hasWife: true, marr: "1894"},
	}
	if base == 2 { // a single couple with two children and a second marriage of the wife
		people = people[:4]
		people[2].fams, people[3].fams, people[3].famc = nil, nil, []string{"F1"}
		fams = []*fam{{ptr: "F1", husb: "I1", wife: "I2", chil: []string{"I3", "I4"}, hasHusb: true, hasWife: true, marr: "1868"},
			{ptr: "F2", wife: "I2", hasWife: true}}
		people[1].fams = []string{"F1", "F2"}
	}
	if base == 3 { // a large file: the first base graph and 2600 more people
		for i := 6; i <= 2605; i++ {
			people = append(people, &indi{ptr: "I" + strconv.Itoa(i), given: "Given" + strconv.Itoa(i), sur: "Sur" + strconv.Itoa(i%97), sex: "M", birth: strconv.Itoa(1700 + i%200)})
		}
	}
	sourceTitle := "Parish register"
	for _, f := range FaultKinds {
		if !has[f] {
			continue
		}
		switch f {
		case "husb-missing":
			fams[0].husb = "I99"
		case "wife-missing":
			fams[len(fams)-1].wife, fams[len(fams)-1].hasWife = "I98", true
		case "chil-missing":
			fams[0].chil = append(fams[0].chil, "I97")
		case "husb-wrong-kind":
			fams[len(fams)-1].husb, fams[len(fams)-1].hasHusb = "F1", true
		case "chil-wrong-kind":
			fams[0].chil = append(fams[0].chil, "S1")
		case "wife-is-source":
			fams[0].wife = "S1"
		case "husb-empty":
			fams[0].husb = ""
		case "wife-empty":
			fams[0].wife = ""
		case "chil-empty":
			fams[len(fams)-1].chil = append(fams[len(fams)-1].chil, "")
		case "no-name":
			people[0].noName = true
		case "name-without-surname":
			people[1].nameOnly = true
		case "name-empty":
			people[2].emptyName = true
		case "own-parent":
			fams[0].chil = append(fams[0].chil, "I1")
			people[0].famc = append(people[0].famc, "F1")
		case "own-spouse":
			fams[len(fams)-1].husb, fams[len(fams)-1].wife, fams[len(fams)-1].hasHusb, fams[len(fams)-1].hasWife = "I2", "I2", true, true
		case "own-grandparent":
			fams[len(fams)-1].chil = append(fams[len(fams)-1].chil, "I1")
			people[0].famc = append(people[0].famc, fams[len(fams)-1].ptr)
		case "duplicate-individual":
			people = append(people, &indi{ptr: "I2", given: "Other", sur: "Person", sex: "M", birth: "1850"})
		case "duplicate-family":
			fams = append(fams, &fam{ptr: "F1", husb: "I3", hasHusb: true})
		case "individual-and-family-share-pointer":
			fams = append(fams, &fam{ptr: "I1", husb: "I2", hasHusb: true, chil: []string{"I1"}})
		case "family-without-members":
			fams = append(fams, &fam{ptr: "F7"})
		case "source-without-title":
			sourceTitle = ""
		case "famc-missing":
			people[2].famc = append(people[2].famc, "F98")
		case "fams-missing":
			people[0].fams = append(people[0].fams, "F99")
		case "date-garbage":
			people[0].birth, people[1].death = "sometime after the war", "???"
		case "date-empty":
			people[2].birth = " "
		case "date-partial":
			people[1].birth, people[2].death = "Sep", "31 Feb 1901"
		case "date-reversed-range":
			people[0].death, fams[0].marr = "Bet. 1950 and 1900", "From 1900 to 1850"
		case "date-far-future":
			people[3].birth, people[3].death = "1 Jan 9999", "0001"
		case "surname-digit":
			people[0].sur = "9lives"
		case "surname-symbol":
			people[1].sur = "'t Hooft"
		case "surname-multibyte":
			people[2].sur, people[3].sur = "Öztürk", "李"
		case "surname-only-punctuation":
			people[len(people)-1].sur = "?"
			people[0].given = "(?)"
		case "lower-case-tags":
			// tags that have a node type of their own, not written in upper case (the decoder takes any word as a tag)
			people[len(people)-1].extra = append(people[len(people)-1].extra, "1 birt", "2 date 1 Jan 1900", "2 plac Paris", "1 Name lower /Case/", "1 sex M", "1 deat", "2 Date 1950", "1 resi", "1 fams @F1@")
			people[0].extra = append(people[0].extra, "1 bapm", "2 DATE 4 Sep 1843", "1 buri", "1 even x", "1 Sour @S1@")
		case "person-named-like-place":
			// the page of a person and the page of a place want the same name
			people[len(people)-1].given, people[len(people)-1].sur = "London", "England"
			people[1].given, people[1].sur = "Paris", ""
		case "undated-people":
			// the people the cyclic faults are built around have no birth, baptism, death or burial at all
			people[0].birth, people[0].death, people[1].birth, people[1].death = "", "", "", ""
		case "only-faulty-people":
			// nobody with an ordinary surname is left: every index letter comes from a faulty record
			for _, p := range people {
				if p.sur == "Smith" || p.sur == "Doe" || p.sur == "O'Neil" || p.sur == "Person" {
					p.sur = "Étoile"
				}
			}
		}
	}
	var b strings.Builder
	b.WriteString("0 HEAD\n1 CHAR UTF-8\n")
	for _, p := range people {
		fmt.Fprintf(&b, "0 @%s@ INDI\n", p.ptr)
		switch {
		case p.noName:
		case p.emptyName:
			b.WriteString("1 NAME\n")
		case p.nameOnly:
			fmt.Fprintf(&b, "1 NAME %s\n", p.given)
		default:
			fmt.Fprintf(&b, "1 NAME %s /%s/\n", p.given, p.sur)
		}
		fmt.Fprintf(&b, "1 SEX %s\n", p.sex)
		if p.birth != "" {
			fmt.Fprintf(&b, "1 BIRT\n2 DATE %s\n", strings.TrimRight(p.birth, " "))
			if p.place != "" {
				fmt.Fprintf(&b, "2 PLAC %s\n", p.place)
			}
		}
		if p.death != "" {
			fmt.Fprintf(&b, "1 DEAT\n2 DATE %s\n", p.death)
		}
		if p.ptr == "I1" {
			b.WriteString("1 SOUR @S1@\n")
		}
		for _, f := range p.fams {
			fmt.Fprintf(&b, "1 FAMS @%s@\n", f)
		}
		for _, f := range p.famc {
			fmt.Fprintf(&b, "1 FAMC @%s@\n", f)
		}
		for _, l := range p.extra {
			b.WriteString(l + "\n")
		}
	}
	ref := func(tag, v string) {
		if v == "" {
			fmt.Fprintf(&b, "1 %s\n", tag)
		} else {
			fmt.Fprintf(&b, "1 %s @%s@\n", tag, v)
		}
	}
	for _, f := range fams {
		fmt.Fprintf(&b, "0 @%s@ FAM\n", f.ptr)
		if f.hasHusb {
			ref("HUSB", f.husb)
		}
		if f.hasWife {
			ref("WIFE", f.wife)
		}
		for _, c := range f.chil {
			ref("CHIL", c)
		}
		if f.marr != "" {
			fmt.Fprintf(&b, "1 MARR\n2 DATE %s\n", f.marr)
		}
	}
	b.WriteString("0 @S1@ SOUR\n")
	if sourceTitle != "" {
		fmt.Fprintf(&b, "1 TITL %s\n", sourceTitle)
	}
	b.WriteString("0 TRLR\n")
	return b.String()
}

var queries = []string{
	`.Individuals | .Name | .String`,
	`.Individuals | { name: .Name | .String, born: .Birth | .String, died: .Death | .String }`,
	`.Individuals | Only(.Age | .Years > 50) | .Name | .String`,
	`.Families | { husband: .Husband | .Individual | .Name | .String, wife: .Wife | .Individual | .Name | .String, n: .Children | Length }`,
	`.Individuals | .Spouses | .Name | .String`,
	`.Individuals | .Parents`,
	`.Individuals | .Families | .Children | .Individual`,
	`.Individuals | .AllEvents`,
	`.Individuals | .EstimatedBirthDate | .String`,
	`.Sources | .Title`,
	`.Places | .String`,
	`MergeDocumentsAndIndividuals(Document1, Document2) | .Individuals | Length`,
}

var formats = []string{"json", "pretty-json", "csv", "gedcom", "html"}

type command struct {
	name string
	args []string
}

func commandsFor(dir, file, baseFile string) []command {
	out := filepath.Join(dir, "out")
	cs := []command{{"warnings", []string{"warnings", file}}}
	pub := func(name string, extra ...string) {
		cs = append(cs, command{name, append([]string{"publish", "-gedcom", file, "-output-dir", out}, extra...)})
	}
	pub("publish-show", "-living", "show")
	pub("publish-hide", "-living", "hide")
	pub("publish-placeholder", "-living", "placeholder")
	pub("publish-show-jobs4", "-living", "show", "-jobs", "4")
	groups := []string{"no-individuals", "no-places", "no-families", "no-surnames", "no-sources", "no-statistics"}
	for k, g := range groups {
		pub("publish-"+g, "-living", []string{"show", "hide", "placeholder"}[k%3], "-"+g)
	}
	pub("publish-only-individuals", "-living", "hide", "-no-places", "-no-families", "-no-surnames", "-no-sources", "-no-statistics")
	for _, show := range []string{"all", "subset", "only-matches"} {
		for _, srt := range []string{"written-name", "highest-similarity"} {
			cs = append(cs, command{"diff-" + show + "-" + srt, []string{"diff", "-left-gedcom", file, "-right-gedcom", file, "-output", filepath.Join(out, "d.html"),
				"-show", show, "-sort", srt}})
		}
	}
	cs = append(cs, command{"diff-base-all-written-name", []string{"diff", "-left-gedcom", file, "-right-gedcom", baseFile, "-output", filepath.Join(out, "d.html")}})
	cs = append(cs, command{"diff-jobs4", []string{"diff", "-left-gedcom", baseFile, "-right-gedcom", file, "-output", filepath.Join(out, "d.html"), "-jobs", "4"}})
	for k, q := range queries {
		args := []string{"query", "-gedcom", file}
		if strings.Contains(q, "Document2") {
			args = append(args, "-gedcom", baseFile)
		}
		cs = append(cs, command{"query-" + strconv.Itoa(k+1), append(args, "-format", formats[k%len(formats)], q)})
	}
	return cs
}

var goFile = regexp.MustCompile(`(?m)^\s+/repo/([^\s:]+:\d+)`)

func execute(bin string, c command) Run {
	cmd := exec.Command(bin, c.args...)
	var so, se bytes.Buffer
	cmd.Stdout, cmd.Stderr = &so, &se
	r := Run{Cmd: c.name}
	if err := cmd.Start(); err != nil {
		r.Exit, r.Msg = -1, "cannot start: "+err.Error()
		return r
	}
	done := make(chan error, 1)
	go func() { done <- cmd.Wait() }()
	select {
	case err := <-done:
		if err != nil {
			r.Exit = 1
			if ee, ok := err.(*exec.ExitError); ok && ee.ExitCode() > 0 {
				r.Exit = ee.ExitCode()
			}
		}
	case <-time.After(60 * time.Second):
		cmd.Process.Kill()
		<-done
		r.Hung = true
	}
	stderr := se.String()
	r.ErrLen, r.OutLen = len(stderr), so.Len()
	for _, l := range strings.Split(stderr, "\n") {
		if strings.HasPrefix(l, "panic:") || strings.Contains(l, "[recovered]") {
			r.Panic = true
			r.Msg = l
			break
		}
		if strings.HasPrefix(l, "fatal error:") {
			r.Fatal = true
			r.Msg = l
			break
		}
	}
	if r.Panic || r.Fatal {
		r.Stack = stderr
		if len(r.Stack) > 1800 {
			r.Stack = r.Stack[:1800]
		}
		if m := goFile.FindStringSubmatch(stderr); m != nil {
			r.Msg += " at " + m[1]
		}
	} else if r.Hung {
		r.Msg = "no end within 60 s"
	} else if r.Exit != 0 {
		ls := strings.Split(strings.TrimSpace(stderr), "\n")
		r.Msg = ls[len(ls)-1]
		if len(r.Msg) > 120 {
			r.Msg = r.Msg[:120]
		}
	}
	return r
}

func observe(bin string, c Case, id int) Obs {
	sort.Strings(c.Faults)
	o := Obs{Base: c.Base, Faults: c.Faults, Runs: []Run{}}
	if o.Faults == nil {
		o.Faults = []string{}
	}
	text := Materialise(c.Base, c.Faults)
	o.Text = text
	// the quantifier is over files the decoder accepts
	func() {
		defer func() { recover() }()
		_, err := gedcom.NewDocumentFromString(text)
		o.Decodable = err == nil
	}()
	if !o.Decodable {
		return o
	}
	dir, err := os.MkdirTemp("", "vh-commands-")
	if err != nil {
		return o
	}
	defer os.RemoveAll(dir)
	os.Mkdir(filepath.Join(dir, "out"), 0755)
	file, baseFile := filepath.Join(dir, "f.ged"), filepath.Join(dir, "base.ged")
	os.WriteFile(file, []byte(text), 0644)
	os.WriteFile(baseFile, []byte(Materialise(c.Base, nil)), 0644)
	for _, cmd := range commandsFor(dir, file, baseFile) {
		if c.Base == 3 && cmd.name != "warnings" && cmd.name != "diff-all-written-name" && cmd.name != "diff-jobs4" && cmd.name != "query-1" {
			continue // the large file: the commands whose cost is not quadratic
		}
		o.Runs = append(o.Runs, execute(bin, cmd))
	}
	if c.Base == 3 {
		o.Text = "(the large file: base graph 1 and 2600 more individuals)"
	}
	return o
}

// RunAll reads cases and writes one observation per case
func RunAll(r io.Reader, w io.Writer) error {
	bin := os.Getenv("VH_GEDCOM_BIN")
	if bin == "" {
		return fmt.Errorf("VH_GEDCOM_BIN is not set")
	}
	sc := bufio.NewScanner(r)
	sc.Buffer(make([]byte, 1<<20), 1<<24)
	cases := []Case{}
	for sc.Scan() {
		if len(bytes.TrimSpace(sc.Bytes())) == 0 {
			continue
		}
		var c Case
		if err := json.Unmarshal(sc.Bytes(), &c); err != nil {
			return err
		}
		cases = append(cases, c)
	}
	out := make([]Obs, len(cases))
	var wg sync.WaitGroup
	sem := make(chan bool, 14)
	for i := range cases {
		wg.Add(1)
		sem <- true
		go func(i int) {
			defer wg.Done()
			out[i] = observe(bin, cases[i], i)
			<-sem
		}(i)
	}
	wg.Wait()
	bw := bufio.NewWriterSize(w, 1<<20)
	defer bw.Flush()
	enc := json.NewEncoder(bw)
	for i := range out {
		if err := enc.Encode(out[i]); err != nil {
			return err
		}
	}
	return nil
}

// Seeded writes n random fault sets of 3 to 8 faults (and the set of all faults)
func Seeded(w io.Writer, seed int64, n int) error {
	rng := rand.New(rand.NewSource(seed*104729 + 7))
	enc := json.NewEncoder(w)
	enc.Encode(Case{Base: 1, Faults: FaultKinds})
	enc.Encode(Case{Base: 2, Faults: FaultKinds})
	enc.Encode(Case{Base: 3, Faults: []string{}})
	enc.Encode(Case{Base: 3, Faults: []string{"no-name", "husb-missing", "date-garbage"}})
	for i := 0; i < n; i++ {
		k := 3 + rng.Intn(6)
		perm := rng.Perm(len(FaultKinds))
		fs := []string{}
		for _, p := range perm[:k] {
			fs = append(fs, FaultKinds[p])
		}
		enc.Encode(Case{Base: 1 + rng.Intn(2), Faults: fs})
	}
	return nil
}

func Main(args []string) error {
	seed, _ := strconv.ParseInt(os.Getenv("VERIF_SEED"), 10, 64)
	if len(args) == 0 {
		return fmt.Errorf("commands: missing subcommand")
	}
	switch args[0] {
	case "run":
		return RunAll(os.Stdin, os.Stdout)
	case "seeded":
		n := 100
		if len(args) > 1 {
			n, _ = strconv.Atoi(args[1])
		}
		return Seeded(os.Stdout, seed, n)
	case "render":
		var c Case
		if err := json.NewDecoder(os.Stdin).Decode(&c); err != nil {
			return err
		}
		fmt.Print(Materialise(c.Base, c.Faults))
		return nil
	}
	return fmt.Errorf("commands: unknown subcommand %q", args[0])
}
