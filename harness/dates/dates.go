// Package dates binds Dates.tla (C04) to the real DATE parser and printer.
//
//	vh dates replay      stdin: CASE records {text, exp, canon} of Dates.tla
//	vh dates record N    seeded sentences of the documented grammar + near misses
package dates

import (
	"bufio"
	"encoding/json"
	"fmt"
	"io"
	"math/rand"
	"os"
	"strconv"
	"strings"

	"github.com/elliotchance/gedcom/v39"
	"verif/harness/proj"
)

// DM is the abstract date [d, m, y, c] of Dates.tla.
type DM struct {
	D int    `json:"d"`
	M int    `json:"m"`
	Y int    `json:"y"`
	C string `json:"c"`
}

type Meaning struct {
	Valid bool `json:"valid"`
	S     DM   `json:"s"`
	E     DM   `json:"e"`
}

var cnames = map[gedcom.DateConstraint]string{
	gedcom.DateConstraintExact:  "Exact",
	gedcom.DateConstraintAbout:  "About",
	gedcom.DateConstraintBefore: "Before",
	gedcom.DateConstraintAfter:  "After",
}

func dm(d gedcom.Date) DM {
	c, ok := cnames[d.Constraint]
	if !ok {
		c = fmt.Sprintf("constraint-%d", int(d.Constraint))
	}
	return DM{D: d.Day, M: int(d.Month), Y: d.Year, C: c}
}

func meaningOf(dr gedcom.DateRange) Meaning {
	m := Meaning{Valid: dr.IsValid()}
	if m.Valid {
		m.S, m.E = dm(dr.StartDate()), dm(dr.EndDate())
	}
	return m
}

// Obs is everything the property talks about for one DATE value.
type Obs struct {
	Text   []int   `json:"text"`
	Parsed Meaning `json:"parsed"` // NewDateRangeWithString
	Node   Meaning `json:"node"`   // NewDateNode(text).DateRange()
	Str    []int   `json:"str"`    // DateRange.String()
	NStr   []int   `json:"nstr"`   // DateNode.String()
	Re     Meaning `json:"re"`     // parse of Str
	NRe    Meaning `json:"nre"`    // parse of NStr
	Panic  string  `json:"panic"`
}

func observe(text string) (o Obs) {
	o.Text = proj.B(text)
	o.Str, o.NStr = []int{}, []int{}
	defer func() {
		if r := recover(); r != nil {
			o.Panic = fmt.Sprint(r)
		}
	}()
	dr := gedcom.NewDateRangeWithString(text)
	o.Parsed = meaningOf(dr)
	node := gedcom.NewDateNode(text)
	o.Node = meaningOf(node.DateRange())
	if o.Parsed.Valid {
		str := dr.String()
		o.Str = proj.B(str)
		o.Re = meaningOf(gedcom.NewDateRangeWithString(str))
		nstr := node.String()
		o.NStr = proj.B(nstr)
		o.NRe = meaningOf(gedcom.NewDateRangeWithString(nstr))
	}
	return o
}

type dateCase struct {
	Text  []int   `json:"text"`
	Exp   Meaning `json:"exp"`
	Canon []int   `json:"canon"`
}

type mismatch struct {
	Why  string   `json:"why"`
	Text string   `json:"text"`
	Case dateCase `json:"case"`
	Obs  Obs      `json:"obs"`
}

func sameMeaning(a, b Meaning) bool {
	if a.Valid != b.Valid {
		return false
	}
	return !a.Valid || (a.S == b.S && a.E == b.E)
}

func judge(c dateCase, o Obs) string {
	switch {
	case o.Panic != "":
		return "panic: " + o.Panic
	case c.Exp.Valid && !o.Parsed.Valid:
		return "documented form reported invalid"
	case !c.Exp.Valid && o.Parsed.Valid:
		return "invalid form accepted"
	case !sameMeaning(c.Exp, o.Parsed):
		return "wrong " + diffField(c.Exp, o.Parsed)
	case !sameMeaning(o.Parsed, o.Node):
		return "DateNode.DateRange() differs from NewDateRangeWithString"
	}
	if c.Exp.Valid {
		switch {
		case proj.S(o.Str) != proj.S(c.Canon):
			return "DateRange.String() is not the canonical spelling"
		case proj.S(o.NStr) != proj.S(c.Canon):
			return "DateNode.String() is not the canonical spelling"
		case !sameMeaning(o.Re, c.Exp):
			return "printed form parses to different dates"
		case !sameMeaning(o.NRe, c.Exp):
			return "printed form (DateNode) parses to different dates"
		}
	}
	return ""
}

func diffField(a, b Meaning) string {
	for _, p := range []struct {
		n    string
		x, y DM
	}{{"start", a.S, b.S}, {"end", a.E, b.E}} {
		switch {
		case p.x.C != p.y.C:
			return p.n + " constraint"
		case p.x.D != p.y.D:
			return p.n + " day"
		case p.x.M != p.y.M:
			return p.n + " month"
		case p.x.Y != p.y.Y:
			return p.n + " year"
		}
	}
	return "?"
}

// Replay: direction A.
func Replay(r io.Reader, w io.Writer) error {
	sc := bufio.NewScanner(r)
	sc.Buffer(make([]byte, 1<<20), 1<<26)
	bw := bufio.NewWriter(w)
	defer bw.Flush()
	enc := json.NewEncoder(bw)
	n, bad := 0, 0
	for sc.Scan() {
		var c dateCase
		if err := json.Unmarshal(sc.Bytes(), &c); err != nil {
			return fmt.Errorf("bad case: %v", err)
		}
		n++
		text := proj.S(c.Text)
		o := observe(text)
		if why := judge(c, o); why != "" {
			bad++
			enc.Encode(mismatch{Why: why, Text: text, Case: c, Obs: o})
		}
	}
	enc.Encode(map[string]int{"summary": 1, "cases": n, "mismatches": bad})
	return sc.Err()
}

// ---------------------------------------------------------------- recording

var keywords = []string{"", "", "", "abt", "abt.", "about", "c.", "ca", "ca.", "cca", "cca.", "circa", "aft", "aft.", "after", "bef", "bef.", "before"}
var monthWords = []string{"jan", "january", "feb", "february", "mar", "march", "apr", "april", "may", "jun", "june", "jul", "july",
	"aug", "august", "sep", "september", "oct", "october", "nov", "november", "dec", "december"}
var betweens = []string{"between", "bet", "bet.", "from"}
var ands = []string{"and", "to", "-"}
var junk = []string{"foo", "sept", "janu", "mai", "x", "Sepember", "0ct"}

func randCase(rng *rand.Rand, s string) string {
	switch rng.Intn(4) {
	case 0:
		return s
	case 1:
		return strings.ToUpper(s)
	case 2:
		return strings.ToUpper(s[:1]) + s[1:]
	}
	b := []byte(s)
	for i := range b {
		if rng.Intn(2) == 0 {
			b[i] = strings.ToUpper(string(b[i]))[0]
		}
	}
	return string(b)
}

func genDate(rng *rand.Rand, near bool) []string {
	toks := []string{}
	if k := keywords[rng.Intn(len(keywords))]; k != "" {
		toks = append(toks, randCase(rng, k))
	}
	shape := rng.Intn(3) // 0 = D M Y, 1 = M Y, 2 = Y
	year := 1 + rng.Intn(9999)
	if rng.Intn(4) == 0 {
		year = []int{1, 4, 9, 10, 89, 100, 999, 1000, 1582, 1752, 1900, 2000, 2024, 9999}[rng.Intn(14)]
	}
	ys := strconv.Itoa(year)
	if len(ys) < 4 && rng.Intn(12) == 0 {
		ys = strings.Repeat("0", 4-len(ys)) + ys
	}
	mi := rng.Intn(len(monthWords))
	mon := randCase(rng, monthWords[mi])
	day := 1 + rng.Intn(31) // sometimes impossible for the month: that is a near miss the oracle knows
	if rng.Intn(3) > 0 {
		day = 1 + rng.Intn(28)
	}
	ds := strconv.Itoa(day)
	if day < 10 && rng.Intn(3) == 0 {
		ds = "0" + ds
	}
	if near {
		switch rng.Intn(7) {
		case 0:
			mon = junk[rng.Intn(len(junk))]
			if shape == 2 {
				shape = 1
			}
		case 1:
			ds, shape = "0", 0
		case 2:
			ds, shape = "32", 0
		case 3:
			ds, shape, mon = []string{"30", "31"}[rng.Intn(2)], 0, "feb"
		case 4:
			ds, shape, mon = "29", 0, "Feb"
			ys = []string{"1900", "2001", "1999", "2100", "1"}[rng.Intn(5)]
		case 5: // missing year
			if shape == 2 {
				shape = 1
			}
			ys = ""
		case 6: // trailing text
			ys = ys + " " + junk[rng.Intn(len(junk))]
		}
	}
	switch shape {
	case 0:
		toks = append(toks, ds, mon)
	case 1:
		toks = append(toks, mon)
	}
	if ys != "" {
		toks = append(toks, ys)
	}
	return toks
}

func join(rng *rand.Rand, toks []string, maxExtra int) string {
	var b strings.Builder
	if rng.Intn(10) == 0 {
		b.WriteString(strings.Repeat(" ", 1+rng.Intn(2)))
	}
	for i, t := range toks {
		if i > 0 {
			n := 1
			if rng.Intn(4) == 0 {
				n += rng.Intn(maxExtra + 1)
			}
			b.WriteString(strings.Repeat(" ", n))
		}
		b.WriteString(t)
	}
	if rng.Intn(10) == 0 {
		b.WriteString(" ")
	}
	return b.String()
}

// Record: direction B.
func Record(w io.Writer, seed int64, n int) error {
	rng := rand.New(rand.NewSource(seed))
	bw := bufio.NewWriterSize(w, 1<<20)
	defer bw.Flush()
	enc := json.NewEncoder(bw)
	for i := 0; i < n; i++ {
		near := rng.Intn(5) == 0
		var toks []string
		if rng.Intn(3) == 0 {
			toks = append(toks, randCase(rng, betweens[rng.Intn(len(betweens))]))
			toks = append(toks, genDate(rng, near && rng.Intn(2) == 0)...)
			toks = append(toks, randCase(rng, ands[rng.Intn(len(ands))]))
			toks = append(toks, genDate(rng, near)...)
		} else {
			toks = genDate(rng, near)
		}
		enc.Encode(observe(join(rng, toks, 6)))
	}
	return nil
}

func Main(args []string) error {
	seed, _ := strconv.ParseInt(os.Getenv("VERIF_SEED"), 10, 64)
	if len(args) == 0 {
		return fmt.Errorf("dates: missing subcommand")
	}
	switch args[0] {
	case "replay":
		return Replay(os.Stdin, os.Stdout)
	case "record":
		n := 1000
		if len(args) > 1 {
			n, _ = strconv.Atoi(args[1])
		}
		return Record(os.Stdout, seed, n)
	}
	return fmt.Errorf("dates: unknown subcommand %q", args[0])
}
