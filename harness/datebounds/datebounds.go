// Package datebounds binds DateBounds.tla (C05) to Date.Time(), Date.Years(),
// IsBefore/IsAfter and DateRange.Duration().
//
//	vh datebounds replay     stdin: one CASE per month {y, m, dim, first, diy, doy1}
//	vh datebounds record N   seeded observations for DateBoundsTrace.tla
//
// Every expected number is derived from the month record by linear arithmetic
// only (first + d - 1); the calendar itself lives in lib/Calendar.tla.
package datebounds

import (
	"bufio"
	"encoding/json"
	"fmt"
	"io"
	"math"
	"math/rand"
	"os"
	"strconv"
	"time"

	"github.com/elliotchance/gedcom/v39"
)

type monthCase struct {
	Y     int `json:"y"`
	M     int `json:"m"`
	Dim   int `json:"dim"`
	First int `json:"first"`
	Diy   int `json:"diy"`
	Doy1  int `json:"doy1"`
}

var epoch = time.Date(1, 1, 1, 0, 0, 0, 0, time.UTC).Unix()

const nsLast = int64(86400)*1e9 - 1

// instant projects a time.Time onto (day number since 1 Jan 0001, ns of day).
func instant(t time.Time) (int, int64) {
	t = t.UTC()
	secs := t.Unix() - epoch
	day := secs / 86400
	rem := secs % 86400
	if rem < 0 {
		rem += 86400
		day--
	}
	return int(day), rem*1e9 + int64(t.Nanosecond())
}

type bad struct {
	Y, M, D int
	What    string
	Exp     string
	Obs     string
}

var monthNames = []string{"", "Jan", "Feb", "Mar", "Apr", "May", "Jun", "Jul", "Aug", "Sep", "Oct", "Nov", "Dec"}

func checkBounds(out *[]bad, y, m, d int, what string, start, end time.Time, expStartDay, expEndDay int) {
	sd, sn := instant(start)
	ed, en := instant(end)
	if sd != expStartDay || sn != 0 {
		*out = append(*out, bad{y, m, d, what + " start bound", fmt.Sprintf("day %d 00:00:00", expStartDay), fmt.Sprintf("day %d +%dns (%s)", sd, sn, start.Format(time.RFC3339Nano))})
	}
	if ed != expEndDay || en != nsLast {
		*out = append(*out, bad{y, m, d, what + " end bound", fmt.Sprintf("day %d 23:59:59.999999999", expEndDay), fmt.Sprintf("day %d +%dns (%s)", ed, en, end.Format(time.RFC3339Nano))})
	}
	if end.Before(start) {
		*out = append(*out, bad{y, m, d, what + " start <= end", "start <= end", "end before start"})
	}
}

func near(a, b float64) bool { return math.Abs(a-b) <= 1e-9 }

func checkMonth(c monthCase) []bad {
	var out []bad
	y, m := c.Y, c.M
	den := float64(c.Diy + 1)
	prevYears := math.Inf(-1)
	var prevDate gedcom.Date
	for d := 1; d <= c.Dim; d++ {
		var s, e gedcom.Date
		if (c.First+d)%5 == 0 { // through the parser
			dr := gedcom.NewDateRangeWithString(fmt.Sprintf("%d %s %d", d, monthNames[m], y))
			s, e = dr.StartDate(), dr.EndDate()
			if !dr.IsValid() {
				out = append(out, bad{y, m, d, "valid date reported invalid", "valid", "invalid"})
				continue
			}
			dur := dr.Duration().Duration
			if dur != 24*time.Hour-time.Nanosecond {
				out = append(out, bad{y, m, d, "day period length", "24h-1ns", dur.String()})
			}
		} else {
			s = gedcom.Date{Day: d, Month: time.Month(m), Year: y}
			e = gedcom.Date{Day: d, Month: time.Month(m), Year: y, IsEndOfRange: true}
		}
		checkBounds(&out, y, m, d, "day", s.Time(), e.Time(), c.First+d-1, c.First+d-1)
		ys := s.Years()
		exp := float64(y) + float64(c.Doy1+d-1)/den
		if !near(ys, exp) {
			out = append(out, bad{y, m, d, "Years of a day", fmt.Sprint(exp), fmt.Sprint(ys)})
		}
		if e.Years() != ys {
			out = append(out, bad{y, m, d, "Years of both range ends of a day", fmt.Sprint(ys), fmt.Sprint(e.Years())})
		}
		if d > 1 {
			if !(prevYears < ys) {
				out = append(out, bad{y, m, d, "Years strictly increasing day to day", fmt.Sprintf("> %v", prevYears), fmt.Sprint(ys)})
			}
			if !prevDate.IsBefore(s) || s.IsBefore(prevDate) || !s.IsAfter(prevDate) || prevDate.IsAfter(s) {
				out = append(out, bad{y, m, d, "IsBefore/IsAfter on consecutive days", "calendar order", "disagrees"})
			}
		}
		prevYears, prevDate = ys, s
	}
	// last day of this month against the first day of the next
	ny, nm := y, m+1
	if nm == 13 {
		ny, nm = y+1, 1
	}
	if ny <= 9999 {
		next := gedcom.Date{Day: 1, Month: time.Month(nm), Year: ny}
		if !(prevYears < next.Years()) || !prevDate.IsBefore(next) || !next.IsAfter(prevDate) || next.IsBefore(prevDate) {
			out = append(out, bad{y, m, c.Dim, "order across the month boundary", "last day < first day of next month", fmt.Sprintf("%v vs %v", prevYears, next.Years())})
		}
		_, _ = instant(next.Time())
		if nd, _ := instant(next.Time()); nd != c.First+c.Dim {
			out = append(out, bad{y, m, c.Dim, "true month length", fmt.Sprint(c.First + c.Dim), fmt.Sprint(nd)})
		}
	}
	// the month-year date
	var ms, me gedcom.Date
	if c.First%2 == 0 {
		dr := gedcom.NewDateRangeWithString(fmt.Sprintf("%s %d", monthNames[m], y))
		ms, me = dr.StartDate(), dr.EndDate()
		dur := dr.Duration().Duration
		if dur != time.Duration(c.Dim)*24*time.Hour-time.Nanosecond {
			out = append(out, bad{y, m, 0, "month period length", fmt.Sprintf("%d days - 1ns", c.Dim), dur.String()})
		}
	} else {
		ms = gedcom.Date{Month: time.Month(m), Year: y}
		me = gedcom.Date{Month: time.Month(m), Year: y, IsEndOfRange: true}
	}
	checkBounds(&out, y, m, 0, "month", ms.Time(), me.Time(), c.First, c.First+c.Dim-1)
	firstYears := float64(y) + float64(c.Doy1)/den
	lastYears := float64(y) + float64(c.Doy1+c.Dim-1)/den
	my := ms.Years()
	if !near(my, (firstYears+lastYears)/2) {
		out = append(out, bad{y, m, 0, "Years of a month-year date", fmt.Sprint((firstYears + lastYears) / 2), fmt.Sprint(my)})
	}
	fd := gedcom.Date{Day: 1, Month: time.Month(m), Year: y}.Years()
	ld := gedcom.Date{Day: c.Dim, Month: time.Month(m), Year: y}.Years()
	if !(fd <= my && my <= ld) {
		out = append(out, bad{y, m, 0, "Years of a month lies inside the month", fmt.Sprintf("[%v, %v]", fd, ld), fmt.Sprint(my)})
	}
	if me.Years() != my {
		out = append(out, bad{y, m, 0, "Years of both range ends of a month", fmt.Sprint(my), fmt.Sprint(me.Years())})
	}
	if m == 1 { // the year-only date
		var ysd, yed gedcom.Date
		if y%2 == 0 {
			dr := gedcom.NewDateRangeWithString(strconv.Itoa(y))
			ysd, yed = dr.StartDate(), dr.EndDate()
			dur := dr.Duration().Duration
			if dur != time.Duration(c.Diy)*24*time.Hour-time.Nanosecond {
				out = append(out, bad{y, 0, 0, "year period length", fmt.Sprintf("%d days - 1ns", c.Diy), dur.String()})
			}
		} else {
			ysd = gedcom.Date{Year: y}
			yed = gedcom.Date{Year: y, IsEndOfRange: true}
		}
		checkBounds(&out, y, 0, 0, "year", ysd.Time(), yed.Time(), c.First, c.First+c.Diy-1)
		yy := ysd.Years()
		if !near(yy, float64(y)+0.5) {
			out = append(out, bad{y, 0, 0, "Years of a year-only date", fmt.Sprint(float64(y) + 0.5), fmt.Sprint(yy)})
		}
		f1 := gedcom.Date{Day: 1, Month: 1, Year: y}.Years()
		l1 := gedcom.Date{Day: 31, Month: 12, Year: y}.Years()
		if !(f1 <= yy && yy <= l1) {
			out = append(out, bad{y, 0, 0, "Years of a year lies inside the year", fmt.Sprintf("[%v, %v]", f1, l1), fmt.Sprint(yy)})
		}
	}
	return out
}

// Replay: direction A.  All days of all months TLC stepped through.
func Replay(r io.Reader, w io.Writer) error {
	sc := bufio.NewScanner(r)
	bw := bufio.NewWriter(w)
	defer bw.Flush()
	enc := json.NewEncoder(bw)
	n, days, nbad := 0, 0, 0
	for sc.Scan() {
		var c monthCase
		if err := json.Unmarshal(sc.Bytes(), &c); err != nil {
			return fmt.Errorf("bad case: %v", err)
		}
		n++
		days += c.Dim
		for _, b := range checkMonth(c) {
			nbad++
			if nbad <= 2000 {
				enc.Encode(map[string]interface{}{"y": b.Y, "m": b.M, "d": b.D, "what": b.What, "exp": b.Exp, "obs": b.Obs})
			}
		}
	}
	enc.Encode(map[string]int{"summary": 1, "cases": n, "days": days, "mismatches": nbad})
	return sc.Err()
}

// Obs is one recorded observation for DateBoundsTrace.tla: integers only.
// Years is recorded as year + frac6/10^6.
type Obs struct {
	Y     int   `json:"y"`
	M     int   `json:"m"` // 0 = not given
	D     int   `json:"d"` // 0 = not given
	SDay  int   `json:"sday"`
	SNs   int   `json:"sns"` // 0 = 00:00:00.0, 1 = last ns of the day, 2 = anything else
	EDay  int   `json:"eday"`
	ENs   int   `json:"ens"`
	YInt  int   `json:"yint"`
	Frac6 int   `json:"frac6"`
	Prev  []int `json:"prev"` // order against the previous observation: [y, m, d, before, after]
}

func nsClass(ns int64) int {
	switch ns {
	case 0:
		return 0
	case nsLast:
		return 1
	}
	return 2
}

// Record: direction B - random full / month-year / year-only dates through the parser.
func Record(w io.Writer, seed int64, n int) error {
	rng := rand.New(rand.NewSource(seed))
	bw := bufio.NewWriterSize(w, 1<<20)
	defer bw.Flush()
	enc := json.NewEncoder(bw)
	var prev gedcom.Date
	prevSet := false
	py, pm, pd := 0, 0, 0
	for i := 0; i < n; i++ {
		y := 1 + rng.Intn(9999)
		if rng.Intn(5) == 0 {
			y = []int{1, 4, 100, 400, 1582, 1600, 1677, 1678, 1700, 1900, 1970, 2000, 2038, 2100, 2262, 2263, 2400, 9999}[rng.Intn(18)]
		}
		m, d := 0, 0
		text := strconv.Itoa(y)
		switch rng.Intn(3) {
		case 0:
			m = 1 + rng.Intn(12)
			d = 1 + rng.Intn(28)
			if rng.Intn(4) == 0 {
				d = time.Date(y, time.Month(m)+1, 0, 0, 0, 0, 0, time.UTC).Day() // last day, from Go's calendar: only an input
			}
			text = fmt.Sprintf("%d %s %d", d, monthNames[m], y)
		case 1:
			m = 1 + rng.Intn(12)
			text = fmt.Sprintf("%s %d", monthNames[m], y)
		}
		dr := gedcom.NewDateRangeWithString(text)
		s, e := dr.StartDate(), dr.EndDate()
		sd, sn := instant(s.Time())
		ed, en := instant(e.Time())
		ys := s.Years()
		o := Obs{Y: y, M: m, D: d, SDay: sd, SNs: nsClass(sn), EDay: ed, ENs: nsClass(en),
			YInt: int(math.Floor(ys)), Frac6: int(math.Round((ys - math.Floor(ys)) * 1e6)), Prev: []int{}}
		if prevSet && d != 0 && pd != 0 {
			b, a := 0, 0
			if prev.IsBefore(s) {
				b = 1
			}
			if prev.IsAfter(s) {
				a = 1
			}
			o.Prev = []int{py, pm, pd, b, a}
		}
		enc.Encode(o)
		prev, prevSet, py, pm, pd = s, true, y, m, d
	}
	return nil
}

func Main(args []string) error {
	seed, _ := strconv.ParseInt(os.Getenv("VERIF_SEED"), 10, 64)
	if len(args) == 0 {
		return fmt.Errorf("datebounds: missing subcommand")
	}
	switch args[0] {
	case "replay":
		return Replay(os.Stdin, os.Stdout)
	case "record":
		n := 1000
		if len(args) > 1 {
			n, _ = strconv.Atoi(args[1])
		}
		return Record(os.Stdout, seed, n)
	}
	return fmt.Errorf("datebounds: unknown subcommand %q", args[0])
}
