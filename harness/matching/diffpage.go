package matching

// Binding of DiffPage.tla / DiffPageOps.tla (the pipeline behind `gedcom diff`) to html.DiffPage.WriteHTMLTo.
//
//	vh matching diffpage K   stdin: the same abstract configurations as `run`; stdout: one observation per
//	                         (configuration, show, sort, Jobs): the comparisons in the order Compare returned them
//	                         with what shouldSkip and the sort look at (computed here through the public API), and the
//	                         rows of the index table of the page that the real pipeline wrote, as indices into them.
//
// The harness executes and projects; DiffPageTrace.tla judges.

import (
	"bufio"
	"bytes"
	"encoding/json"
	"fmt"
	"io"
	"math/rand"
	"regexp"
	"runtime"
	"sort"
	"time"

	"github.com/elliotchance/gedcom/v39"
	ghtml "github.com/elliotchance/gedcom/v39/html"
)

type DPItem struct {
	L    string `json:"l"`    // pointer of the left individual, "" when absent
	R    string `json:"r"`    // pointer of the right individual
	Key  int    `json:"key"`  // dense rank of the sort key among the items (equal keys, equal ranks)
	Skip bool   `json:"skip"` // dropped by shouldSkip under this -show option
}

type DPObs struct {
	Kind    string   `json:"kind"`
	Show    string   `json:"show"`
	Sort    string   `json:"sort"`
	Jobs    int      `json:"jobs"`
	GoMax   int      `json:"gomax"`
	Items   []DPItem `json:"items"`
	Rows    []int    `json:"rows"`     // index table, top to bottom: 1-based index into items, 0 = a row that is no item
	Details []int    `json:"details"`  // the detail cards further down, same encoding
	Timeout bool     `json:"timeout"`
	Panic   string   `json:"panic"`
	Err     string   `json:"err"`
	Cfg     Config   `json:"cfg"`
}

var (
	dpRowRe    = regexp.MustCompile(`(?s)<tr>(.*?)</tr>`)
	dpCellRe   = regexp.MustCompile(`(?s)<td[^>]*>(.*?)</td>`)
	dpHrefRe   = regexp.MustCompile(`href="#([^"]*)"`)
	dpAnchorRe = regexp.MustCompile(`<a name="([^"]*)"/>\s*<a name="([^"]*)"/>`)
)

type dpKey struct {
	sim  float64
	name string
}

func dpName(c *gedcom.IndividualComparison) string {
	n := c.Left
	if n == nil {
		n = c.Right
	}
	return n.Name().String()
}

func dpWeighted(c *gedcom.IndividualComparison) float64 {
	if c.Similarity != nil {
		return c.Similarity.WeightedSimilarity()
	}
	return 0
}

func ptrOf(n *gedcom.IndividualNode) string {
	if n == nil {
		return ""
	}
	return n.Pointer()
}

// DiffPage runs the report pipeline on every configuration.
func DiffPage(r io.Reader, w io.Writer, seed int64, per int) error {
	sc := bufio.NewScanner(r)
	sc.Buffer(make([]byte, 1<<20), 1<<24)
	bw := bufio.NewWriterSize(w, 1<<20)
	defer bw.Flush()
	enc := json.NewEncoder(bw)
	rng := rand.New(rand.NewSource(seed))
	defer runtime.GOMAXPROCS(runtime.GOMAXPROCS(0))
	shows := []string{ghtml.DiffPageShowAll, ghtml.DiffPageShowSubset, ghtml.DiffPageShowOnlyMatches}
	sorts := []string{ghtml.DiffPageSortWrittenName, ghtml.DiffPageSortHighestSimilarity}
	n := 0
	for sc.Scan() {
		var c Config
		if err := json.Unmarshal(sc.Bytes(), &c); err != nil {
			return fmt.Errorf("bad configuration: %v", err)
		}
		n++
		c = applyNear(c)
		left, err := gedcom.NewDocumentFromString(docText(c.PtrL, c.UidL, c.WhoL, "L", c.Married, c.Fillers))
		if err != nil {
			return err
		}
		right, err := gedcom.NewDocumentFromString(docText(c.PtrR, c.UidR, c.WhoR, "R", c.Married, c.Fillers))
		if err != nil {
			return err
		}
		runtime.GOMAXPROCS(16)
		cs := left.Individuals().Compare(right.Individuals(), options(c, 1))
		for k := 0; k < per; k++ {
			show := shows[(n+k)%len(shows)]
			srt := sorts[(n/3+k)%len(sorts)]
			jobs := jobsSet[rng.Intn(len(jobsSet))]
			if k == 0 {
				jobs = 1
			}
			gm := gomaxSet[rng.Intn(len(gomaxSet))]
			o := DPObs{Kind: "diffpage", Show: show, Sort: srt, Jobs: jobs, GoMax: gm, Cfg: c, Items: []DPItem{}, Rows: []int{}, Details: []int{}}
			// what the pipeline looks at, through the public API
			keys := make([]dpKey, len(cs))
			for i, cmp := range cs {
				keys[i].name = dpName(cmp)
				if srt == ghtml.DiffPageSortHighestSimilarity {
					keys[i].sim = -dpWeighted(cmp)
				}
			}
			less := func(a, b dpKey) bool {
				if a.sim != b.sim {
					return a.sim < b.sim
				}
				return a.name < b.name
			}
			sorted := append([]dpKey{}, keys...)
			sort.Slice(sorted, func(i, j int) bool { return less(sorted[i], sorted[j]) })
			rank := func(x dpKey) int {
				r := 0
				for i, y := range sorted {
					if i == 0 || less(sorted[i-1], y) {
						r++
					}
					if !less(y, x) && !less(x, y) {
						return r
					}
				}
				return r
			}
			for i, cmp := range cs {
				it := DPItem{L: ptrOf(cmp.Left), R: ptrOf(cmp.Right), Key: rank(keys[i])}
				switch show {
				case ghtml.DiffPageShowSubset:
					it.Skip = cmp.Right == nil
				case ghtml.DiffPageShowOnlyMatches:
					it.Skip = cmp.Left == nil || cmp.Right == nil
				}
				o.Items = append(o.Items, it)
			}
			find := func(l, r string) int {
				for i, it := range o.Items {
					if it.L == l && it.R == r {
						return i + 1
					}
				}
				return 0
			}
			// the real pipeline
			runtime.GOMAXPROCS(gm)
			co := options(c, jobs)
			progress := make(chan gedcom.Progress)
			go func() {
				for range progress {
				}
			}()
			page := ghtml.NewDiffPage(cs, &gedcom.FilterFlags{}, "", show, srt, progress, co, ghtml.LivingVisibilityShow)
			type res struct {
				html []byte
				err  error
				msg  string
			}
			ch := make(chan res, 1)
			go func() {
				defer func() {
					if r := recover(); r != nil {
						ch <- res{msg: fmt.Sprint(r)}
					}
				}()
				var buf bytes.Buffer
				_, err := page.WriteHTMLTo(&buf)
				ch <- res{html: buf.Bytes(), err: err}
			}()
			select {
			case rr := <-ch:
				close(progress)
				o.Panic = rr.msg
				if rr.err != nil {
					o.Err = rr.err.Error()
				}
				h := string(rr.html)
				end := len(h)
				if m := dpAnchorRe.FindStringIndex(h); m != nil {
					end = m[0] // the index table comes before the first detail card
				}
				for _, row := range dpRowRe.FindAllStringSubmatch(h[:end], -1) {
					cells := dpCellRe.FindAllStringSubmatch(row[1], -1)
					if len(cells) != 3 {
						continue
					}
					l, r := "", ""
					if m := dpHrefRe.FindStringSubmatch(cells[0][1]); m != nil {
						l = m[1]
					}
					if m := dpHrefRe.FindStringSubmatch(cells[2][1]); m != nil {
						r = m[1]
					}
					o.Rows = append(o.Rows, find(l, r))
				}
				for _, m := range dpAnchorRe.FindAllStringSubmatch(h, -1) {
					o.Details = append(o.Details, find(m[1], m[2]))
				}
			case <-time.After(20 * time.Second):
				o.Timeout = true
			}
			enc.Encode(o)
			if o.Timeout {
				return nil // the goroutines of a hung pipeline cannot be stopped
			}
		}
	}
	return sc.Err()
}
