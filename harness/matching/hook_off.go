//go:build !verif

package matching

// without the verif tag the library has no hook points: runs are still executed, nothing is logged
func setHook(f func(role string, worker int, point string, args ...string)) {}
