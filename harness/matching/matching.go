// Package matching binds Matching.tla / MatchingOps.tla (C11) to IndividualNodes.Compare.
//
//	vh matching run      stdin: abstract input configurations (from TLC or `gen`);
//	                     stdout: one observation per (configuration, Jobs, GOMAXPROCS, schedule seed)
//	vh matching gen N    seeded larger configurations
//	vh matching race N   (binary built with -race) free-running Compare calls on cold documents;
//	                     the race detector's reports on stderr are the observation
//
// With the build tag verif the library calls gedcom.VerifHook at every channel
// operation / shared-map access of the pipeline: the harness records one log
// per goroutine (no cross-goroutine order is assumed) and perturbs the schedule.
package matching

import (
	"bufio"
	"encoding/json"
	"fmt"
	"io"
	"math"
	"math/rand"
	"os"
	"runtime"
	"sort"
	"strconv"
	"strings"
	"sync"
	"time"

	"github.com/elliotchance/gedcom/v39"
)

// Config is the abstract input: per individual a pointer id, a unique id (0 = none) and
// "who" it is (same who = same name and birth date, so a clear-cut similarity).
type Config struct {
	PtrL      []int   `json:"ptrl"`
	PtrR      []int   `json:"ptrr"`
	UidL      []int   `json:"uidl"`
	UidR      []int   `json:"uidr"`
	WhoL      []int   `json:"whol"`
	WhoR      []int   `json:"whor"`
	Threshold float64 `json:"threshold"` // MinimumWeightedSimilarity
	Prefer    float64 `json:"prefer"`    // PreferPointerAbove
	// Near, when given, is [i, j, k, which]: before the runs the threshold (which = 0) or the trusted-pointer level
	// (which = 1) is moved onto the measured similarity of left i / right j, adjusted by the k-th of
	// {exactly, one ulp above, one ulp below, 3e-7 above, 3e-7 below, 4e-5 above, 4e-5 below}: boundary inputs
	Near []int `json:"near"`
	// Married: consecutive individuals (1st and 2nd, 3rd and 4th, ...) of each side are husband and wife, so that the
	// similarity of a pair depends on the lazily collected spouses; Fillers: that many further (empty) family records
	Married bool `json:"married"`
	Fillers int  `json:"fillers"`
}

var nudges = []func(float64) float64{
	func(v float64) float64 { return v },
	func(v float64) float64 { return math.Nextafter(v, 2) },
	func(v float64) float64 { return math.Nextafter(v, -1) },
	func(v float64) float64 { return v + 3e-7 },
	func(v float64) float64 { return v - 3e-7 },
	func(v float64) float64 { return v + 4e-5 },
	func(v float64) float64 { return v - 4e-5 },
}

// applyNear resolves Near into concrete thresholds (input preparation; similarities are measured again afterwards).
func applyNear(c Config) Config {
	if len(c.Near) != 4 || c.Near[0] >= len(c.PtrL) || c.Near[1] >= len(c.PtrR) {
		c.Near = []int{}
		return c
	}
	left, _ := gedcom.NewDocumentFromString(docText(c.PtrL, c.UidL, c.WhoL, "L", c.Married, c.Fillers))
	right, _ := gedcom.NewDocumentFromString(docText(c.PtrR, c.UidR, c.WhoR, "R", c.Married, c.Fillers))
	a, b := left.Individuals()[c.Near[0]], right.Individuals()[c.Near[1]]
	o := options(c, 1)
	v := a.SurroundingSimilarity(b, o.SimilarityOptions, true).WeightedSimilarity()
	v = nudges[c.Near[2]%len(nudges)](v)
	if v < 0 {
		v = 0
	}
	if c.Near[3] == 0 {
		c.Threshold = v
	} else {
		c.Prefer = v
	}
	return c
}

var givenNames = []string{"Zed", "Adam", "Bertha", "Conrad", "Dorothea", "Edmund", "Frederica", "Gustav", "Henrietta", "Ignatius", "Josephine", "Konrad", "Leopoldine", "Maximilian"}
var surnames = []string{"Zz", "Alderman", "Brightwater", "Cunningham", "Drummond", "Eversleigh", "Fotheringay", "Greenhalgh", "Hollingsworth", "Islington", "Jaggard", "Kettlewell", "Lumbsden", "Mountjoy"}

func uidText(u int) string { return fmt.Sprintf("%032X", 0xABCDEF00+u) }

func docText(ptrs, uids, whos []int, side string, married bool, fillers int) string {
	var b strings.Builder
	b.WriteString("0 HEAD\n")
	for i := range ptrs {
		w := whos[i]
		fmt.Fprintf(&b, "0 @P%d@ INDI\n1 NAME %s /%s/\n1 BIRT\n2 DATE %d %s %d\n", ptrs[i], givenNames[w%len(givenNames)], surnames[w%len(surnames)],
			1+w%27, []string{"Jan", "Mar", "May", "Jul", "Sep", "Nov"}[w%6], 1700+17*w)
		if w%3 == 0 {
			fmt.Fprintf(&b, "1 DEAT\n2 DATE %d\n", 1760+17*w)
		}
		if uids[i] != 0 {
			fmt.Fprintf(&b, "1 _UID %s\n", uidText(uids[i]))
		}
		if married && (i^1) < len(ptrs) {
			fmt.Fprintf(&b, "1 FAMS @F%d@\n", i/2+1)
		}
	}
	if married {
		for k := 0; k < fillers/2; k++ {
			fmt.Fprintf(&b, "0 @X%d@ FAM\n", k)
		}
		for i := 0; i+1 < len(ptrs); i += 2 {
			fmt.Fprintf(&b, "0 @F%d@ FAM\n1 HUSB @P%d@\n1 WIFE @P%d@\n", i/2+1, ptrs[i], ptrs[i+1])
		}
		for k := fillers / 2; k < fillers; k++ {
			fmt.Fprintf(&b, "0 @X%d@ FAM\n", k)
		}
	}
	b.WriteString("0 TRLR\n")
	return b.String()
}

func options(c Config, jobs int) *gedcom.IndividualNodesCompareOptions {
	o := gedcom.NewIndividualNodesCompareOptions()
	o.SimilarityOptions.MinimumWeightedSimilarity = c.Threshold
	o.SimilarityOptions.PreferPointerAbove = c.Prefer
	o.Jobs = jobs
	return o
}

// Input is the record I of MatchingOps.tla; similarities travel as dense ranks of the float values
// (the specification only compares them), thresholds ranked among them.
type Input struct {
	NL          int     `json:"NL"`
	NR          int     `json:"NR"`
	PtrL        []int   `json:"PtrL"`
	PtrR        []int   `json:"PtrR"`
	UidL        []int   `json:"UidL"`
	UidR        []int   `json:"UidR"`
	Full        [][]int `json:"Full"`
	Pool        [][]int `json:"Pool"`
	Threshold   int     `json:"Threshold"`
	PreferAbove int     `json:"PreferAbove"`
	FixUniq     bool    `json:"FixUniq"`
}

func measure(c Config) (Input, error) {
	left, err := gedcom.NewDocumentFromString(docText(c.PtrL, c.UidL, c.WhoL, "L", c.Married, c.Fillers))
	if err != nil {
		return Input{}, err
	}
	right, err := gedcom.NewDocumentFromString(docText(c.PtrR, c.UidR, c.WhoR, "R", c.Married, c.Fillers))
	if err != nil {
		return Input{}, err
	}
	ls, rs := left.Individuals(), right.Individuals()
	opts := options(c, 1)
	full := make([][]float64, len(ls))
	pool := make([][]float64, len(ls))
	vals := []float64{c.Threshold, c.Prefer}
	for i, a := range ls {
		full[i], pool[i] = make([]float64, len(rs)), make([]float64, len(rs))
		for j, b := range rs {
			full[i][j] = a.SurroundingSimilarity(b, opts.SimilarityOptions, true).WeightedSimilarity()
			pool[i][j] = a.SurroundingSimilarity(b, opts.SimilarityOptions, false).WeightedSimilarity()
			vals = append(vals, full[i][j], pool[i][j])
		}
	}
	sort.Float64s(vals)
	rank := func(v float64) int { // dense rank, 1-based: equal floats get equal ranks
		r, prev := 0, 0.0
		for k, x := range vals {
			if k == 0 || x != prev {
				r++
			}
			prev = x
			if x == v {
				return r
			}
		}
		return r
	}
	in := Input{NL: len(ls), NR: len(rs), PtrL: c.PtrL, PtrR: c.PtrR, UidL: c.UidL, UidR: c.UidR,
		Threshold: rank(c.Threshold), PreferAbove: rank(c.Prefer), FixUniq: true, Full: [][]int{}, Pool: [][]int{}}
	for i := range ls {
		fr, pr := []int{}, []int{}
		for j := range rs {
			fr = append(fr, rank(full[i][j]))
			pr = append(pr, rank(pool[i][j]))
		}
		in.Full = append(in.Full, fr)
		in.Pool = append(in.Pool, pr)
	}
	return in, nil
}

type Pair struct {
	L int `json:"l"`
	R int `json:"r"`
}

type Event []string

type Obs struct {
	I       Input              `json:"I"`
	Jobs    int                `json:"jobs"`
	GoMax   int                `json:"gomax"`
	Seed    int64              `json:"seed"`
	Final   []Pair             `json:"final"`
	Seq     []Pair             `json:"seq"` // the Jobs = 1 result on the same input (warm-up run)
	Logs    map[string][]Event `json:"logs"`
	HasLogs bool               `json:"haslogs"`
	Timeout bool               `json:"timeout"` // Compare did not return
	Panic   string             `json:"panic"`
	Cfg     Config             `json:"cfg"`
}

func indexOf(ptrs []int, p string) int {
	for i, x := range ptrs {
		if fmt.Sprintf("P%d", x) == p {
			return i + 1
		}
	}
	return -1
}

func project(c Config, cs gedcom.IndividualComparisons) []Pair {
	out := []Pair{}
	for _, x := range cs {
		p := Pair{}
		if x.Left != nil {
			p.L = indexOf(c.PtrL, x.Left.Pointer())
		}
		if x.Right != nil {
			p.R = indexOf(c.PtrR, x.Right.Pointer())
		}
		out = append(out, p)
	}
	return out
}

type recorder struct {
	mu   sync.Mutex
	logs map[string][]Event
	rng  *rand.Rand
	on   bool
}

func (r *recorder) hook(role string, worker int, point string, args ...string) {
	key := fmt.Sprintf("%s:%d", role, worker)
	r.mu.Lock()
	r.logs[key] = append(r.logs[key], append(Event{point}, args...))
	k := 0
	if r.on {
		k = r.rng.Intn(12)
	}
	r.mu.Unlock()
	// schedule perturbation: yield or sleep a little at some of the points
	switch {
	case k == 1 || k == 2:
		runtime.Gosched()
	case k == 3:
		time.Sleep(time.Duration(20+10*worker) * time.Microsecond)
	case k == 4:
		time.Sleep(300 * time.Microsecond)
	}
}

func compareOnce(c Config, jobs int, seed int64, perturb bool) (final []Pair, logs map[string][]Event, timedOut bool, panicMsg string) {
	left, _ := gedcom.NewDocumentFromString(docText(c.PtrL, c.UidL, c.WhoL, "L", c.Married, c.Fillers)) // cold caches
	right, _ := gedcom.NewDocumentFromString(docText(c.PtrR, c.UidR, c.WhoR, "R", c.Married, c.Fillers))
	rec := &recorder{logs: map[string][]Event{}, rng: rand.New(rand.NewSource(seed)), on: perturb}
	setHook(rec.hook)
	defer setHook(nil)
	type res struct {
		cs  gedcom.IndividualComparisons
		msg string
	}
	ch := make(chan res, 1)
	go func() {
		defer func() {
			if r := recover(); r != nil {
				ch <- res{nil, fmt.Sprint(r)}
			}
		}()
		ch <- res{left.Individuals().Compare(right.Individuals(), options(c, jobs)), ""}
	}()
	select {
	case r := <-ch:
		rec.mu.Lock()
		defer rec.mu.Unlock()
		return project(c, r.cs), rec.logs, false, r.msg
	case <-time.After(20 * time.Second):
		rec.mu.Lock()
		defer rec.mu.Unlock()
		return []Pair{}, rec.logs, true, ""
	}
}

var jobsSet = []int{0, 1, 2, 3, 8, 16}
var gomaxSet = []int{1, 2, 16}

// Run executes every configuration under several degrees of parallelism and schedules.
func Run(r io.Reader, w io.Writer, seed int64, perCfg int) error {
	sc := bufio.NewScanner(r)
	sc.Buffer(make([]byte, 1<<20), 1<<24)
	bw := bufio.NewWriterSize(w, 1<<20)
	defer bw.Flush()
	enc := json.NewEncoder(bw)
	rng := rand.New(rand.NewSource(seed))
	defer runtime.GOMAXPROCS(runtime.GOMAXPROCS(0))
	n := 0
	for sc.Scan() {
		var c Config
		if err := json.Unmarshal(sc.Bytes(), &c); err != nil {
			return fmt.Errorf("bad configuration: %v", err)
		}
		n++
		c = applyNear(c)
		in, err := measure(c)
		if err != nil {
			return err
		}
		runtime.GOMAXPROCS(16)
		seq, _, _, _ := compareOnce(c, 1, 0, false)
		for k := 0; k < perCfg; k++ {
			jobs := jobsSet[(n+k)%len(jobsSet)]
			gm := gomaxSet[(n/2+k)%len(gomaxSet)]
			if k == 0 {
				jobs = 1
			}
			runtime.GOMAXPROCS(gm)
			s := rng.Int63()
			final, logs, to, pm := compareOnce(c, jobs, s, k > 0)
			has := len(logs) > 0
			if !has {
				logs = map[string][]Event{"none:0": {}} // the Json module of TLC needs a non-empty object
			}
			enc.Encode(Obs{I: in, Jobs: jobs, GoMax: gm, Seed: s, Final: final, Seq: seq, Logs: logs, HasLogs: has, Timeout: to, Panic: pm, Cfg: c})
			if to {
				bw.Flush()
				return nil // a hung Compare cannot be stopped: the runner reports it
			}
		}
	}
	return sc.Err()
}

func randConfig(rng *rand.Rand, maxN int) Config {
	nl, nr := rng.Intn(maxN+1), rng.Intn(maxN+1)
	c := Config{PtrL: []int{}, PtrR: []int{}, UidL: []int{}, UidR: []int{}, WhoL: []int{}, WhoR: []int{}, Near: []int{},
		Threshold: []float64{0, 0.735, 0.735, 0.9, 1}[rng.Intn(5)], Prefer: []float64{0, 0.735, 0.735, 1}[rng.Intn(4)]}
	for i := 0; i < nl; i++ {
		c.PtrL = append(c.PtrL, i+1)
		c.WhoL = append(c.WhoL, 1+rng.Intn(12))
		u := 0
		if rng.Intn(3) == 0 {
			u = 1 + rng.Intn(4) // duplicated unique ids happen
		}
		c.UidL = append(c.UidL, u)
	}
	perm := rng.Perm(nr + 3)
	for j := 0; j < nr; j++ {
		p := 100 + j
		if rng.Intn(2) == 0 {
			p = perm[j] + 1 // shared (possibly "wrong person") pointers
		}
		c.PtrR = append(c.PtrR, p)
		who := 1 + rng.Intn(12)
		if j < nl && rng.Intn(2) == 0 {
			who = c.WhoL[j] // the same person on both sides
		}
		if j > 0 && rng.Intn(8) == 0 {
			who = c.WhoR[j-1] // identical twins
		}
		c.WhoR = append(c.WhoR, who)
		u := 0
		if rng.Intn(3) == 0 {
			u = 1 + rng.Intn(4)
		}
		c.UidR = append(c.UidR, u)
	}
	if nl > 0 && nr > 0 && rng.Intn(3) == 0 { // a threshold right on (or a hair off) a measured similarity
		i := rng.Intn(nl)
		j := rng.Intn(nr)
		if rng.Intn(2) == 0 && i < nr { // prefer a pair that is the same person
			j = i
			c.WhoR[j] = c.WhoL[i]
		}
		c.Near = []int{i, j, rng.Intn(len(nudges)), rng.Intn(2)}
		if c.Near[3] == 1 {
			c.PtrR[j] = c.PtrL[i] // the trusted-pointer level only matters for a shared pointer
		}
	}
	if nl >= 2 && nr >= 2 && rng.Intn(4) == 0 {
		// married couples, many family records, and the threshold right on the similarity of a married pair: the
		// similarity then depends on spouses that are collected lazily while other workers look
		c.Married, c.Fillers = true, 200+rng.Intn(600)
		i := rng.Intn(nl)
		j := i
		if j >= nr {
			j = rng.Intn(nr)
		}
		c.WhoR[j] = c.WhoL[i]
		if (i^1) < nl && (j^1) < nr {
			c.WhoR[j^1] = c.WhoL[i^1] // the same spouse on both sides
		}
		c.Near = []int{i, j, []int{0, 2, 4, 6}[rng.Intn(4)], 0}
	}
	// pointers on the right must be unique
	seen := map[int]bool{}
	for j := range c.PtrR {
		for seen[c.PtrR[j]] {
			c.PtrR[j] += 50
		}
		seen[c.PtrR[j]] = true
	}
	return c
}

func Gen(w io.Writer, seed int64, n, maxN int) error {
	rng := rand.New(rand.NewSource(seed))
	enc := json.NewEncoder(w)
	for i := 0; i < n; i++ {
		enc.Encode(randConfig(rng, maxN))
	}
	return nil
}

// Race: free-running comparisons on cold documents with several jobs (binary built with -race).
func Race(seed int64, n int) error {
	rng := rand.New(rand.NewSource(seed))
	for i := 0; i < n; i++ {
		c := randConfig(rng, 12)
		runtime.GOMAXPROCS([]int{2, 16}[i%2])
		_, _, to, pm := compareOnce(c, []int{2, 3, 8, 16}[i%4], rng.Int63(), i%3 == 0)
		if to || pm != "" {
			fmt.Fprintf(os.Stderr, "VH-NOTE compare timeout=%v panic=%q\n", to, pm)
		}
	}
	fmt.Fprintf(os.Stderr, "VH-RACE-RUNS %d\n", n)
	return nil
}

func Main(args []string) error {
	seed, _ := strconv.ParseInt(os.Getenv("VERIF_SEED"), 10, 64)
	if len(args) == 0 {
		return fmt.Errorf("matching: missing subcommand")
	}
	num := func(i, def int) int {
		if len(args) > i {
			if v, err := strconv.Atoi(args[i]); err == nil {
				return v
			}
		}
		return def
	}
	switch args[0] {
	case "run":
		return Run(os.Stdin, os.Stdout, seed, num(1, 4))
	case "gen":
		return Gen(os.Stdout, seed, num(1, 100), num(2, 6))
	case "race":
		return Race(seed, num(1, 50))
	case "diffpage":
		return DiffPage(os.Stdin, os.Stdout, seed, num(1, 3))
	}
	return fmt.Errorf("matching: unknown subcommand %q", args[0])
}
