//go:build verif

package matching

import "github.com/elliotchance/gedcom/v39"

func setHook(f func(role string, worker int, point string, args ...string)) { gedcom.VerifHook = f }
