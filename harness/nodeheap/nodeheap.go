// Package nodeheap binds NodeHeapOps.tla / NodeHeap.tla (C07, C08, C09) to
// DeepEqual, DeepCopy, CompareNodes and MergeNodes / MergeNodeSlices.
//
//	vh nodeheap exec        stdin: cases {mode, A, B, op} (from TLC or from `gen`)
//	                        stdout: one observation per case for NodeHeapTrace.tla
//	vh nodeheap gen MODE N  seeded larger cases (random trees over every kind)
//
// The harness only executes and projects: every verdict is TLC's.
package nodeheap

import (
	"bufio"
	"encoding/json"
	"fmt"
	"io"
	"math/rand"
	"os"
	"strconv"

	"github.com/elliotchance/gedcom/v39"
)

// ANode is the abstract node [t, v, p, x, kids] of NodeHeapOps.tla.
type ANode struct {
	T    string          `json:"t"`
	V    string          `json:"v"`
	P    string          `json:"p"`
	X    json.RawMessage `json:"x"`
	Kids []ANode         `json:"kids"`
}

type Op struct {
	K     string `json:"k"`
	Path  []int  `json:"path"`
	Perm  []int  `json:"perm,omitempty"`
	Pos   int    `json:"pos,omitempty"`
	Node  *ANode `json:"node,omitempty"`
	Fn    string `json:"fn,omitempty"`
	Order int    `json:"order"`
}

type Case struct {
	Mode string          `json:"mode"`
	A    json.RawMessage `json:"A"`
	B    json.RawMessage `json:"B"`
	Op   Op              `json:"op"`
}

func build(a ANode) gedcom.Node {
	n := gedcom.NewNode(gedcom.TagFromString(a.T), a.V, a.P)
	for _, k := range a.Kids {
		n.AddNode(build(k))
	}
	return n
}

// buildGrown builds the same tree with another history: every node exists without children first and is compared (both
// ways, twice) before it gets all of its children at once.  What a tree is equal to must not depend on how it came about.
func buildGrown(a ANode) gedcom.Node {
	n := gedcom.NewNode(gedcom.TagFromString(a.T), a.V, a.P)
	twin := gedcom.NewNode(gedcom.TagFromString(a.T), a.V, a.P)
	for k := 0; k < 2; k++ {
		_ = gedcom.DeepEqual(n, twin)
		_ = gedcom.DeepEqual(twin, n)
	}
	if len(a.Kids) > 0 {
		kids := gedcom.Nodes{}
		for _, k := range a.Kids {
			kids = append(kids, buildGrown(k))
		}
		n.SetNodes(kids)
	}
	return n
}

type label struct {
	S    string `json:"s"`
	Path []int  `json:"path"`
}

// index labels every node of an input tree by its path.
func index(m map[gedcom.Node]label, n gedcom.Node, side string, path []int) {
	m[n] = label{side, append([]int{}, path...)}
	for i, k := range n.Nodes() {
		index(m, k, side, append(path, i+1))
	}
}

func preorder(n gedcom.Node, out *[]gedcom.Node) {
	*out = append(*out, n)
	for _, k := range n.Nodes() {
		preorder(k, out)
	}
}

// snapshot captures everything "unchanged" means: the text and the identity of every node.
type snapshot struct {
	text  string
	nodes []gedcom.Node
}

func snap(roots ...gedcom.Node) snapshot {
	s := snapshot{}
	for _, r := range roots {
		s.text += r.GEDCOMString(0) + "\x00"
		preorder(r, &s.nodes)
	}
	return s
}

func (s snapshot) same(t snapshot) bool {
	if s.text != t.text || len(s.nodes) != len(t.nodes) {
		return false
	}
	for i := range s.nodes {
		if s.nodes[i] != t.nodes[i] {
			return false
		}
	}
	return true
}

func at(n gedcom.Node, path []int) gedcom.Node {
	for _, i := range path {
		n = n.Nodes()[i-1]
	}
	return n
}

func xtable(tab map[string]json.RawMessage, a ANode) {
	tab[a.T+"\x00"+a.V] = a.X
	for _, k := range a.Kids {
		xtable(tab, k)
	}
}

// project turns a real tree into the abstract one, with identity labels.
type PNode struct {
	T    string          `json:"t"`
	V    string          `json:"v"`
	P    string          `json:"p"`
	X    json.RawMessage `json:"x"`
	Kids []PNode         `json:"kids"`
	S    string          `json:"s"`    // "L" | "R" = this very object is a node of that input; "n" = fresh
	Path []int           `json:"path"` // its path there
}

var plainX = json.RawMessage(`{"k":"plain"}`)

func project(n gedcom.Node, ids map[gedcom.Node]label, tab map[string]json.RawMessage) PNode {
	p := PNode{T: n.Tag().Tag(), V: n.Value(), P: n.Pointer(), Kids: []PNode{}, S: "n", Path: []int{}}
	if x, ok := tab[p.T+"\x00"+p.V]; ok {
		p.X = x
	} else {
		p.X = plainX
	}
	if l, ok := ids[n]; ok {
		p.S, p.Path = l.S, l.Path
	}
	for _, k := range n.Nodes() {
		p.Kids = append(p.Kids, project(k, ids, tab))
	}
	return p
}

func safely(f func()) (msg string) {
	defer func() {
		if r := recover(); r != nil {
			msg = fmt.Sprint(r)
			if len(msg) > 200 {
				msg = msg[:200]
			}
		}
	}()
	f()
	return ""
}

// ------------------------------------------------------------------- C07

type copyFacts struct {
	Shared  int  `json:"shared"`  // nodes of the copy that ARE nodes of the source
	StrSame bool `json:"strsame"` // identical GEDCOM
	SrcSame bool `json:"srcsame"` // copying left the source untouched
	Deq12   bool `json:"deq12"`
	Deq21   bool `json:"deq21"`
	Indep1  bool `json:"indep1"` // changing the copy does not change the source
	Indep2  bool `json:"indep2"` // changing the source does not change the copy
}

type obs07 struct {
	Mode   string    `json:"mode"`
	A      ANode     `json:"A"`
	Op     Op        `json:"op"`
	Deq12  bool      `json:"deq12"` // source against the edited COPY
	Deq21  bool      `json:"deq21"`
	Deq12F bool      `json:"deq12f"` // source against the edited tree built afresh
	Deq21F bool      `json:"deq21f"`
	SelfEq bool      `json:"selfeq"`
	Copy   copyFacts `json:"copy"`
	Panic  string    `json:"panic"`
	// Filter with the stock functions (conformance to NodeHeapOps!FilterM; not one of the listed properties)
	Filters []filterObs `json:"filters"`
}

type filterSpec struct {
	K    string   `json:"k"` // white | black | official | emptydeath
	Tags []string `json:"tags"`
}

type filterObs struct {
	F      filterSpec `json:"f"`
	Res    []PNode    `json:"res"`    // empty when the root was dropped
	Shared int        `json:"shared"` // nodes of the result that are nodes of the input
	Pure   bool       `json:"pure"`   // input untouched
	Panic  string     `json:"panic"`
}

func runFilters(a ANode) []filterObs {
	specs := []filterSpec{{"black", []string{"NOTE"}}, {"black", []string{"DATE", "PLAC", "_X"}}, {"white", []string{a.T, "BIRT", "DATE", "NAME", "RESI", "EVEN", "SEX"}},
		{"white", []string{"NOTE"}}, {"official", []string{}}, {"emptydeath", []string{}}}
	out := []filterObs{}
	for _, sp := range specs {
		o := filterObs{F: sp, Res: []PNode{}}
		o.Panic = safely(func() {
			src := build(a)
			before := snap(src)
			ids := map[gedcom.Node]label{}
			index(ids, src, "L", nil)
			tab := map[string]json.RawMessage{}
			xtable(tab, a)
			tags := []gedcom.Tag{}
			for _, t := range sp.Tags {
				tags = append(tags, gedcom.TagFromString(t))
			}
			var fn gedcom.FilterFunction
			switch sp.K {
			case "black":
				fn = gedcom.BlacklistTagFilter(tags...)
			case "white":
				fn = gedcom.WhitelistTagFilter(tags...)
			case "official":
				fn = gedcom.OfficialTagFilter()
			default:
				fn = gedcom.RemoveEmptyDeathTagFilter()
			}
			res := gedcom.Filter(src, gedcom.NewDocument(), fn)
			o.Pure = before.same(snap(src))
			if !gedcom.IsNil(res) {
				pr := project(res, ids, tab)
				o.Res = []PNode{pr}
				o.Shared = countShared(o.Res)
			}
		})
		out = append(out, o)
	}
	return out
}

func mutateEverywhere(root gedcom.Node) {
	var all []gedcom.Node
	preorder(root, &all)
	for i, n := range all {
		switch i % 3 {
		case 0:
			n.AddNode(gedcom.NewNode(gedcom.TagFromString("_MARK"), strconv.Itoa(i), ""))
		case 1:
			if ks := n.Nodes(); len(ks) > 0 {
				n.DeleteNode(ks[0])
			} else {
				n.AddNode(gedcom.NewNode(gedcom.TagFromString("_MARK"), "leaf", ""))
			}
		case 2:
			n.SetNodes(gedcom.Nodes{gedcom.NewNode(gedcom.TagFromString("_MARK"), "only", "")})
		}
	}
}

func exec07(c Case) interface{} {
	var a ANode
	json.Unmarshal(c.A, &a)
	o := obs07{Mode: "c07", A: a, Op: c.Op}
	o.Panic = safely(func() {
		src := build(a)
		before := snap(src)
		o.SelfEq = gedcom.DeepEqual(src, src)
		cp := gedcom.DeepCopy(src, nil)
		ids := map[gedcom.Node]label{}
		index(ids, src, "L", nil)
		var cpNodes []gedcom.Node
		preorder(cp, &cpNodes)
		for _, n := range cpNodes {
			if _, ok := ids[n]; ok {
				o.Copy.Shared++
			}
		}
		o.Copy.StrSame = cp.GEDCOMString(0) == src.GEDCOMString(0)
		o.Copy.SrcSame = before.same(snap(src))
		o.Copy.Deq12 = gedcom.DeepEqual(src, cp)
		o.Copy.Deq21 = gedcom.DeepEqual(cp, src)
		// ... and for the tree with the other history (compared while childless, children set afterwards)
		grown := buildGrown(a)
		cpG := gedcom.DeepCopy(grown, nil)
		o.Copy.Deq12 = o.Copy.Deq12 && gedcom.DeepEqual(grown, cpG) && gedcom.DeepEqual(grown, src)
		o.Copy.Deq21 = o.Copy.Deq21 && gedcom.DeepEqual(cpG, grown) && gedcom.DeepEqual(src, grown)
		// the edited tree is made from the copy
		t2 := cp
		switch c.Op.K {
		case "perm":
			x := at(t2, c.Op.Path)
			old := x.Nodes()
			nu := make(gedcom.Nodes, len(old))
			for i, j := range c.Op.Perm {
				nu[i] = old[j-1]
			}
			x.SetNodes(nu)
		case "ins":
			x := at(t2, c.Op.Path)
			old := x.Nodes()
			nu := append(gedcom.Nodes{}, old[:c.Op.Pos-1]...)
			nu = append(nu, build(*c.Op.Node))
			nu = append(nu, old[c.Op.Pos-1:]...)
			x.SetNodes(nu)
		case "del":
			x := at(t2, c.Op.Path)
			x.DeleteNode(x.Nodes()[c.Op.Pos-1])
		case "chg":
			x := at(t2, c.Op.Path)
			old := x.Nodes()
			nu := append(gedcom.Nodes{}, old...)
			nu[c.Op.Pos-1] = build(*c.Op.Node)
			x.SetNodes(nu)
		}
		o.Deq12 = gedcom.DeepEqual(src, t2)
		o.Deq21 = gedcom.DeepEqual(t2, src)
		// the same edit on the abstract tree, built from scratch (no history on any node)
		t3 := build(applyOpA(a, c.Op))
		src3 := build(a)
		o.Deq12F = gedcom.DeepEqual(src3, t3)
		o.Deq21F = gedcom.DeepEqual(t3, src3)
		// independence, on a second copy so that the comparison above is not disturbed
		cp2 := gedcom.DeepCopy(src, nil)
		cp2text := cp2.GEDCOMString(0)
		mutateEverywhere(cp2)
		o.Copy.Indep1 = before.same(snap(src))
		cp3 := gedcom.DeepCopy(src, nil)
		cp3snap := snap(cp3)
		mutateEverywhere(src)
		o.Copy.Indep2 = cp3snap.same(snap(cp3)) && cp3.GEDCOMString(0) == cp2text
	})
	o.Filters = []filterObs{}
	if len(c.A)%3 == 0 { // a third of the trees: the filter results triple the size of an observation
		o.Filters = runFilters(a)
	}
	return o
}

// applyOpA performs the edit on the abstract tree (NodeHeapOps!ApplyOp).
func applyOpA(a ANode, op Op) ANode {
	t := clone(a)
	if op.K == "copy" {
		return t
	}
	x := atA(&t, op.Path)
	switch op.K {
	case "perm":
		nu := make([]ANode, len(x.Kids))
		for i, j := range op.Perm {
			nu[i] = x.Kids[j-1]
		}
		x.Kids = nu
	case "ins":
		nu := append([]ANode{}, x.Kids[:op.Pos-1]...)
		nu = append(nu, clone(*op.Node))
		x.Kids = append(nu, x.Kids[op.Pos-1:]...)
	case "del":
		x.Kids = append(append([]ANode{}, x.Kids[:op.Pos-1]...), x.Kids[op.Pos:]...)
	case "chg":
		x.Kids[op.Pos-1] = clone(*op.Node)
	}
	return t
}

// ------------------------------------------------------------------- C08

type side struct {
	Has  bool   `json:"has"`
	S    string `json:"s"`
	Path []int  `json:"path"`
}

type entry struct {
	L    side    `json:"l"`
	R    side    `json:"r"`
	Kids []entry `json:"kids"`
}

func projSide(n gedcom.Node, ids map[gedcom.Node]label) side {
	if gedcom.IsNil(n) {
		return side{Has: false, S: "-", Path: []int{}}
	}
	if l, ok := ids[n]; ok {
		return side{true, l.S, l.Path}
	}
	return side{true, "n", []int{}}
}

func projDiff(d *gedcom.NodeDiff, ids map[gedcom.Node]label) entry {
	e := entry{L: projSide(d.Left, ids), R: projSide(d.Right, ids), Kids: []entry{}}
	for _, c := range d.Children {
		e.Kids = append(e.Kids, projDiff(c, ids))
	}
	return e
}

type obs08 struct {
	Mode     string          `json:"mode"`
	A        ANode           `json:"A"`
	B        ANode           `json:"B"`
	Diff     entry           `json:"diff"`  // right after CompareNodes
	Diff2    entry           `json:"diff2"` // after all operations (Sort included)
	IsDeq    bool            `json:"isdeq"` // NodeDiff.IsDeepEqual()
	Deq      bool            `json:"deq"`   // DeepEqual(A, B)
	Pure     map[string]bool `json:"pure"`  // per operation: the compared trees are unchanged
	OrderRan []string        `json:"order"`
	Panic    string          `json:"panic"`
}

var diffOps = []string{"string", "isdeepequal", "sort", "tag"}

func permutation(k int, items []string) []string {
	s := append([]string{}, items...)
	out := []string{}
	for n := len(s); n > 0; n-- {
		i := k % n
		k /= n
		out = append(out, s[i])
		s = append(s[:i], s[i+1:]...)
	}
	return out
}

func exec08(c Case) interface{} {
	var a, b ANode
	json.Unmarshal(c.A, &a)
	json.Unmarshal(c.B, &b)
	o := obs08{Mode: "c08", A: a, B: b, Pure: map[string]bool{}, OrderRan: []string{}}
	o.Panic = safely(func() {
		l, r := build(a), build(b)
		ids := map[gedcom.Node]label{}
		index(ids, l, "L", nil)
		index(ids, r, "R", nil)
		o.Deq = gedcom.DeepEqual(l, r)
		before := snap(l, r)
		d := gedcom.CompareNodes(l, r)
		o.Pure["compare"] = before.same(snap(l, r))
		o.Diff = projDiff(d, ids)
		o.IsDeq = d.IsDeepEqual()
		for _, name := range permutation(c.Op.Order, diffOps) {
			o.OrderRan = append(o.OrderRan, name)
			switch name {
			case "string":
				_ = d.String()
			case "isdeepequal":
				_ = d.IsDeepEqual()
			case "sort":
				d.Sort()
			case "tag":
				_ = d.Tag()
				for _, ch := range d.Children {
					_ = ch.Tag()
				}
			}
			// pure[name] = still unchanged after this operation (first impure one is the culprit)
			o.Pure[name] = before.same(snap(l, r))
		}
		o.Diff2 = projDiff(d, ids)
	})
	return o
}

// ------------------------------------------------------------------- C09

type obs09 struct {
	Mode   string  `json:"mode"`
	A      []ANode `json:"A"` // one tree (mergenodes) or a list
	B      []ANode `json:"B"`
	Fn     string  `json:"fn"`
	Res    []PNode `json:"res"`
	Err    bool    `json:"err"`
	Pure   bool    `json:"pure"`   // inputs unchanged by the merge
	Indep  bool    `json:"indep"`  // ... and by later changes to the result
	Shared int     `json:"shared"` // result nodes that are input nodes
	Panic  string  `json:"panic"`
}

func countShared(ps []PNode) int {
	n := 0
	for _, p := range ps {
		if p.S != "n" {
			n++
		}
		n += countShared(p.Kids)
	}
	return n
}

var neverCalls int

func mergeFn(name string) gedcom.MergeFunction {
	switch name {
	case "always":
		return func(l, r gedcom.Node, doc *gedcom.Document) gedcom.Node {
			m, err := gedcom.MergeNodes(l, r, doc)
			if err != nil {
				return nil
			}
			return m
		}
	case "never":
		// "do not merge" is answered with nil; every other time with a nil pointer of a node type, which callers that
		// keep their nodes in typed variables hand over (MergeNodeSlices tests the answer with IsNil)
		neverCalls++
		if neverCalls%2 == 0 {
			return func(l, r gedcom.Node, doc *gedcom.Document) gedcom.Node {
				var none *gedcom.NoteNode
				return none
			}
		}
		return func(l, r gedcom.Node, doc *gedcom.Document) gedcom.Node { return nil }
	}
	return gedcom.EqualityMergeFunction
}

func exec09(c Case) interface{} {
	o := obs09{Mode: c.Mode, Fn: c.Op.Fn, Res: []PNode{}}
	if c.Mode == "c09n" {
		var a, b ANode
		json.Unmarshal(c.A, &a)
		json.Unmarshal(c.B, &b)
		o.A, o.B = []ANode{a}, []ANode{b}
	} else {
		json.Unmarshal(c.A, &o.A)
		json.Unmarshal(c.B, &o.B)
		if o.A == nil {
			o.A = []ANode{}
		}
		if o.B == nil {
			o.B = []ANode{}
		}
	}
	o.Panic = safely(func() {
		tab := map[string]json.RawMessage{}
		ids := map[gedcom.Node]label{}
		var ls, rs gedcom.Nodes
		for i, a := range o.A {
			xtable(tab, a)
			n := build(a)
			ls = append(ls, n)
			index(ids, n, "L", []int{i + 1})
		}
		for i, b := range o.B {
			xtable(tab, b)
			n := build(b)
			rs = append(rs, n)
			index(ids, n, "R", []int{i + 1})
		}
		all := append(append(gedcom.Nodes{}, ls...), rs...)
		before := snap(all...)
		var res gedcom.Nodes
		listsChanged := false
		if c.Mode == "c09n" {
			m, err := gedcom.MergeNodes(ls[0], rs[0], nil)
			o.Err = err != nil
			if err == nil {
				res = gedcom.Nodes{m}
			}
		} else {
			// the lists themselves are inputs too: the same nodes at the same places afterwards.  Every other time the right
			// list is the child list of a node, as the library itself passes it
			ls0, rs0 := append(gedcom.Nodes{}, ls...), append(gedcom.Nodes{}, rs...)
			rarg := rs
			var holder gedcom.Node
			if len(rs)%2 == 1 {
				holder = gedcom.NewNode(gedcom.TagFromString("_HOLDER"), "", "")
				holder.SetNodes(append(gedcom.Nodes{}, rs...))
				rarg = holder.Nodes()
			}
			res = gedcom.MergeNodeSlices(ls, rarg, nil, mergeFn(c.Op.Fn))
			listsSame := len(ls) == len(ls0) && len(rarg) == len(rs0)
			for i := range ls0 {
				listsSame = listsSame && i < len(ls) && ls[i] == ls0[i]
			}
			for i := range rs0 {
				listsSame = listsSame && i < len(rarg) && rarg[i] == rs0[i]
				if holder != nil {
					listsSame = listsSame && i < len(holder.Nodes()) && holder.Nodes()[i] == rs0[i]
				}
			}
			listsChanged = !listsSame
		}
		o.Pure = before.same(snap(all...)) && !listsChanged
		for _, n := range res {
			o.Res = append(o.Res, project(n, ids, tab))
		}
		o.Shared = countShared(o.Res)
		for _, n := range res {
			mutateEverywhere(n)
		}
		o.Indep = before.same(snap(all...))
	})
	return o
}

// Exec runs every case and writes one observation per line.
func Exec(r io.Reader, w io.Writer) error {
	sc := bufio.NewScanner(r)
	sc.Buffer(make([]byte, 1<<20), 1<<28)
	bw := bufio.NewWriterSize(w, 1<<20)
	defer bw.Flush()
	enc := json.NewEncoder(bw)
	k := 0
	for sc.Scan() {
		var c Case
		if err := json.Unmarshal(sc.Bytes(), &c); err != nil {
			return fmt.Errorf("bad case: %v", err)
		}
		if c.Op.Order == 0 {
			c.Op.Order = k // every order of the diff operations comes round
		}
		if c.Op.Path == nil {
			c.Op.Path = []int{}
		}
		k++
		switch c.Mode {
		case "c07":
			enc.Encode(exec07(c))
		case "c08":
			enc.Encode(exec08(c))
		case "c09n", "c09s":
			enc.Encode(exec09(c))
		default:
			return fmt.Errorf("unknown mode %q", c.Mode)
		}
	}
	return sc.Err()
}

// ------------------------------------------------------------- generation

type alpha struct {
	leaf []ANode // may appear anywhere
	edit []ANode
}

func mk(t, v, p, x string) ANode {
	return ANode{T: t, V: v, P: p, X: json.RawMessage(x), Kids: []ANode{}}
}

func dateNode(c string, y int) ANode {
	w := map[string]string{"Exact": "", "About": "Abt. ", "Before": "Bef. ", "After": "Aft. "}[c]
	return mk("DATE", fmt.Sprintf("%s%d", w, y), "", fmt.Sprintf(`{"k":"date","c":"%s","y":%d}`, c, y))
}

func bigAlphabet() alpha {
	a := alpha{}
	for _, t := range []string{"NOTE", "OCCU", "NAME", "PLAC", "SOUR", "_X", "TITL"} {
		for _, v := range []string{"a", "b", ""} {
			a.leaf = append(a.leaf, mk(t, v, "", `{"k":"plain"}`))
		}
	}
	a.leaf = append(a.leaf, mk("NOTE", "a", "N1", `{"k":"plain"}`))
	// nested nodes that carry pointers (legal, unusual): the same pointer on nodes that differ in tag or value, another pointer on equal ones
	a.leaf = append(a.leaf, mk("NOTE", "b", "N1", `{"k":"plain"}`), mk("OCCU", "a", "N1", `{"k":"plain"}`), mk("NOTE", "a", "N2", `{"k":"plain"}`))
	// the other kinds of node that have a type of their own
	for _, tv := range [][2]string{{"SEX", "M"}, {"SEX", "F"}, {"SEX", ""}, {"NICK", "a"}, {"TYPE", "a"}, {"FORM", "a"}, {"MAP", ""}, {"LATI", "N1"}, {"LONG", "E1"},
		{"FONE", "a"}, {"ROMN", "a"}} {
		a.leaf = append(a.leaf, mk(tv[0], tv[1], "", `{"k":"plain"}`))
	}
	for _, t := range []string{"BIRT", "DEAT", "BURI", "BAPM"} {
		a.leaf = append(a.leaf, mk(t, "", "", `{"k":"plain"}`), mk(t, "Y", "", `{"k":"plain"}`))
	}
	for _, t := range []string{"RESI", "EVEN"} {
		a.leaf = append(a.leaf, mk(t, "", "", `{"k":"plain"}`), mk(t, "x", "", `{"k":"plain"}`))
	}
	// one Before and one After year only: the documented one-directional rule between two
	// different Before (After) dates is the known finding C07-F1 and has its own config
	a.leaf = append(a.leaf, dateNode("Exact", 1900), dateNode("Exact", 1950), dateNode("About", 1900), dateNode("Before", 1950),
		dateNode("After", 1900), mk("DATE", "(after the war)", "", `{"k":"phrase"}`), mk("DATE", "sometime", "", `{"k":"baddate"}`),
		// values the date grammar accepts but that name no day (year zero): equal only to the same text
		mk("DATE", "0", "", `{"k":"baddate"}`), mk("DATE", "Abt. 0", "", `{"k":"baddate"}`), mk("DATE", "Bet. 1900 and 0", "", `{"k":"baddate"}`))
	a.leaf = append(a.leaf, mk("_UID", "EE13561DDB204985BFFDEEBF82A5226C5B2E", "", `{"k":"uid","u":1}`),
		mk("_UID", "92FF8B766F327F48A256C3AE6DAE50D3A114", "", `{"k":"uid","u":2}`), mk("_UID", "xyz", "", `{"k":"baduid"}`))
	a.edit = []ANode{mk("NOTE", "zz", "", `{"k":"plain"}`), mk("_NEW", "", "", `{"k":"plain"}`), mk("OCCU", "q", "Q", `{"k":"plain"}`),
		mk("_NEW", "", "N1", `{"k":"plain"}`), mk("NOTE", "zz", "N1", `{"k":"plain"}`)}
	return a
}

func randTree(rng *rand.Rand, a alpha, depth, maxKids int) ANode {
	n := a.leaf[rng.Intn(len(a.leaf))]
	n.Kids = []ANode{}
	if depth > 1 {
		k := rng.Intn(maxKids + 1)
		for i := 0; i < k; i++ {
			if len(n.Kids) > 0 && rng.Intn(4) == 0 {
				n.Kids = append(n.Kids, n.Kids[rng.Intn(len(n.Kids))]) // duplicate sibling
			} else {
				n.Kids = append(n.Kids, randTree(rng, a, depth-1, maxKids))
			}
		}
	}
	return n
}

func allPaths(n ANode, here []int, out *[][]int) {
	*out = append(*out, append([]int{}, here...))
	for i, k := range n.Kids {
		allPaths(k, append(here, i+1), out)
	}
}

func atA(n *ANode, path []int) *ANode {
	for _, i := range path {
		n = &n.Kids[i-1]
	}
	return n
}

func clone(n ANode) ANode {
	c := n
	c.Kids = make([]ANode, len(n.Kids))
	for i, k := range n.Kids {
		c.Kids[i] = clone(k)
	}
	return c
}

func shuffleDeep(rng *rand.Rand, n *ANode) {
	rng.Shuffle(len(n.Kids), func(i, j int) { n.Kids[i], n.Kids[j] = n.Kids[j], n.Kids[i] })
	for i := range n.Kids {
		shuffleDeep(rng, &n.Kids[i])
	}
}

// Gen writes seeded cases far beyond TLC's bounds.
func Gen(w io.Writer, mode string, seed int64, n int) error {
	rng := rand.New(rand.NewSource(seed))
	bw := bufio.NewWriterSize(w, 1<<20)
	defer bw.Flush()
	enc := json.NewEncoder(bw)
	a := bigAlphabet()
	root := mk("HEAD", "", "", `{"k":"plain"}`)
	// kind-focused subtrees: the rules that look at children (RESI places, EVEN children, dates)
	focused := func() ANode {
		var n ANode
		switch rng.Intn(4) {
		case 0: // dateless RESI with several places
			n = mk("RESI", "", "", `{"k":"plain"}`)
			for i, m := 0, 2+rng.Intn(2); i < m; i++ {
				n.Kids = append(n.Kids, mk("PLAC", []string{"Paris", "Rome", "Oslo"}[rng.Intn(3)], "", `{"k":"plain"}`))
			}
			if rng.Intn(3) == 0 {
				n.Kids = append(n.Kids, mk("NOTE", "n", "", `{"k":"plain"}`))
			}
		case 1: // dateless EVEN with children
			n = mk("EVEN", []string{"", "x"}[rng.Intn(2)], "", `{"k":"plain"}`)
			for i, m := 0, 1+rng.Intn(3); i < m; i++ {
				n.Kids = append(n.Kids, randTree(rng, a, 2, 2))
			}
		case 2: // RESI / EVEN with dates
			n = mk([]string{"RESI", "EVEN"}[rng.Intn(2)], "", "", `{"k":"plain"}`)
			n.Kids = append(n.Kids, dateNode([]string{"Exact", "About"}[rng.Intn(2)], 1900+50*rng.Intn(2)))
			n.Kids = append(n.Kids, mk("PLAC", []string{"Paris", "Rome"}[rng.Intn(2)], "", `{"k":"plain"}`))
			if rng.Intn(2) == 0 {
				n.Kids = append(n.Kids, dateNode("Exact", 1950))
			}
		default: // an event with a date and a place
			n = mk([]string{"BIRT", "DEAT", "BURI", "BAPM"}[rng.Intn(4)], "", "", `{"k":"plain"}`)
			n.Kids = append(n.Kids, dateNode("Exact", 1900+50*rng.Intn(2)), mk("PLAC", "Rome", "", `{"k":"plain"}`))
		}
		return n
	}
	tree := func() ANode {
		t := root
		d, k := 2+rng.Intn(3), 2+rng.Intn(4)
		t.Kids = []ANode{}
		wide := rng.Intn(10) == 0
		if wide { // wider than one, sometimes two, machine words; distinct fillers first
			for i, m := 0, []int{62, 63, 64, 65, 70, 127, 130}[rng.Intn(7)]; i < m; i++ {
				t.Kids = append(t.Kids, mk("NOTE", fmt.Sprintf("f%d", i), "", `{"k":"plain"}`))
			}
			k = 4
		}
		for i, m := 0, rng.Intn(k+1); i < m; i++ {
			switch {
			case len(t.Kids) > 0 && rng.Intn(5) == 0:
				t.Kids = append(t.Kids, t.Kids[rng.Intn(len(t.Kids))])
			case rng.Intn(4) == 0:
				t.Kids = append(t.Kids, focused())
			default:
				t.Kids = append(t.Kids, randTree(rng, a, d-1, 3))
			}
		}
		if wide || rng.Intn(6) == 0 { // duplicates at the very end
			dup := a.leaf[rng.Intn(len(a.leaf))]
			dup.Kids = []ANode{}
			for i, m := 0, 2+rng.Intn(2); i < m; i++ {
				t.Kids = append(t.Kids, dup)
			}
		}
		if mode == "c07" && !wide && rng.Intn(200) == 0 { // (deep equality only) the whole tree at the bottom of a chain that passes level 99 and 100
			for lv, m := 0, 98+rng.Intn(8); lv < m; lv++ {
				t = ANode{T: "NOTE", V: fmt.Sprintf("l%d", lv%3), X: json.RawMessage(`{"k":"plain"}`), Kids: []ANode{t}}
			}
		}
		return t
	}
	raw := func(v interface{}) json.RawMessage { b, _ := json.Marshal(v); return b }
	for i := 0; i < n; i++ {
		switch mode {
		case "c07":
			t := tree()
			var paths [][]int
			allPaths(t, nil, &paths)
			op := Op{K: "copy"}
			p := paths[rng.Intn(len(paths))]
			for tries := 0; tries < 6 && len(atA(&t, p).Kids) < 2; tries++ { // prefer nodes that have children to work on
				p = paths[rng.Intn(len(paths))]
			}
			x := atA(&t, p)
			tailPos := func(n int) int { // positions near the end are as interesting as random ones
				if n > 3 && rng.Intn(2) == 0 {
					return n - rng.Intn(3)
				}
				return 1 + rng.Intn(n)
			}
			_ = tailPos
			switch rng.Intn(5) {
			case 1:
				if len(x.Kids) >= 2 {
					perm := rng.Perm(len(x.Kids))
					ident := true
					for i := range perm {
						perm[i]++
						if perm[i] != i+1 {
							ident = false
						}
					}
					if !ident {
						op = Op{K: "perm", Path: p, Perm: perm}
					}
				}
			case 2:
				e := a.edit[rng.Intn(len(a.edit))]
				op = Op{K: "ins", Path: p, Pos: 1 + rng.Intn(len(x.Kids)+1), Node: &e}
			case 3:
				if len(x.Kids) > 0 {
					op = Op{K: "del", Path: p, Pos: tailPos(len(x.Kids))}
				}
			case 4:
				if len(x.Kids) > 0 {
					pos := tailPos(len(x.Kids))
					if len(x.Kids[pos-1].Kids) == 0 {
						e := a.edit[rng.Intn(len(a.edit))]
						op = Op{K: "chg", Path: p, Pos: pos, Node: &e}
					}
				}
			}
			if op.Path == nil {
				op.Path = []int{}
			}
			enc.Encode(Case{Mode: mode, A: raw(t), B: raw([]int{}), Op: op})
		case "c08", "c09n":
			l := tree()
			var r ANode
			switch rng.Intn(3) {
			case 0:
				r = tree() // independent
			case 1:
				r = clone(l) // permuted copy
				shuffleDeep(rng, &r)
			default: // copy with uniquely tagged leaves inserted / removed under plain parents
				r = clone(l)
				var paths [][]int
				allPaths(r, nil, &paths)
				for k := rng.Intn(4); k > 0; k-- {
					p := paths[rng.Intn(len(paths))]
					x := atA(&r, p)
					if x.T == "NOTE" || x.T == "HEAD" || x.T == "OCCU" || x.T == "SOUR" {
						x.Kids = append(x.Kids, mk(fmt.Sprintf("_U%d", k), "u", "", `{"k":"plain"}`))
					}
				}
			}
			enc.Encode(Case{Mode: mode, A: raw(l), B: raw(r), Op: Op{K: "x", Order: rng.Intn(24)}})
		case "c09s":
			var ls, rs []ANode
			for k := rng.Intn(5); k > 0; k-- {
				ls = append(ls, randTree(rng, a, 1+rng.Intn(3), 3))
			}
			for k := rng.Intn(5); k > 0; k-- {
				if len(ls) > 0 && rng.Intn(3) == 0 {
					c := clone(ls[rng.Intn(len(ls))])
					shuffleDeep(rng, &c)
					rs = append(rs, c)
				} else {
					rs = append(rs, randTree(rng, a, 1+rng.Intn(3), 3))
				}
			}
			if ls == nil {
				ls = []ANode{}
			}
			if rs == nil {
				rs = []ANode{}
			}
			enc.Encode(Case{Mode: mode, A: raw(ls), B: raw(rs), Op: Op{K: "mergeslices", Fn: []string{"eq", "eq", "always", "never"}[rng.Intn(4)]}})
		}
	}
	return nil
}

func Main(args []string) error {
	seed, _ := strconv.ParseInt(os.Getenv("VERIF_SEED"), 10, 64)
	if len(args) == 0 {
		return fmt.Errorf("nodeheap: missing subcommand")
	}
	switch args[0] {
	case "exec":
		return Exec(os.Stdin, os.Stdout)
	case "gen":
		if len(args) < 3 {
			return fmt.Errorf("usage: nodeheap gen MODE N")
		}
		n, _ := strconv.Atoi(args[2])
		return Gen(os.Stdout, args[1], seed, n)
	}
	return fmt.Errorf("nodeheap: unknown subcommand %q", args[0])
}
