package publish

import (
	"bufio"
	"encoding/json"
	"fmt"
	"io"
	"math/rand"
	"strings"
)

// Seeded writes larger cases than the exhaustive TLC generator reaches.  The case format is the one Publish.tla emits.

var kinds = []string{"deat", "old", "nodate", "recent", "burialonly"}

func living(kind string) bool { return kind == "nodate" || kind == "recent" || kind == "burialonly" }

func mk(prefix string, c byte, i int) string { return fmt.Sprintf("%sq%c%02d", prefix, c, i) }

func person(rng *rand.Rand, i int, pre string) Person {
	first := []string{"A", "B", "M", "Z", "A", "M", "9", "("}[rng.Intn(8)] // also surnames that are indexed under "symbol"
	p := Person{P: fmt.Sprintf("I%d", i), Kind: kinds[rng.Intn(len(kinds))], Given: mk(pre+"G", 'g', i), Sur: mk(pre+first, 's', i), AltG: []string{}, AltS: []string{},
		Sex: []string{"M", "F", ""}[rng.Intn(3)], Day: rng.Intn(3), Lines: []string{}}
	if rng.Intn(3) == 0 {
		p.Nick = mk(pre+"N", 'n', i)
	}
	if rng.Intn(2) == 0 {
		p.AltG, p.AltS = []string{mk(pre+"H", 'a', i)}, []string{mk(pre+"K", 'b', i)}
	}
	if rng.Intn(3) > 0 {
		p.BPlac = mk(pre+"P", 'p', i)
	}
	if rng.Intn(3) == 0 {
		p.RPlac = mk(pre+"R", 'r', i)
	}
	if rng.Intn(3) == 0 && (p.Kind == "deat" || p.Kind == "burialonly") {
		p.DPlac = mk(pre+"D", 'd', i)
	}
	if rng.Intn(4) == 0 {
		p.Note = mk(pre+"T", 't', i)
	}
	if rng.Intn(4) == 0 {
		p.Occu = mk(pre+"O", 'o', i)
	}
	switch rng.Intn(12) {
	case 0:
		p.Given, p.Sur = "", "" // no name at all
	case 1:
		p.Sur = "" // a given name only
	}
	return p
}

func graph(rng *rand.Rand, n int, pre string) Doc {
	d := Doc{People: []Person{}, Families: []Family{}, Sources: []Source{}}
	for i := 1; i <= n; i++ {
		d.People = append(d.People, person(rng, i, pre))
	}
	// sharing: a surname or a place of somebody else (a shared string is public as soon as one owner is not living)
	for i := range d.People {
		if j := rng.Intn(n); j != i && rng.Intn(3) == 0 && d.People[j].Sur != "" && d.People[i].Sur != "" {
			d.People[i].Sur = d.People[j].Sur
		}
		if j := rng.Intn(n); j != i && rng.Intn(3) == 0 && d.People[j].BPlac != "" {
			d.People[i].BPlac = d.People[j].BPlac
		}
	}
	nf := 0
	if n >= 2 {
		nf = rng.Intn(3)
	}
	for f := 1; f <= nf; f++ {
		perm := rng.Perm(n)
		fam := Family{P: fmt.Sprintf("F%d", f), Husb: perm[0] + 1, Kids: []int{}}
		if rng.Intn(4) > 0 {
			fam.Wife = perm[1] + 1
		}
		for k := 2; k < n && k < 2+rng.Intn(3); k++ {
			fam.Kids = append(fam.Kids, perm[k]+1)
		}
		if rng.Intn(2) == 0 {
			fam.MYear = 1850 + rng.Intn(20)
			if rng.Intn(2) == 0 {
				fam.MPlac = mk(pre+"W", 'w', f)
			}
		}
		d.Families = append(d.Families, fam)
	}
	for s := 1; s <= rng.Intn(3); s++ {
		d.Sources = append(d.Sources, Source{P: fmt.Sprintf("S%d", s), Title: mk(pre+"U", 'u', s), Auth: mk(pre+"V", 'v', s)})
		if rng.Intn(2) == 0 {
			p := &d.People[rng.Intn(n)]
			p.Lines = append(p.Lines, fmt.Sprintf("1 SOUR @S%d@", s))
		}
	}
	return d
}

// twinOf gives the living people other data: names, places, texts and dates (inside the range their kind allows)
func twinOf(d Doc) Doc {
	var t Doc
	b, _ := json.Marshal(d)
	json.Unmarshal(b, &t)
	re := func(s string) string {
		if s == "" {
			return ""
		}
		return "Y" + s[1:] + "y"
	}
	for i := range t.People {
		p := &t.People[i]
		if !living(p.Kind) {
			continue
		}
		p.Given, p.Sur, p.Nick, p.BPlac, p.RPlac, p.DPlac, p.Note, p.Occu = re(p.Given), re(p.Sur), re(p.Nick), re(p.BPlac), re(p.RPlac), re(p.DPlac), re(p.Note), re(p.Occu)
		if p.Sur == "" && p.Given != "" && i%2 == 0 { // somebody without a surname has one in the twin (another index letter)
			p.Sur = fmt.Sprintf("Yqs%02dy", i)
		}
		for k := range p.AltG {
			p.AltG[k], p.AltS[k] = re(p.AltG[k]), re(p.AltS[k])
		}
		p.Day += 3
	}
	normDoc(&t)
	return t
}

func subsetOpts(rng *rand.Rand, living string) Options {
	o := Options{Living: living}
	m := rng.Intn(64)
	if rng.Intn(3) == 0 {
		m = 63
	}
	o.Individuals, o.Places, o.Families, o.Surnames, o.Sources, o.Statistics = m&1 != 0, m&2 != 0, m&4 != 0, m&8 != 0, m&16 != 0, m&32 != 0
	return o
}

// hostile decorates a graph with the pointers, names and places the confinement / collision clauses are about
func hostile(rng *rand.Rand, d *Doc) {
	n := len(d.People)
	for k := 0; k < 1+rng.Intn(3); k++ {
		p := &d.People[rng.Intn(n)]
		switch rng.Intn(9) {
		case 0:
			p.P = []string{"../x", "a/b", "places", "..", "x/../../y"}[rng.Intn(5)] + fmt.Sprint(k) // pointers stay unique
		case 1:
			p.Given, p.Sur = "places", "" // a person whose page key is the name of a fixed page
		case 2:
			p.Given, p.Sur = []string{"sources", "families", "surnames", "statistics", "individuals-a"}[rng.Intn(5)], ""
		case 3:
			if q := d.People[rng.Intn(n)]; q.Given != "" { // two people with the same name
				p.Given, p.Sur = q.Given, q.Sur
			}
		case 4:
			if p.Given != "" { // a place called like a person
				d.People[rng.Intn(n)].BPlac = p.Given + " " + p.Sur
			}
		case 5:
			p.Sur = []string{"9lives", "Émile", "O'Neil", "'t Hooft", "Øst", "_x", "-dash", "ßen"}[rng.Intn(8)] + p.Sur
		case 6:
			if len(d.Sources) >= 2 && rng.Intn(2) == 0 {
				// a pointer and what the page-name escaping of another pointer looks like
				pair := [][]string{{"a/b", "a-2fb"}, {"places", "-70laces"}, {"S 1", "S-201"}, {"a-b", "a-2db"}}[rng.Intn(4)]
				d.Sources[0].P, d.Sources[1].P = pair[0], pair[1]
			} else if len(d.Sources) > 0 {
				si := rng.Intn(len(d.Sources))
				d.Sources[si].P = []string{"../x", "a/b", "sources", "places", "..", "S 1", "a-b", "individuals-a"}[rng.Intn(8)]
				for o := range d.Sources { // pointers stay unique
					if o != si && d.Sources[o].P == d.Sources[si].P {
						d.Sources[si].P += "2"
					}
				}
			}
		case 7:
			p.BPlac = []string{"a/b", "../up", "A  B", "a-b", "A B", "(none)", "places"}[rng.Intn(7)]
		case 8:
			p.Given = p.Given + " " + []string{"Jr.", "/", "&", "III"}[rng.Intn(4)]
		}
	}
	// pointers of families follow the people they mention: nothing to do (indices)
}

const taintBenign = "q7"

func tainted(d Doc, suffix string, taintPointers bool) Doc {
	var t Doc
	b, _ := json.Marshal(d)
	json.Unmarshal(b, &t)
	ad := func(s string) string {
		if s == "" {
			return ""
		}
		return s + suffix
	}
	for i := range t.People {
		p := &t.People[i]
		p.Given, p.Sur, p.Nick, p.BPlac, p.RPlac, p.DPlac, p.Note, p.Occu = ad(p.Given), ad(p.Sur), ad(p.Nick), ad(p.BPlac), ad(p.RPlac), ad(p.DPlac), ad(p.Note), ad(p.Occu)
		for k := range p.AltG {
			p.AltG[k], p.AltS[k] = ad(p.AltG[k]), ad(p.AltS[k])
		}
		if p.Sex != "" {
			p.Sex = ad(p.Sex)
		}
		if taintPointers {
			p.P = ad(p.P)
		}
		for k := range p.Lines {
			// only lines that carry a value (not a pointer)
			if f := strings.SplitN(p.Lines[k], " ", 3); len(f) == 3 && !strings.HasPrefix(f[2], "@") {
				p.Lines[k] = ad(p.Lines[k])
			}
		}
	}
	for i := range t.Families {
		t.Families[i].MPlac = ad(t.Families[i].MPlac)
	}
	for i := range t.Sources {
		t.Sources[i].Title, t.Sources[i].Auth = ad(t.Sources[i].Title), ad(t.Sources[i].Auth)
		for k := range t.Sources[i].Lines {
			t.Sources[i].Lines[k] = ad(t.Sources[i].Lines[k])
		}
		if taintPointers {
			// the pointer as well, and every reference to it
			old := t.Sources[i].P
			t.Sources[i].P = ad(old)
			for q := range t.People {
				for k, l := range t.People[q].Lines {
					t.People[q].Lines[k] = strings.Replace(l, "@"+old+"@", "@"+t.Sources[i].P+"@", 1)
				}
			}
		}
	}
	normDoc(&t)
	return t
}

// Seeded writes n cases of the given kind
func Seeded(w io.Writer, seed int64, kind string, n int) error {
	rng := rand.New(rand.NewSource(seed*7919 + int64(len(kind))))
	bw := bufio.NewWriterSize(w, 1<<20)
	defer bw.Flush()
	enc := json.NewEncoder(bw)
	empty := Doc{People: []Person{}, Families: []Family{}, Sources: []Source{}}
	for i := 0; i < n; i++ {
		c := Case{ID: 1000000 + i, Kind: kind, Twin: empty, Prior: empty, Jobs: []int{1}, FailM: "once"}
		switch kind {
		case "living": // C17
			c.Kind = "site"
			c.Doc = graph(rng, 1+rng.Intn(7), "")
			c.Twin = twinOf(c.Doc)
			c.Opts = subsetOpts(rng, []string{"hide", "placeholder", "hide", "placeholder", "show"}[rng.Intn(5)])
			c.Jobs = []int{[]int{1, 1, 2, 4}[rng.Intn(4)]}
		case "files": // C19
			c.Kind = "site"
			c.Doc = graph(rng, 1+rng.Intn(6), "")
			// busy places: several events of different kinds, dated and undated, at a few shared places
			pool := []string{"Xqx01", "Xqx02, Xqy02", c.Doc.People[0].BPlac}
			for k := range c.Doc.People {
				p := &c.Doc.People[k]
				for e := rng.Intn(4); e > 0; e-- {
					p.Lines = append(p.Lines, "1 "+[]string{"BURI", "CENS", "EMIG", "WILL", "BAPM", "RESI", "EVEN", "GRAD"}[rng.Intn(8)])
					if rng.Intn(2) == 0 {
						p.Lines = append(p.Lines, fmt.Sprintf("2 DATE %d", 1700+rng.Intn(200)))
					}
					if pl := pool[rng.Intn(len(pool))]; pl != "" {
						p.Lines = append(p.Lines, "2 PLAC "+pl)
					}
				}
			}
			if rng.Intn(3) == 0 && len(c.Doc.People) >= 2 {
				// ties: two people with one name and the same undated events at one place, and two spellings of a place
				a, b := &c.Doc.People[0], &c.Doc.People[1]
				b.Given, b.Sur = a.Given, a.Sur
				for _, p := range []*Person{a, b} {
					p.Lines = append(p.Lines, "1 EVEN", "2 PLAC Xqx01", "1 EVEN", "2 PLAC Xqx01", "1 CENS", "2 PLAC XQX01", "1 CENS", "2 PLAC xqx01")
				}
			}
			if rng.Intn(4) > 0 {
				hostile(rng, &c.Doc)
			}
			c.Opts = subsetOpts(rng, []string{"show", "placeholder", "hide"}[rng.Intn(3)])
			c.Jobs = [][]int{{1, 2}, {1, 8}, {1, 16}, {1, 2, 8}}[rng.Intn(4)]
			if rng.Intn(2) == 0 {
				c.Prior = graph(rng, 1+rng.Intn(4), "Q")
			}
			c.Race = i%4 == 0
		case "failstop":
			c.Doc = graph(rng, 1+rng.Intn(5), "")
			c.Opts = subsetOpts(rng, "show")
			c.Jobs = []int{[]int{1, 2, 3, 8}[rng.Intn(4)]}
			c.FailK = 1 + rng.Intn(14)
			c.FailM = []string{"once", "from"}[rng.Intn(2)]
		case "structure": // C18
			base := graph(rng, 1+rng.Intn(4), "")
			for k := range base.People {
				p := &base.People[k]
				switch rng.Intn(4) {
				case 0:
					p.Lines = append(p.Lines, "1 EVEN "+mk("E", 'e', k), "2 TYPE "+mk("F", 'f', k))
				case 1:
					p.Lines = append(p.Lines, "1 BAPM", "2 PLAC "+mk("J", 'j', k), "2 NOTE "+mk("L", 'l', k))
				case 2: // a further name with a type in free text (the "Additional Names" card prints the type)
					p.Lines = append(p.Lines, "1 NAME "+mk("N", 'n', k)+" /"+mk("S", 'o', k)+"/", "2 TYPE of the "+mk("T", 't', k))
				}
				if p.Kind != "deat" && p.Kind != "old" && rng.Intn(2) == 0 {
					p.Kind = "deat"
				}
			}
			for k := range base.Sources {
				src := &base.Sources[k]
				src.Lines = []string{"1 PUBL " + mk("A", 'c', k), "1 ABBR " + mk("B", 'h', k), "1 TEXT " + mk("C", 'i', k), "1 _CUSTOM " + mk("D", 'k', k), "1 REFN " + mk("E", 'm', k)}[:rng.Intn(6)]
			}
			for k := range base.People { // dates that are not dates, and dated events with a value
				if rng.Intn(3) == 0 {
					base.People[k].Lines = append(base.People[k].Lines, "1 CENS", "2 DATE 1 Jan 19"+fmt.Sprint(10+k), "1 GRAD "+mk("F", 'z', k), "2 DATE sometime"+fmt.Sprint(k))
				}
			}
			tp := rng.Intn(3) == 0
			c.Token = []string{Taint, Taint, `"<q7>&'`, `&<q7>`, `'"><q7>`, `<<q7>>`, `<q7>&nbsp;`}[rng.Intn(7)]
			if strings.Contains(c.Token, "nbsp") {
				tp = false // (the page-name escaping of this token is not undone when pages are paired)
			}
			if tp && rng.Intn(2) == 0 { // pointers of individuals as well (the diff report prints them)
				for k := range base.People {
					base.People[k].P = fmt.Sprintf("I%d", k+1)
				}
			}
			c.Doc = tainted(base, c.Token, tp)
			c.Twin = tainted(base, taintBenign, tp)
			c.Prior = graph(rng, 1+rng.Intn(3), "")
			c.Opts = subsetOpts(rng, []string{"show", "placeholder", "hide"}[rng.Intn(3)])
			c.Opts.Individuals, c.Opts.Sources, c.Opts.Surnames, c.Opts.Places = true, true, true, true
		default:
			return fmt.Errorf("unknown kind %q", kind)
		}
		normDoc(&c.Doc)
		if err := enc.Encode(c); err != nil {
			return err
		}
	}
	return nil
}
