// Package publish executes html.Publisher (and the other HTML producers) on materialised family graphs and
// projects what was handed to the FileWriter: names, content hashes, which of the document's strings occur in
// which file, link targets, tag-event skeletons.  It decides nothing: PublishTrace.tla / HtmlStructureTrace.tla do.
//
// Every site is published in its own child process: the surname list is cached in a package variable of
// html (publish_header.go) and a rendering panic happens in a worker goroutine.
package publish

import (
	"bufio"
	"bytes"
	"crypto/sha1"
	"encoding/hex"
	"encoding/json"
	"errors"
	"fmt"
	"io"
	"net/url"
	"os"
	"os/exec"
	"regexp"
	"sort"
	"strconv"
	"strings"
	"sync"
	"time"

	"github.com/elliotchance/gedcom/v39"
	ghtml "github.com/elliotchance/gedcom/v39/html"
	"github.com/elliotchance/gedcom/v39/html/core"
	"github.com/elliotchance/gedcom/v39/q"
	xhtml "golang.org/x/net/html"
)

// ------------------------------------------------------------------ cases (written by TLC or by Seeded)

type Person struct {
	P     string   `json:"p"`    // pointer
	Kind  string   `json:"kind"` // deat | old | nodate | recent | burialonly  (the model decides who is living from this)
	Given string   `json:"given"`
	Sur   string   `json:"sur"`
	AltG  []string `json:"altg"` // alternative names, given / surname
	AltS  []string `json:"alts"`
	Nick  string   `json:"nick"`
	Sex   string   `json:"sex"`
	BPlac string   `json:"bplac"`
	RPlac string   `json:"rplac"`
	DPlac string   `json:"dplac"`
	Note  string   `json:"note"`
	Occu  string   `json:"occu"`
	Day   int      `json:"day"`   // varies the dates inside the range the kind allows
	Lines []string `json:"lines"` // further lines of the record, verbatim (seeded cases only)
}

type Family struct {
	P     string `json:"p"`
	Husb  int    `json:"husb"` // index into People, 0 = none
	Wife  int    `json:"wife"`
	Kids  []int  `json:"kids"`
	MPlac string `json:"mplac"`
	MYear int    `json:"myear"`
}

type Source struct {
	P     string   `json:"p"`
	Title string   `json:"title"`
	Auth  string   `json:"auth"`
	Lines []string `json:"lines"` // further lines of the record, verbatim (seeded cases only)
}

type Doc struct {
	People   []Person `json:"people"`
	Families []Family `json:"families"`
	Sources  []Source `json:"sources"`
}

type Options struct {
	Individuals bool   `json:"individuals"`
	Places      bool   `json:"places"`
	Families    bool   `json:"families"`
	Surnames    bool   `json:"surnames"`
	Sources     bool   `json:"sources"`
	Statistics  bool   `json:"statistics"`
	Living      string `json:"living"`
}

type Case struct {
	ID    int     `json:"id"`
	Kind  string  `json:"kind"` // site | failstop | structure
	Doc   Doc     `json:"doc"`
	Twin  Doc     `json:"twin"`  // site: the same graph with other data for the living people (no people = no twin)
	Prior Doc     `json:"prior"` // site: a document published earlier in the same process (no people = none)
	Opts  Options `json:"opts"`
	Jobs  []int   `json:"jobs"`  // site: numbers of jobs to publish with (first = reference)
	FailK int     `json:"failk"` // failstop: the writer fails at the k-th file (1-based)
	FailM string  `json:"failm"` // once | from
	Race  bool    `json:"race"`  // also run under the race detector with the largest number of jobs
	Token string  `json:"token"` // structure: the token the values of Doc end in
}

const thisYear = 2026 // only used to place "recent" and "old" births well clear of the 100-year rule

func plac(b *strings.Builder, lvl int, p string) {
	if p != "" {
		fmt.Fprintf(b, "%d PLAC %s\n", lvl, p)
	}
}

var months = []string{"Jan", "Feb", "Mar", "Apr", "May", "Jun", "Jul", "Aug", "Sep", "Oct", "Nov", "Dec"}

// Render writes the GEDCOM text of a document
func Render(d Doc) string {
	var b strings.Builder
	b.WriteString("0 HEAD\n1 CHAR UTF-8\n")
	fams := map[int][]string{}
	famc := map[int][]string{}
	for _, f := range d.Families {
		if f.Husb > 0 {
			fams[f.Husb] = append(fams[f.Husb], f.P)
		}
		if f.Wife > 0 {
			fams[f.Wife] = append(fams[f.Wife], f.P)
		}
		for _, k := range f.Kids {
			famc[k] = append(famc[k], f.P)
		}
	}
	for i, p := range d.People {
		fmt.Fprintf(&b, "0 @%s@ INDI\n", p.P)
		if p.Given != "" || p.Sur != "" {
			if p.Sur != "" {
				fmt.Fprintf(&b, "1 NAME %s /%s/\n", p.Given, p.Sur)
			} else {
				fmt.Fprintf(&b, "1 NAME %s\n", p.Given)
			}
			if p.Nick != "" {
				fmt.Fprintf(&b, "2 NICK %s\n", p.Nick)
			}
		}
		for k := range p.AltG {
			fmt.Fprintf(&b, "1 NAME %s /%s/\n", p.AltG[k], p.AltS[k])
		}
		if p.Sex != "" {
			fmt.Fprintf(&b, "1 SEX %s\n", p.Sex)
		}
		day, mon := 1+(p.Day*7+i)%28, months[(p.Day*5+i)%12]
		switch p.Kind {
		case "deat":
			fmt.Fprintf(&b, "1 BIRT\n2 DATE %d %s %d\n", day, mon, 1840+i+p.Day)
			plac(&b, 2, p.BPlac)
			fmt.Fprintf(&b, "1 DEAT\n2 DATE %d %s %d\n", day, mon, 1900+i+p.Day)
			plac(&b, 2, p.DPlac)
		case "old":
			fmt.Fprintf(&b, "1 BIRT\n2 DATE %d %s %d\n", day, mon, 1800+i+p.Day)
			plac(&b, 2, p.BPlac)
		case "nodate":
			if p.BPlac != "" {
				b.WriteString("1 BIRT\n")
				plac(&b, 2, p.BPlac)
			}
		case "recent":
			fmt.Fprintf(&b, "1 BIRT\n2 DATE %d %s %d\n", day, mon, thisYear-40+i+p.Day)
			plac(&b, 2, p.BPlac)
		case "burialonly":
			fmt.Fprintf(&b, "1 BIRT\n2 DATE %d %s %d\n", day, mon, thisYear-60+i+p.Day)
			plac(&b, 2, p.BPlac)
			fmt.Fprintf(&b, "1 BURI\n2 DATE %d %s %d\n", day, mon, thisYear-2)
			plac(&b, 2, p.DPlac)
		}
		if p.RPlac != "" {
			b.WriteString("1 RESI\n")
			plac(&b, 2, p.RPlac)
			if i%2 == 1 { // a place further down than the children of an event
				b.WriteString("1 RESI\n2 ADDR q\n")
				plac(&b, 3, "D"+p.RPlac)
			}
		}
		if p.Note != "" {
			fmt.Fprintf(&b, "1 NOTE %s\n", p.Note)
		}
		if p.Occu != "" {
			fmt.Fprintf(&b, "1 OCCU %s\n", p.Occu)
			if p.RPlac != "" { // a place below something that is not an event
				fmt.Fprintf(&b, "2 PLAC O%s\n", p.RPlac)
			}
		}
		for _, l := range p.Lines {
			b.WriteString(l + "\n")
		}
		for _, f := range fams[i+1] {
			fmt.Fprintf(&b, "1 FAMS @%s@\n", f)
		}
		for _, f := range famc[i+1] {
			fmt.Fprintf(&b, "1 FAMC @%s@\n", f)
		}
	}
	for _, f := range d.Families {
		fmt.Fprintf(&b, "0 @%s@ FAM\n", f.P)
		if f.Husb > 0 {
			fmt.Fprintf(&b, "1 HUSB @%s@\n", d.People[f.Husb-1].P)
		}
		if f.Wife > 0 {
			fmt.Fprintf(&b, "1 WIFE @%s@\n", d.People[f.Wife-1].P)
		}
		for _, k := range f.Kids {
			fmt.Fprintf(&b, "1 CHIL @%s@\n", d.People[k-1].P)
		}
		if f.MYear > 0 || f.MPlac != "" {
			b.WriteString("1 MARR\n")
			if f.MYear > 0 {
				fmt.Fprintf(&b, "2 DATE %d\n", f.MYear)
			}
			plac(&b, 2, f.MPlac)
		}
	}
	for _, s := range d.Sources {
		fmt.Fprintf(&b, "0 @%s@ SOUR\n", s.P)
		if s.Title != "" {
			fmt.Fprintf(&b, "1 TITL %s\n", s.Title)
		}
		if s.Auth != "" {
			fmt.Fprintf(&b, "1 AUTH %s\n", s.Auth)
		}
		for _, l := range s.Lines {
			b.WriteString(l + "\n")
		}
	}
	b.WriteString("0 TRLR\n")
	return b.String()
}

// Universe is every distinct string a case's documents carry (the model decides whose they are)
func Universe(ds ...Doc) []string {
	set := map[string]bool{}
	for _, d := range ds {
		for _, p := range d.People {
			for _, s := range append(append([]string{p.Given, p.Sur, p.Nick, p.BPlac, p.RPlac, p.DPlac, p.Note, p.Occu}, p.AltG...), p.AltS...) {
				set[s] = true
			}
		}
		for _, f := range d.Families {
			set[f.MPlac] = true
		}
		for _, s := range d.Sources {
			set[s.Title], set[s.Auth] = true, true
		}
	}
	delete(set, "")
	out := []string{}
	for s := range set {
		out = append(out, s)
	}
	sort.Strings(out)
	return out
}

// ------------------------------------------------------------------ one publish run, in a child process

type Job struct {
	Mode     string   `json:"mode"`  // site | skeleton | extras
	Texts    []string `json:"texts"` // documents published one after the other in this process; the last one is observed
	Opts     Options  `json:"opts"`
	Jobs     int      `json:"jobs"`
	FailK    int      `json:"failk"`
	FailM    string   `json:"failm"`
	Universe []string `json:"universe"`
	Detail   bool     `json:"detail"` // record strings found and links per file
	Taint    string   `json:"taint"`
	GoMax    int      `json:"gomax"`    // GOMAXPROCS of the child (0 = 4)
	EditFrom string   `json:"editfrom"` // instead of decoding the text: decode this one, publish it, delete the marked DEAT events, then publish as asked
	Both     bool     `json:"both"`     // with First: both publishers are created before the first one publishes
	First    string   `json:"first"`    // the decoded document is first published with this visibility, then as asked (same *Document)
}

type FileObs struct {
	Name   string   `json:"name"`
	NameCP []int    `json:"namecp"` // the code points of the name
	Group  string   `json:"group"`  // index (individuals-*) | fixed (places, families, ...) | page
	Sha    string   `json:"sha"`
	Found  []string `json:"found"` // strings of the universe that occur in the file (any letter case)
	Links  []string `json:"links"` // targets of href / location.href, fragment removed, external ones dropped
	Ev     []Event  `json:"ev"`    // tag-event skeleton (mode skeleton)
	CID    string   `json:"cid"`   // the name without the taint / benign token and punctuation: pairs the pages of the two documents
	Raw    bool     `json:"raw"`   // the taint token occurs unescaped
}

type Run struct {
	Variant string     `json:"variant"`
	Files   []FileObs  `json:"files"`
	Writes  int        `json:"writes"` // calls of WriteFile, failed ones included
	Err     string     `json:"err"`
	Hung    bool       `json:"hung"`
	Died    string     `json:"died"`  // the child did not survive: first line of what it printed
	Races   [][]string `json:"races"` // per reported data race: the repository functions on its two stacks
}

// Event is one token of a page: k = s (start tag) | e (end tag) | v (self-closing) | t (text) | c (comment) | d (doctype)
type Event struct {
	K string   `json:"k"`
	N string   `json:"n"`
	A []string `json:"a"`
}

func group(name string) string {
	switch {
	case strings.HasPrefix(name, "individuals-"):
		return "index"
	case strings.HasPrefix(name, "diff-") || strings.HasPrefix(name, "query-"):
		return "extra"
	case name == "places.html" || name == "families.html" || name == "surnames.html" || name == "sources.html" || name == "statistics.html":
		return "fixed"
	}
	return "page"
}

var nonAlnum = regexp.MustCompile(`[^a-zA-Z0-9]+`)
var hexSpecial = regexp.MustCompile(`-(3c|3e|22|27|26)`)

func cid(name string) string {
	// the special characters of a token as PageSource writes them (dash and hexadecimal value)
	name = hexSpecial.ReplaceAllString(name, "")
	return strings.Replace(strings.Replace(nonAlnum.ReplaceAllString(name, ""), "q7nbsp", "", -1), "q7", "", -1)
}

type memWriter struct {
	mu     sync.Mutex
	files  []FileObs
	raw    map[int][]byte
	calls  int
	failK  int
	failM  string
	record bool
}

var errInjected = errors.New("injected write failure")

func (w *memWriter) WriteFile(file *core.File) error {
	w.mu.Lock()
	w.calls++
	n := w.calls
	w.mu.Unlock()
	if w.failK > 0 && (n == w.failK || (w.failM == "from" && n > w.failK)) {
		return errInjected
	}
	var buf bytes.Buffer
	file.Component.WriteHTMLTo(&buf)
	if !w.record {
		return nil
	}
	sum := sha1.Sum(buf.Bytes())
	w.mu.Lock()
	cps := []int{}
	for _, r := range file.Name {
		cps = append(cps, int(r))
	}
	w.files = append(w.files, FileObs{Name: file.Name, NameCP: cps, Group: group(file.Name), CID: cid(file.Name), Sha: hex.EncodeToString(sum[:8]),
		Found: []string{}, Links: []string{}, Ev: []Event{}})
	w.raw[len(w.files)-1] = buf.Bytes()
	w.mu.Unlock()
	return nil
}

func options(o Options) *ghtml.PublishShowOptions {
	return &ghtml.PublishShowOptions{ShowIndividuals: o.Individuals, ShowPlaces: o.Places, ShowFamilies: o.Families, ShowSurnames: o.Surnames,
		ShowSources: o.Sources, ShowStatistics: o.Statistics, LivingVisibility: ghtml.NewLivingVisibility(o.Living)}
}

var locRe = regexp.MustCompile(`location\.href\s*=\s*'([^']*)'`)

func project(f *FileObs, raw []byte, job *Job) {
	low := strings.ToLower(string(raw) + "\n" + f.Name)
	if job.Detail {
		for _, s := range job.Universe {
			if strings.Contains(low, strings.ToLower(s)) {
				f.Found = append(f.Found, s)
			}
		}
	}
	links := map[string]bool{}
	skel := job.Mode == "skeleton" || job.Mode == "extras"
	z := xhtml.NewTokenizer(bytes.NewReader(raw))
	for {
		tt := z.Next()
		if tt == xhtml.ErrorToken {
			break
		}
		switch tt {
		case xhtml.StartTagToken, xhtml.SelfClosingTagToken:
			tok := z.Token()
			keys := []string{}
			for _, a := range tok.Attr {
				keys = append(keys, a.Key)
				if a.Key == "href" || a.Key == "src" {
					links[a.Val] = true
				}
				if m := locRe.FindStringSubmatch(a.Val); m != nil {
					links[m[1]] = true
				}
			}
			if skel {
				c := "s"
				if tt == xhtml.SelfClosingTagToken {
					c = "v"
				}
				f.Ev = append(f.Ev, Event{c, tok.Data, keys})
			}
		case xhtml.EndTagToken:
			if skel {
				f.Ev = append(f.Ev, Event{"e", z.Token().Data, []string{}})
			}
		case xhtml.TextToken:
			if skel && strings.TrimSpace(string(z.Text())) != "" && (len(f.Ev) == 0 || f.Ev[len(f.Ev)-1].K != "t") {
				f.Ev = append(f.Ev, Event{"t", "", []string{}})
			}
		case xhtml.CommentToken:
			if skel {
				f.Ev = append(f.Ev, Event{"c", "", []string{}})
			}
		case xhtml.DoctypeToken:
			if skel {
				f.Ev = append(f.Ev, Event{"d", "", []string{}})
			}
		}
	}
	if job.Detail {
		for l := range links {
			if k := strings.Index(l, "#"); k > 0 {
				l = l[:k]
			} else if k == 0 {
				l = "#" // a fragment of the page itself
			}
			if strings.HasPrefix(l, "http:") || strings.HasPrefix(l, "https:") || strings.HasPrefix(l, "//") || strings.HasPrefix(l, "mailto:") || strings.HasPrefix(l, "data:") {
				continue
			}
			if u, err := url.PathUnescape(l); err == nil {
				l = u
			}
			f.Links = append(f.Links, l)
		}
		sort.Strings(f.Links)
	}
	if job.Taint != "" {
		// the token verbatim, or one of its special characters verbatim next to its letters
		k := strings.Index(job.Taint, "q7")
		danger := []string{job.Taint}
		if k > 0 {
			danger = append(danger, job.Taint[k-1:k+2])
		}
		if k >= 0 && k+2 < len(job.Taint) {
			danger = append(danger, job.Taint[k:k+3])
		}
		for _, d := range danger {
			if bytes.Contains(raw, []byte(d)) {
				f.Raw = true
			}
		}
	}
}

// Child publishes the job read from stdin and prints one Run
func Child(r io.Reader, w io.Writer) error {
	var job Job
	if err := json.NewDecoder(r).Decode(&job); err != nil {
		return err
	}
	run := Run{Files: []FileObs{}, Races: [][]string{}}
	var mw *memWriter
	for i, text := range job.Texts {
		last := i == len(job.Texts)-1
		if last && job.EditFrom != "" {
			text = job.EditFrom
		}
		doc, err := gedcom.NewDocumentFromString(text)
		if err != nil {
			return fmt.Errorf("materialised document does not parse: %v", err)
		}
		if last && job.EditFrom != "" {
			// a history on one document in memory: published while some people were dead, then edited so that they live
			o := job.Opts
			o.Living = "show"
			if job.Jobs%2 == 1 {
				o.Individuals, o.Places, o.Surnames, o.Sources = false, false, false, false // only pages that look at few things
				o.Families, o.Statistics = true, true
			}
			ghtml.NewPublisher(doc, options(o)).Publish(&memWriter{raw: map[int][]byte{}}, job.Jobs)
			for _, ind := range doc.Individuals() {
				for _, n := range ind.Nodes() {
					if n.Tag().Is(gedcom.TagDeath) && len(n.Nodes()) == 1 && n.Nodes()[0].Value() == EditMarkDate {
						ind.DeleteNode(n)
					}
				}
			}
		}
		mw = &memWriter{raw: map[int][]byte{}, record: last}
		if last {
			mw.failK, mw.failM = job.FailK, job.FailM
		}
		switch job.Mode {
		case "extras": // the other producers of HTML: the diff report and the html query formatter
			if last {
				extras(doc, job.Texts[0], mw)
			}
			continue
		}
		var asked *ghtml.Publisher
		if last && job.First != "" {
			o := job.Opts
			o.Living = job.First
			first := ghtml.NewPublisher(doc, options(o))
			if job.Both {
				// both publishers exist before either publishes (a complete and a public site made from one document)
				asked = ghtml.NewPublisher(doc, options(job.Opts))
			}
			first.Publish(&memWriter{raw: map[int][]byte{}}, job.Jobs)
		}
		if asked == nil {
			asked = ghtml.NewPublisher(doc, options(job.Opts))
		}
		done := make(chan error, 1)
		go func() {
			done <- asked.Publish(mw, job.Jobs)
		}()
		select {
		case err := <-done:
			if last && err != nil {
				run.Err = err.Error()
			}
		case <-time.After(20 * time.Second):
			if last {
				run.Hung = true
			}
		}
	}
	if dir := os.Getenv("VH_DUMP_DIR"); dir != "" { // debugging aid: the pages themselves
		for i := range mw.files {
			os.WriteFile(dir+"/"+strings.Replace(mw.files[i].Name, "/", "_", -1), mw.raw[i], 0644)
		}
	}
	mw.mu.Lock()
	run.Writes = mw.calls
	for i := range mw.files {
		f := mw.files[i]
		project(&f, mw.raw[i], &job)
		run.Files = append(run.Files, f)
	}
	mw.mu.Unlock()
	sort.SliceStable(run.Files, func(i, j int) bool { return run.Files[i].Name < run.Files[j].Name })
	return json.NewEncoder(w).Encode(run)
}

func extras(doc *gedcom.Document, otherText string, mw *memWriter) {
	// the diff report: the document against itself (everybody matches) and against an empty one (nobody does), so that
	// which rows there are does not depend on how similar the values are
	empty := gedcom.NewDocument()
	for _, other := range []*gedcom.Document{doc, empty} {
		for _, show := range []string{ghtml.DiffPageShowAll, ghtml.DiffPageShowOnlyMatches, ghtml.DiffPageShowSubset} {
			co := gedcom.NewIndividualNodesCompareOptions()
			cmp := doc.Individuals().Compare(other.Individuals(), co)
			progress := make(chan gedcom.Progress)
			go func() {
				for range progress {
				}
			}()
			page := ghtml.NewDiffPage(cmp, &gedcom.FilterFlags{}, "", show, ghtml.DiffPageSortWrittenName, progress, co, ghtml.LivingVisibilityShow)
			mw.WriteFile(core.NewFile(fmt.Sprintf("diff-%s-%d.html", show, len(other.Individuals())), page))
			close(progress)
		}
	}
	// query results in HTML format
	for k, query := range []string{".Individuals | .Name | .String", ".Individuals | { name: .Name | .String, born: .Birth | .String, place: .Births | .Places }",
		".Individuals", ".Sources | { t: .Title }", ".Families | .String", ".Places | .String", ".Individuals | .Nodes"} {
		eng, err := q.NewParser().ParseString(query)
		if err != nil {
			continue
		}
		res, err := eng.Evaluate([]*gedcom.Document{doc})
		if err != nil {
			continue
		}
		var buf bytes.Buffer
		(&q.HTMLFormatter{Writer: &buf}).Write(res)
		mw.WriteFile(core.NewFile("query-"+strconv.Itoa(k)+".html", rawComponent(buf.Bytes())))
	}
}

type rawComponent []byte

func (c rawComponent) WriteHTMLTo(w io.Writer) (int64, error) {
	n, err := w.Write(c)
	return int64(n), err
}

// ------------------------------------------------------------------ the parent: one observation per case

type Obs struct {
	Case Case  `json:"case"`
	Runs []Run `json:"runs"`
}

var raceRe = regexp.MustCompile(`(?m)^  ([A-Za-z0-9_./()*\-]+)\(\)$`)

func spawn(job Job, race bool) Run {
	bin := os.Args[0]
	if race {
		bin = os.Getenv("VH_RACE_BIN")
	}
	in, _ := json.Marshal(job)
	cmd := exec.Command(bin, "publish", "child")
	cmd.Stdin = bytes.NewReader(in)
	var out, errb bytes.Buffer
	cmd.Stdout, cmd.Stderr = &out, &errb
	gomax := job.GoMax
	if gomax == 0 {
		gomax = 4
	}
	cmd.Env = append(os.Environ(), "GORACE=halt_on_error=0 exitcode=0", "GOMAXPROCS="+strconv.Itoa(gomax))
	done := make(chan error, 1)
	if err := cmd.Start(); err != nil {
		return Run{Died: "cannot start child: " + err.Error(), Files: []FileObs{}, Races: [][]string{}}
	}
	go func() { done <- cmd.Wait() }()
	var werr error
	select {
	case werr = <-done:
	case <-time.After(90 * time.Second):
		cmd.Process.Kill()
		<-done
		return Run{Hung: true, Files: []FileObs{}, Races: [][]string{}}
	}
	var run Run
	if werr != nil || json.Unmarshal(out.Bytes(), &run) != nil {
		msg := errb.String()
		first := ""
		for _, l := range strings.Split(msg, "\n") {
			if strings.HasPrefix(l, "panic:") || strings.HasPrefix(l, "fatal error:") {
				first = l
				break
			}
		}
		site := ""
		if m := regexp.MustCompile(`(?m)^github\.com/elliotchance/gedcom/v39[^\s(]*`).FindString(msg); m != "" {
			site = " at " + strings.TrimPrefix(m, "github.com/elliotchance/gedcom/v39")
		}
		if first == "" {
			first = "child failed: " + lastLine(msg)
		}
		return Run{Died: first + site, Files: []FileObs{}, Races: [][]string{}}
	}
	if race {
		seen := map[string]bool{}
		for _, blk := range strings.Split(errb.String(), "WARNING: DATA RACE")[1:] {
			blk = strings.Split(blk, "==================")[0]
			// only the two accesses (not where the goroutines were created)
			if k := strings.Index(blk, "\nGoroutine "); k > 0 {
				blk = blk[:k]
			}
			fns := []string{}
			for _, m := range raceRe.FindAllStringSubmatch(blk, -1) {
				if strings.Contains(m[1], "elliotchance/gedcom") {
					fn := strings.TrimPrefix(strings.TrimPrefix(m[1], "github.com/elliotchance/gedcom/v39"), ".")
					fn = regexp.MustCompile(`\.func\d+(\.\d+)*$|\.gowrap\d+$`).ReplaceAllString(fn, "")
					if len(fns) == 0 || fns[len(fns)-1] != fn {
						fns = append(fns, fn)
					}
				}
			}
			key := strings.Join(fns, " ")
			if !seen[key] && len(fns) > 0 {
				seen[key] = true
				run.Races = append(run.Races, fns)
			}
		}
		sort.Slice(run.Races, func(i, j int) bool { return strings.Join(run.Races[i], " ") < strings.Join(run.Races[j], " ") })
	}
	return run
}

func lastLine(s string) string {
	ls := strings.Split(strings.TrimSpace(s), "\n")
	return ls[len(ls)-1]
}

func hasPeople(d Doc) bool { return len(d.People) > 0 || len(d.Sources) > 0 }

func observe(c Case) Obs {
	o := Obs{Case: c, Runs: []Run{}}
	uni := Universe(c.Doc, c.Twin)
	text := Render(c.Doc)
	add := func(variant string, job Job, race bool) {
		r := spawn(job, race)
		r.Variant = variant
		o.Runs = append(o.Runs, r)
	}
	switch c.Kind {
	case "site":
		jobs := c.Jobs
		if len(jobs) == 0 {
			jobs = []int{1}
		}
		add("ref", Job{Mode: "site", Texts: []string{text}, Opts: c.Opts, Jobs: jobs[0], Universe: uni, Detail: true}, false)
		for k, j := range jobs[1:] {
			// more workers than processors, fewer, and as many
			add("jobs"+strconv.Itoa(j), Job{Mode: "site", Texts: []string{text}, Opts: c.Opts, Jobs: j, GoMax: []int{1, 16, 2}[(k+j)%3]}, false)
		}
		add("again", Job{Mode: "site", Texts: []string{text}, Opts: c.Opts, Jobs: jobs[0]}, false)
		if o := c.Opts; !(o.Individuals && o.Places && o.Families && o.Surnames && o.Sources && o.Statistics) {
			// the same site with every page group on: which names exist at all
			all := Options{true, true, true, true, true, true, o.Living}
			add("allgroups", Job{Mode: "site", Texts: []string{text}, Opts: all, Jobs: jobs[0]}, false)
			if !o.Individuals || !o.Sources {
				// ... and with only the groups that links lead into switched on as well (the names of the pages of
				// individuals depend on whether places are published)
				lg := o
				lg.Individuals, lg.Sources = true, true
				add("linkgroups", Job{Mode: "site", Texts: []string{text}, Opts: lg, Jobs: jobs[0]}, false)
			}
		}
		if hasPeople(c.Twin) {
			add("twin", Job{Mode: "site", Texts: []string{Render(c.Twin)}, Opts: c.Opts, Jobs: jobs[0]}, false)
		}
		if c.Opts.Living != "show" {
			// the same decoded document published with everybody shown first, in the same process
			add("aftershow", Job{Mode: "site", Texts: []string{text}, Opts: c.Opts, Jobs: jobs[0], Universe: uni, Detail: true, First: "show"}, false)
			// ... and with both publishers created before the complete site is published
			add("bothfirst", Job{Mode: "site", Texts: []string{text}, Opts: c.Opts, Jobs: jobs[0], Universe: uni, Detail: true, First: "show", Both: true}, false)
		}
		if c.Opts.Living != "show" {
			// published while the living people still had a death event, which is then deleted from the document in memory
			dead := c.Doc
			dead.People = append([]Person{}, c.Doc.People...)
			for k := range dead.People {
				if kd := dead.People[k].Kind; kd == "nodate" || kd == "recent" || kd == "burialonly" {
					dead.People[k].Lines = append(append([]string{}, dead.People[k].Lines...), "1 DEAT", "2 DATE "+EditMarkDate)
				}
			}
			add("afteredit", Job{Mode: "site", Texts: []string{text}, Opts: c.Opts, Jobs: jobs[0], Universe: uni, Detail: true, EditFrom: Render(dead)}, false)
		}
		if hasPeople(c.Prior) {
			add("prior", Job{Mode: "site", Texts: []string{Render(c.Prior), text}, Opts: c.Opts, Jobs: jobs[0]}, false)
		}
		if c.Race && os.Getenv("VH_RACE_BIN") != "" {
			add("race", Job{Mode: "site", Texts: []string{text}, Opts: c.Opts, Jobs: jobs[len(jobs)-1]}, true)
		}
	case "failstop":
		add("ok", Job{Mode: "site", Texts: []string{text}, Opts: c.Opts, Jobs: c.Jobs[0]}, false)
		add("fail", Job{Mode: "site", Texts: []string{text}, Opts: c.Opts, Jobs: c.Jobs[0], FailK: c.FailK, FailM: c.FailM}, false)
	case "structure":
		// Doc carries the tainted values, Twin the benign ones
		taint := c.Token
		if taint == "" {
			taint = Taint
		}
		add("taint", Job{Mode: "skeleton", Texts: []string{text}, Opts: c.Opts, Jobs: 1, Taint: taint}, false)
		add("benign", Job{Mode: "skeleton", Texts: []string{Render(c.Twin)}, Opts: c.Opts, Jobs: 1}, false)
		add("taint-extras", Job{Mode: "extras", Texts: []string{Render(c.Prior), text}, Opts: c.Opts, Jobs: 1, Taint: taint}, false)
		add("benign-extras", Job{Mode: "extras", Texts: []string{Render(c.Prior), Render(c.Twin)}, Opts: c.Opts, Jobs: 1}, false)
	}
	return o
}

// EditMarkDate marks the death events that the afteredit variant deletes again
const EditMarkDate = "1 Jan 2000"

// Taint is the token every value of a tainted document ends in
const Taint = `<q7"'&>`

// RunAll reads cases (ndjson) and writes observations, 16 children at a time, in case order
func RunAll(r io.Reader, w io.Writer) error {
	sc := bufio.NewScanner(r)
	sc.Buffer(make([]byte, 1<<20), 1<<26)
	cases := []Case{}
	for sc.Scan() {
		if len(bytes.TrimSpace(sc.Bytes())) == 0 {
			continue
		}
		var c Case
		if err := json.Unmarshal(sc.Bytes(), &c); err != nil {
			return fmt.Errorf("bad case: %v", err)
		}
		cases = append(cases, c)
	}
	out := make([]Obs, len(cases))
	var wg sync.WaitGroup
	sem := make(chan bool, 12)
	for i := range cases {
		wg.Add(1)
		sem <- true
		go func(i int) {
			defer wg.Done()
			out[i] = observe(cases[i])
			<-sem
		}(i)
	}
	wg.Wait()
	bw := bufio.NewWriterSize(w, 1<<20)
	defer bw.Flush()
	enc := json.NewEncoder(bw)
	for i := range out {
		normalise(&out[i])
		if err := enc.Encode(out[i]); err != nil {
			return err
		}
	}
	return nil
}

// the Json module of TLC rejects null: every list is non-nil
func normDoc(d *Doc) {
	if d.People == nil {
		d.People = []Person{}
	}
	if d.Families == nil {
		d.Families = []Family{}
	}
	if d.Sources == nil {
		d.Sources = []Source{}
	}
	for i := range d.People {
		if d.People[i].AltG == nil {
			d.People[i].AltG = []string{}
		}
		if d.People[i].AltS == nil {
			d.People[i].AltS = []string{}
		}
		if d.People[i].Lines == nil {
			d.People[i].Lines = []string{}
		}
	}
	for i := range d.Sources {
		if d.Sources[i].Lines == nil {
			d.Sources[i].Lines = []string{}
		}
	}
	for i := range d.Families {
		if d.Families[i].Kids == nil {
			d.Families[i].Kids = []int{}
		}
	}
}

func normalise(o *Obs) {
	normDoc(&o.Case.Doc)
	normDoc(&o.Case.Twin)
	normDoc(&o.Case.Prior)
	if o.Case.Jobs == nil {
		o.Case.Jobs = []int{}
	}
	for i := range o.Runs {
		r := &o.Runs[i]
		if r.Files == nil {
			r.Files = []FileObs{}
		}
		if r.Races == nil {
			r.Races = [][]string{}
		}
		for k := range r.Files {
			f := &r.Files[k]
			if f.Found == nil {
				f.Found = []string{}
			}
			if f.Links == nil {
				f.Links = []string{}
			}
			if f.Ev == nil {
				f.Ev = []Event{}
			}
			if f.NameCP == nil {
				f.NameCP = []int{}
			}
			for q := range f.Ev {
				if f.Ev[q].A == nil {
					f.Ev[q].A = []string{}
				}
			}
		}
	}
}

func Main(args []string) error {
	seed, _ := strconv.ParseInt(os.Getenv("VERIF_SEED"), 10, 64)
	if len(args) == 0 {
		return fmt.Errorf("publish: missing subcommand")
	}
	num := func(i, def int) int {
		if len(args) > i {
			if v, err := strconv.Atoi(args[i]); err == nil {
				return v
			}
		}
		return def
	}
	switch args[0] {
	case "child":
		return Child(os.Stdin, os.Stdout)
	case "run":
		return RunAll(os.Stdin, os.Stdout)
	case "seeded":
		return Seeded(os.Stdout, seed, args[1], num(2, 100))
	case "pagenames":
		return PageNamesReplay(os.Stdin, os.Stdout)
	case "render":
		var c Case
		if err := json.NewDecoder(os.Stdin).Decode(&c); err != nil {
			return err
		}
		fmt.Print(Render(c.Doc))
		return nil
	}
	return fmt.Errorf("publish: unknown subcommand %q", args[0])
}
