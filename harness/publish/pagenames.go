package publish

// Binding of PageNames.tla to html.PageSource: every pointer TLC enumerates is given to the real function; the name must
// be the one the specification computes (on which TLC has checked plainness, non-reservedness and injectivity).

import (
	"bufio"
	"encoding/json"
	"fmt"
	"io"
	"regexp"
	"strings"

	"github.com/elliotchance/gedcom/v39"
	ghtml "github.com/elliotchance/gedcom/v39/html"
)

type pnCase struct {
	Ptr  []int `json:"ptr"`
	Name []int `json:"name"`
}

var plainName = regexp.MustCompile(`^[A-Za-z0-9_-]+\.html$`)

func bstr(b []int) string {
	o := make([]byte, len(b))
	for i, c := range b {
		o[i] = byte(c)
	}
	return string(o)
}

func PageNamesReplay(r io.Reader, w io.Writer) error {
	sc := bufio.NewScanner(r)
	sc.Buffer(make([]byte, 1<<20), 1<<24)
	bw := bufio.NewWriter(w)
	defer bw.Flush()
	enc := json.NewEncoder(bw)
	n, bad, badModel, badProp := 0, 0, 0, 0
	seen := map[string]string{}
	fixed := map[string]bool{ghtml.PagePlaces(): true, ghtml.PageFamilies(): true, ghtml.PageSources(): true, ghtml.PageStatistics(): true, ghtml.PageSurnames(): true}
	for sc.Scan() {
		var c pnCase
		if err := json.Unmarshal(sc.Bytes(), &c); err != nil {
			return fmt.Errorf("bad case: %v", err)
		}
		n++
		ptr := bstr(c.Ptr)
		got := ghtml.PageSource(gedcom.NewSourceNode("", ptr))
		want := bstr(c.Name) + ".html"
		why := ""
		switch {
		case !plainName.MatchString(got):
			why = "file-names-are-plain"
		case fixed[got] || strings.HasPrefix(got, "individuals-"):
			why = "no-two-pages-share-a-name (a fixed page)"
		case seen[got] != "" && seen[got] != ptr:
			why = "no-two-pages-share-a-name"
		case got != want:
			why = "model"
		}
		if why != "" {
			bad++
			if why == "model" {
				badModel++
			} else {
				badProp++
			}
			if (why == "model" && badModel <= 100) || (why != "model" && badProp <= 300) {
				enc.Encode(map[string]interface{}{"why": why, "case": c, "obs": map[string]string{"pointer": ptr, "got": got, "want": want, "other": seen[got]}})
			}
		}
		seen[got] = ptr
	}
	enc.Encode(map[string]int{"summary": 1, "cases": n, "mismatches": bad})
	return sc.Err()
}
