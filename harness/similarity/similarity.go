// Package similarity binds SimilarityOps.tla / Similarity.tla (C12) to the
// similarity functions of the library.
//
//	vh similarity replay     stdin: CASE records (strings: {x,y,p,jw}; dates: {a,b,max,sim})
//	vh similarity record N   seeded observations of every layer for SimilarityTrace.tla
package similarity

import (
	"bufio"
	"encoding/json"
	"fmt"
	"io"
	"math"
	"math/rand"
	"os"
	"strconv"
	"strings"

	"github.com/elliotchance/gedcom/v39"
	"verif/harness/proj"
)

type strCase struct {
	Kind string `json:"kind"`
	X    []int  `json:"x"`
	Y    []int  `json:"y"`
	P    int    `json:"p"`
	JW   []int  `json:"jw"`
	// dates
	A   []int `json:"a"` // [y, m, d] (0 = not given)
	B   []int `json:"b"`
	Max int   `json:"max"`
	Sim []int `json:"sim"`
}

func letters(s []int) string {
	b := make([]byte, len(s))
	for i, c := range s {
		b[i] = byte('a' + c - 1)
	}
	return string(b)
}

// decorate adds what StringSimilarity promises to ignore: case, punctuation, extra spacing
func decorate(s string, k int) string {
	switch k % 4 {
	case 0:
		return s
	case 1:
		return strings.ToUpper(s)
	case 2:
		return "  " + strings.Join(strings.Split(s, ""), "'") + " ."
	}
	return "/" + s + "/ -"
}

var monthNames = []string{"", "Jan", "Feb", "Mar", "Apr", "May", "Jun", "Jul", "Aug", "Sep", "Oct", "Nov", "Dec"}

func dateText(t []int) string {
	switch {
	case t[1] == 0:
		return strconv.Itoa(t[0])
	case t[2] == 0:
		return fmt.Sprintf("%s %d", monthNames[t[1]], t[0])
	}
	return fmt.Sprintf("%d %s %d", t[2], monthNames[t[1]], t[0])
}

func unit(v float64) bool { return v >= 0 && v <= 1 && !math.IsNaN(v) }

func Replay(r io.Reader, w io.Writer) error {
	sc := bufio.NewScanner(r)
	sc.Buffer(make([]byte, 1<<20), 1<<24)
	bw := bufio.NewWriter(w)
	defer bw.Flush()
	enc := json.NewEncoder(bw)
	n, bad := 0, 0
	report := func(why string, c strCase, obs interface{}) {
		bad++
		if bad <= 500 {
			enc.Encode(map[string]interface{}{"why": why, "case": c, "obs": obs})
		}
	}
	for sc.Scan() {
		var c strCase
		if err := json.Unmarshal(sc.Bytes(), &c); err != nil {
			return fmt.Errorf("bad case: %v", err)
		}
		n++
		if c.Kind == "date" {
			a, b := gedcom.NewDateNode(dateText(c.A)), gedcom.NewDateNode(dateText(c.B))
			s12 := a.Similarity(b, float64(c.Max))
			s21 := b.Similarity(a, float64(c.Max))
			r12 := a.DateRange().Similarity(b.DateRange(), float64(c.Max))
			exp := float64(c.Sim[0]) / float64(c.Sim[1])
			switch {
			case !unit(s12) || !unit(s21):
				report("date similarity outside [0,1]", c, []float64{s12, s21})
			case math.Abs(s12-s21) > 1e-12:
				report("date similarity depends on operand order", c, []float64{s12, s21})
			case math.Abs(s12-exp) > 1e-9 || r12 != s12:
				report("date similarity is not the parabola of the distance in years", c, []float64{s12, exp})
			}
			continue
		}
		x, y := letters(c.X), letters(c.Y)
		exp := float64(c.JW[0]) / float64(c.JW[1])
		jw12 := gedcom.JaroWinkler(x, y, 0, c.P)
		jw21 := gedcom.JaroWinkler(y, x, 0, c.P)
		s12 := gedcom.StringSimilarity(decorate(x, n), decorate(y, n/4), 0, c.P)
		s21 := gedcom.StringSimilarity(decorate(y, n/16), decorate(x, n/64), 0, c.P)
		switch {
		case !unit(jw12) || !unit(jw21) || !unit(s12) || !unit(s21):
			report("string similarity outside [0,1]", c, []float64{jw12, jw21, s12, s21})
		case math.Abs(jw12-jw21) > 1e-12 || math.Abs(s12-s21) > 1e-12:
			report("string similarity depends on operand order", c, []float64{jw12, jw21, s12, s21})
		case x == y && x != "" && (jw12 != 1 || s12 != 1):
			report("identical non-empty names do not score 1", c, []float64{jw12, s12})
		case math.Abs(jw12-exp) > 1e-9:
			report("JaroWinkler differs from the specification", c, []float64{jw12, exp})
		case math.Abs(s12-exp) > 1e-9:
			report("StringSimilarity is affected by case, punctuation or spacing", c, []float64{s12, exp})
		}
	}
	enc.Encode(map[string]int{"summary": 1, "cases": n, "mismatches": bad})
	return sc.Err()
}

// ---------------------------------------------------------------- recording

const scale = 10000

func sc4(v float64) int { return int(math.Round(v * scale)) }

type Obs struct {
	Kind string `json:"kind"`
	// booleans judged on the floats themselves
	Unit  bool `json:"unit"`
	Sym   bool `json:"sym"`
	Ident bool `json:"ident"` // identity clause holds or does not apply
	// name layer
	A      []int `json:"a"`
	B      []int `json:"b"`
	Prefix int   `json:"prefix"`
	S      int   `json:"s"` // result, scaled
	// date layer: distance scaled by 1000, max years
	Dist3 int `json:"dist3"`
	Max   int `json:"max"`
	// individual layer
	NameSims []int `json:"namesims"`
	Birth    int   `json:"birth"`
	Death    int   `json:"death"`
	Ratio    int   `json:"ratio"`
	Missing  bool  `json:"missing"` // one side nil
	// list layer
	M      [][]int `json:"m"`
	MinSim int     `json:"minsim"`
	// weighted
	W     map[string]int `json:"w"`
	Parts []int          `json:"parts"`
}

func empty() Obs {
	return Obs{A: []int{}, B: []int{}, NameSims: []int{}, M: [][]int{}, W: map[string]int{"ind": 0, "par": 0, "sp": 0, "ch": 0}, Parts: []int{}, Ident: true}
}

var given = []string{"John", "Jon", "Jane", "Mary Ann", "MARY", "Elliot", "Eliot", "José", "Zoë", "O'Neil", "Anne-Marie", "J.", "", "X Æ", "Bob"}
var surn = []string{"Smith", "Smyth", "Smithe", "Chance", "Chancé", "van der Berg", "Vanderberg", "O'Brien", "Obrien", "Li", "Lee", "", "Müller", "Muller"}

func randName(rng *rand.Rand) string {
	n := given[rng.Intn(len(given))] + " /" + surn[rng.Intn(len(surn))] + "/"
	switch rng.Intn(6) {
	case 0:
		n = strings.ToUpper(n)
	case 1:
		n = "  " + n + "  Jr."
	case 2:
		n = strings.Replace(n, " ", "   ", -1)
	}
	return n
}

func clean(s string) string {
	// what the documentation says is ignored: letter case, punctuation, extra spacing.  The driver needs
	// this only to know when two names are "identical"; the specification has its own cleaning.
	var b strings.Builder
	for _, r := range strings.ToLower(s) {
		if (r >= 'a' && r <= 'z') || (r >= '0' && r <= '9') || r == ' ' {
			b.WriteRune(r)
		}
	}
	return strings.Join(strings.Fields(b.String()), " ")
}

func person(doc *gedcom.Document, ptr string, rng *rand.Rand, base int) *gedcom.IndividualNode {
	i := doc.AddIndividual(ptr)
	for k, m := 0, rng.Intn(3); k < m; k++ {
		i.AddNode(gedcom.NewNameNode(randName(rng)))
	}
	if rng.Intn(4) > 0 {
		i.AddNode(gedcom.NewBirthNode("", gedcom.NewDateNode(randDate(rng, base))))
	} else if rng.Intn(2) == 0 {
		i.AddNode(gedcom.NewBaptismNode("", gedcom.NewDateNode(randDate(rng, base))))
	}
	if rng.Intn(3) > 0 {
		i.AddNode(gedcom.NewDeathNode("", gedcom.NewDateNode(randDate(rng, base+60))))
	}
	return i
}

func randDate(rng *rand.Rand, year int) string {
	y := year + rng.Intn(7) - 3
	switch rng.Intn(5) {
	case 0:
		return strconv.Itoa(y)
	case 1:
		return fmt.Sprintf("%s %d", monthNames[1+rng.Intn(12)], y)
	case 2:
		return fmt.Sprintf("Abt. %d", y)
	case 3:
		if rng.Intn(3) == 0 { // wide ranges: nested ranges with close midpoints, overlapping ranges
			w := 2 * (1 + rng.Intn(40))
			return fmt.Sprintf("Bet. %d and %d", y-w/2, y+w/2)
		}
		return fmt.Sprintf("Bet. %d and %d", y, y+rng.Intn(3))
	}
	return fmt.Sprintf("%d %s %d", 1+rng.Intn(28), monthNames[1+rng.Intn(12)], y)
}

func randOptions(rng *rand.Rand) gedcom.SimilarityOptions {
	o := gedcom.NewSimilarityOptions()
	if rng.Intn(2) == 0 {
		// random weights summing to 1, random ratio, prefix <= 10
		a, b, c, d := rng.Float64(), rng.Float64(), rng.Float64(), rng.Float64()
		t := a + b + c + d
		o.IndividualWeight, o.ParentsWeight, o.SpousesWeight, o.ChildrenWeight = a/t, b/t, c/t, d/t
		o.NameToDateRatio = float64(rng.Intn(11)) / 10
		o.JaroPrefixSize = rng.Intn(11)
		o.MaxYears = float64(1 + rng.Intn(10))
		o.MinimumSimilarity = []float64{0, 0.5, 0.735, 1}[rng.Intn(4)]
	}
	return o
}

func close12(a, b float64) bool { return math.Abs(a-b) <= 1e-12 }

func Record(w io.Writer, seed int64, n int) error {
	rng := rand.New(rand.NewSource(seed))
	bw := bufio.NewWriterSize(w, 1<<20)
	defer bw.Flush()
	enc := json.NewEncoder(bw)
	for i := 0; i < n; i++ {
		opts := randOptions(rng)
		switch i % 6 {
		case 0: // names
			a, b := randName(rng), randName(rng)
			if rng.Intn(4) == 0 {
				b = decorate(a, rng.Intn(4))
			}
			s12 := gedcom.StringSimilarity(a, b, 0, opts.JaroPrefixSize)
			s21 := gedcom.StringSimilarity(b, a, 0, opts.JaroPrefixSize)
			o := empty()
			o.Kind, o.A, o.B, o.Prefix, o.S = "name", proj.B(a), proj.B(b), opts.JaroPrefixSize, sc4(s12)
			o.Unit, o.Sym = unit(s12) && unit(s21), close12(s12, s21)
			o.Ident = !(clean(a) == clean(b) && clean(a) != "") || s12 == 1
			enc.Encode(o)
			// the same words split between the operands at another place, right after (a,b): a result must not depend on
			// what was compared before
			if words := strings.Fields(a + " " + b); len(words) >= 3 && rng.Intn(3) == 0 {
				k := 1 + rng.Intn(len(words)-1)
				a2, b2 := strings.Join(words[:k], " "), strings.Join(words[k:], " ")
				if a2 != a {
					t12 := gedcom.StringSimilarity(a2, b2, 0, opts.JaroPrefixSize)
					t21 := gedcom.StringSimilarity(b2, a2, 0, opts.JaroPrefixSize)
					o2 := empty()
					o2.Kind, o2.A, o2.B, o2.Prefix, o2.S = "name", proj.B(a2), proj.B(b2), opts.JaroPrefixSize, sc4(t12)
					o2.Unit, o2.Sym = unit(t12) && unit(t21), close12(t12, t21)
					o2.Ident = !(clean(a2) == clean(b2) && clean(a2) != "") || t12 == 1
					enc.Encode(o2)
				}
			}
		case 1: // dates
			base := 1800 + rng.Intn(200)
			a, b := gedcom.NewDateNode(randDate(rng, base)), gedcom.NewDateNode(randDate(rng, base+rng.Intn(8)))
			if rng.Intn(5) == 0 {
				b = gedcom.NewDateNode(a.Value())
			}
			s12, s21 := a.Similarity(b, opts.MaxYears), b.Similarity(a, opts.MaxYears)
			o := empty()
			o.Kind, o.Max, o.S = "date", int(opts.MaxYears), sc4(s12)
			o.Dist3 = int(math.Round(math.Abs(a.Years()-b.Years()) * 1000))
			o.Unit, o.Sym = unit(s12) && unit(s21), close12(s12, s21)
			o.Ident = a.Value() != b.Value() || s12 == 1
			if rng.Intn(10) == 0 { // missing information scores exactly 0.5
				var nilDate *gedcom.DateNode
				o.Missing = true
				o.S = sc4(a.Similarity(nilDate, opts.MaxYears))
				o.Sym = nilDate.Similarity(a, opts.MaxYears) == a.Similarity(nilDate, opts.MaxYears)
				o.Ident = true
			}
			enc.Encode(o)
		case 2: // individuals
			doc := gedcom.NewDocument()
			base := 1800 + rng.Intn(150)
			a, b := person(doc, "A", rng, base), person(doc, "B", rng, base+rng.Intn(4))
			o := empty()
			o.Kind = "indiv"
			if rng.Intn(10) == 0 {
				b = nil
				o.Missing = true
			}
			s12, s21 := a.Similarity(b, opts), b.Similarity(a, opts)
			o.S, o.Ratio = sc4(s12), sc4(opts.NameToDateRatio)
			o.Unit, o.Sym = unit(s12) && unit(s21), close12(s12, s21)
			if b != nil {
				for _, n1 := range a.Names() {
					for _, n2 := range b.Names() {
						o.NameSims = append(o.NameSims, sc4(gedcom.StringSimilarity(n1.String(), n2.String(), opts.JaroBoostThreshold, opts.JaroPrefixSize)))
					}
				}
				ab, _ := a.EstimatedBirthDate()
				bb, _ := b.EstimatedBirthDate()
				ad, _ := a.EstimatedDeathDate()
				bd, _ := b.EstimatedDeathDate()
				o.Birth, o.Death = sc4(ab.Similarity(bb, opts.MaxYears)), sc4(ad.Similarity(bd, opts.MaxYears))
			}
			enc.Encode(o)
		case 3: // lists
			doc := gedcom.NewDocument()
			base := 1800 + rng.Intn(150)
			var as, bs gedcom.IndividualNodes
			for k, m := 0, rng.Intn(5); k < m; k++ {
				as = append(as, person(doc, fmt.Sprintf("A%d", k), rng, base))
			}
			for k, m := 0, rng.Intn(5); k < m; k++ {
				if len(as) > 0 && rng.Intn(3) == 0 { // identical twin of somebody on the left
					src := as[rng.Intn(len(as))]
					c := doc.AddIndividual(fmt.Sprintf("B%d", k))
					for _, ch := range src.Nodes() {
						c.AddNode(gedcom.DeepCopy(ch, doc))
					}
					bs = append(bs, c)
				} else {
					bs = append(bs, person(doc, fmt.Sprintf("B%d", k), rng, base))
				}
			}
			s12, s21 := as.Similarity(bs, opts), bs.Similarity(as, opts)
			o := empty()
			o.Kind, o.S, o.MinSim = "list", sc4(s12), sc4(opts.MinimumSimilarity)
			o.Unit, o.Sym = unit(s12) && unit(s21), close12(s12, s21)
			for _, a := range as {
				row := []int{}
				for _, b := range bs {
					row = append(row, sc4(a.Similarity(b, opts)))
				}
				o.M = append(o.M, row)
			}
			o.Parts = []int{len(as), len(bs)}
			enc.Encode(o)
		default: // surrounding similarity on a small family graph (both operand orders)
			doc := gedcom.NewDocument()
			base := 1850 + rng.Intn(100)
			mk := func(side string) *gedcom.IndividualNode {
				x := person(doc, side+"x", rng, base)
				if rng.Intn(3) > 0 { // parents
					f, m := person(doc, side+"f", rng, base-30), person(doc, side+"m", rng, base-28)
					fam := doc.AddFamilyWithHusbandAndWife(side+"P", f, m)
					fam.AddChild(x)
				}
				if rng.Intn(3) > 0 { // spouse and children
					sp := person(doc, side+"s", rng, base+2)
					fam := doc.AddFamilyWithHusbandAndWife(side+"O", x, sp)
					for k, m := 0, rng.Intn(3); k < m; k++ {
						fam.AddChild(person(doc, fmt.Sprintf("%sc%d", side, k), rng, base+25+2*k))
					}
				}
				return x
			}
			a, b := mk("L"), mk("R")
			x12 := a.SurroundingSimilarity(b, opts, true)
			x21 := b.SurroundingSimilarity(a, opts, true)
			x12.Options, x21.Options = opts, opts
			s12, s21 := x12.WeightedSimilarity(), x21.WeightedSimilarity()
			o := empty()
			o.Kind, o.S = "weighted", sc4(s12)
			o.Parts = []int{sc4(x12.IndividualSimilarity), sc4(x12.ParentsSimilarity), sc4(x12.SpousesSimilarity), sc4(x12.ChildrenSimilarity)}
			o.W = map[string]int{"ind": sc4(opts.IndividualWeight), "par": sc4(opts.ParentsWeight), "sp": sc4(opts.SpousesWeight), "ch": sc4(opts.ChildrenWeight)}
			o.Unit = unit(s12) && unit(s21) && unit(x12.ParentsSimilarity) && unit(x12.SpousesSimilarity) && unit(x12.ChildrenSimilarity) && unit(x12.IndividualSimilarity)
			o.Sym = math.Abs(s12-s21) <= 1e-9 && close12(x12.ParentsSimilarity, x21.ParentsSimilarity) &&
				close12(x12.SpousesSimilarity, x21.SpousesSimilarity) && close12(x12.ChildrenSimilarity, x21.ChildrenSimilarity)
			// families too
			fa, fb := a.Families(), b.Families()
			if len(fa) > 0 && len(fb) > 0 {
				f12, f21 := fa[0].Similarity(fb[0], 0, opts), fb[0].Similarity(fa[0], 0, opts)
				o.Unit = o.Unit && unit(f12) && unit(f21)
				o.Sym = o.Sym && close12(f12, f21)
			}
			enc.Encode(o)
		}
	}
	return nil
}

func Main(args []string) error {
	seed, _ := strconv.ParseInt(os.Getenv("VERIF_SEED"), 10, 64)
	if len(args) == 0 {
		return fmt.Errorf("similarity: missing subcommand")
	}
	switch args[0] {
	case "replay":
		return Replay(os.Stdin, os.Stdout)
	case "record":
		n := 1000
		if len(args) > 1 {
			n, _ = strconv.Atoi(args[1])
		}
		return Record(os.Stdout, seed, n)
	}
	return fmt.Errorf("similarity: unknown subcommand %q", args[0])
}
