module verif/harness

go 1.21

require (
	github.com/elliotchance/gedcom/v39 v39.0.0
	golang.org/x/net v0.17.0
)

require golang.org/x/text v0.14.0 // indirect

replace github.com/elliotchance/gedcom/v39 => /repo
