// Package proj projects real gedcom objects onto the abstract state of the
// TLA+ specification.  It is shared by both bindings (replay and trace
// recording) so that there is exactly one projection per abstract variable.
package proj

import (
	"fmt"

	"github.com/elliotchance/gedcom/v39"
)

// PNode is one node of a forest in preorder: the abstract node of CodecOps.tla.
// Text travels as byte values because TLC cannot look inside TLA+ strings.
type PNode struct {
	Lvl int   `json:"lvl"`
	Ptr []int `json:"ptr"`
	Tag []int `json:"tag"`
	Val []int `json:"val"`
}

// B converts text to its byte values (never nil, so JSON shows []).
func B(s string) []int {
	out := make([]int, len(s))
	for i := 0; i < len(s); i++ {
		out[i] = int(s[i])
	}
	return out
}

// S converts byte values back to text.
func S(b []int) string {
	out := make([]byte, len(b))
	for i, c := range b {
		out[i] = byte(c)
	}
	return string(out)
}

func walk(n gedcom.Node, depth int, visit func(gedcom.Node, int)) {
	visit(n, depth)
	for _, c := range n.Nodes() {
		walk(c, depth+1, visit)
	}
}

// Forest is the preorder projection of a document.
func Forest(doc *gedcom.Document) []PNode {
	out := []PNode{}
	for _, root := range doc.Nodes() {
		walk(root, 0, func(n gedcom.Node, d int) {
			out = append(out, PNode{Lvl: d, Ptr: B(n.Pointer()), Tag: B(n.Tag().Tag()), Val: B(n.RawSimpleNode().Value())})
		})
	}
	return out
}

// NodeForest is the preorder projection of one node tree.
func NodeForest(root gedcom.Node) []PNode {
	out := []PNode{}
	walk(root, 0, func(n gedcom.Node, d int) {
		out = append(out, PNode{Lvl: d, Ptr: B(n.Pointer()), Tag: B(n.Tag().Tag()), Val: B(n.RawSimpleNode().Value())})
	})
	return out
}

// Kinds lists the Go type of every node in preorder.
func Kinds(doc *gedcom.Document) []string {
	out := []string{}
	for _, root := range doc.Nodes() {
		walk(root, 0, func(n gedcom.Node, d int) {
			out = append(out, fmt.Sprintf("%T", n))
		})
	}
	return out
}

// EqualForest compares two projections.
func EqualForest(a, b []PNode) bool {
	if len(a) != len(b) {
		return false
	}
	for i := range a {
		if a[i].Lvl != b[i].Lvl || !eqInts(a[i].Ptr, b[i].Ptr) || !eqInts(a[i].Tag, b[i].Tag) || !eqInts(a[i].Val, b[i].Val) {
			return false
		}
	}
	return true
}

func eqInts(a, b []int) bool {
	if len(a) != len(b) {
		return false
	}
	for i := range a {
		if a[i] != b[i] {
			return false
		}
	}
	return true
}
