// vh is the single harness binary: `vh <engine> <subcommand> ...`.
package main

import (
	"fmt"
	"os"

	"verif/harness/codec"
	"verif/harness/commands"
	"verif/harness/datebounds"
	"verif/harness/datecompare"
	"verif/harness/dates"
	"verif/harness/document"
	"verif/harness/matching"
	"verif/harness/mergedocs"
	"verif/harness/names"
	"verif/harness/nodeheap"
	"verif/harness/publish"
	"verif/harness/query"
	"verif/harness/similarity"
	"verif/harness/warnings"
)

func main() {
	if len(os.Args) < 2 {
		fmt.Fprintln(os.Stderr, "usage: vh <engine> <subcommand> ...")
		os.Exit(2)
	}
	var err error
	switch os.Args[1] {
	case "codec":
		err = codec.Main(os.Args[2:])
	case "datebounds":
		err = datebounds.Main(os.Args[2:])
	case "datecompare":
		err = datecompare.Main(os.Args[2:])
	case "dates":
		err = dates.Main(os.Args[2:])
	case "document":
		err = document.Main(os.Args[2:])
	case "matching":
		err = matching.Main(os.Args[2:])
	case "mergedocs":
		err = mergedocs.Main(os.Args[2:])
	case "names":
		err = names.Main(os.Args[2:])
	case "nodeheap":
		err = nodeheap.Main(os.Args[2:])
	case "publish":
		err = publish.Main(os.Args[2:])
	case "commands":
		err = commands.Main(os.Args[2:])
	case "query":
		err = query.Main(os.Args[2:])
	case "similarity":
		err = similarity.Main(os.Args[2:])
	case "warnings":
		err = warnings.Main(os.Args[2:])
	default:
		err = fmt.Errorf("unknown engine %q", os.Args[1])
	}
	if err != nil {
		fmt.Fprintln(os.Stderr, "vh:", err)
		os.Exit(2)
	}
}
