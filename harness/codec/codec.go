// Package codec binds CodecOps.tla / Codec.tla / CodecBuild.tla to the real
// decoder and encoder (properties C01, C02, C03).
//
//	vh codec replay        stdin: CASE records of Codec.tla   -> mismatches
//	vh codec replay-build  stdin: CASE records of CodecBuild  -> mismatches
//	vh codec record N      seeded driver, one observation per line (direction B)
//	vh codec record-build N
package codec

import (
	"bufio"
	"bytes"
	"encoding/json"
	"fmt"
	"io"
	"math/rand"
	"os"
	"regexp"
	"strconv"
	"strings"
	"sync"
	"time"

	"github.com/elliotchance/gedcom/v39"
	"verif/harness/proj"
)

type Opts struct {
	Multi   bool `json:"multi"`
	Lenient bool `json:"lenient"`
}

// Outcome is the abstract result of one Decode call (Result in CodecOps.tla).
type Outcome struct {
	Out    string       `json:"out"` // doc | error | panic-indent | crash | hang
	Line   int          `json:"line"`
	Bom    bool         `json:"bom"`
	Forest []proj.PNode `json:"forest"`
	Msg    string       `json:"msg,omitempty"`
}

var errLine = regexp.MustCompile(`^line (\d+): `)
var panicLine = regexp.MustCompile(`^indent is too large - missing parent\? at line (\d+): `)

// DecodeReal runs the real decoder and classifies what happened.
func DecodeReal(inp []byte, o Opts) (out Outcome, doc *gedcom.Document) {
	defer func() {
		if r := recover(); r != nil {
			msg := fmt.Sprint(r)
			if m := panicLine.FindStringSubmatch(msg); m != nil {
				n, _ := strconv.Atoi(m[1])
				out = Outcome{Out: "panic-indent", Line: n, Forest: []proj.PNode{}}
				return
			}
			if len(msg) > 200 {
				msg = msg[:200]
			}
			out = Outcome{Out: "crash", Msg: msg, Forest: []proj.PNode{}}
		}
	}()
	dec := gedcom.NewDecoder(bytes.NewReader(inp))
	dec.AllowMultiLine = o.Multi
	dec.AllowInvalidIndents = o.Lenient
	d, err := dec.Decode()
	if err != nil {
		msg := err.Error()
		line := 0
		if m := errLine.FindStringSubmatch(msg); m != nil {
			line, _ = strconv.Atoi(m[1])
		}
		if len(msg) > 200 {
			msg = msg[:200]
		}
		return Outcome{Out: "error", Line: line, Msg: msg, Forest: []proj.PNode{}}, nil
	}
	if d == nil {
		return Outcome{Out: "crash", Msg: "nil document and nil error", Forest: []proj.PNode{}}, nil
	}
	return Outcome{Out: "doc", Bom: d.HasBOM, Forest: proj.Forest(d)}, d
}

// decodeGuarded adds a watchdog: a decode that does not return is a "hang".
func decodeGuarded(inp []byte, o Opts, limit time.Duration) Outcome {
	ch := make(chan Outcome, 1)
	go func() {
		out, _ := DecodeReal(inp, o)
		ch <- out
	}()
	select {
	case out := <-ch:
		return out
	case <-time.After(limit):
		return Outcome{Out: "hang", Forest: []proj.PNode{}}
	}
}

type expDecode struct {
	Out    string       `json:"out"`
	Line   int          `json:"line"`
	Alt    int          `json:"alt"`
	Bom    bool         `json:"bom"`
	Forest []proj.PNode `json:"forest"`
}

type decodeCase struct {
	Inp  []int     `json:"inp"`
	Opts Opts      `json:"opts"`
	Exp  expDecode `json:"exp"`
}

func bytesOf(a []int) []byte {
	b := make([]byte, len(a))
	for i, c := range a {
		b[i] = byte(c)
	}
	return b
}

func sameOutcome(e expDecode, o Outcome) (bool, string) {
	if e.Out != o.Out {
		return false, "outcome " + o.Out + " expected " + e.Out
	}
	switch e.Out {
	case "doc":
		if e.Bom != o.Bom {
			return false, "bom"
		}
		if !proj.EqualForest(e.Forest, o.Forest) {
			return false, "forest"
		}
	case "error", "panic-indent":
		// the documentation leaves open whether CRLF counts as one line or two
		if o.Line != e.Line && o.Line != e.Alt {
			return false, "line"
		}
	}
	return true, ""
}

type mismatch struct {
	Kind string      `json:"kind"`
	Why  string      `json:"why"`
	Case interface{} `json:"case"`
	Obs  interface{} `json:"obs"`
	Text string      `json:"text,omitempty"`
}

// Replay: direction A for Codec.tla.  Every terminal state of the exhaustive
// machine is decoded by the real decoder under the same options.
func Replay(r io.Reader, w io.Writer) error {
	sc := bufio.NewScanner(r)
	sc.Buffer(make([]byte, 1<<20), 1<<28)
	enc := json.NewEncoder(w)
	n, bad := 0, 0
	for sc.Scan() {
		var c decodeCase
		if err := json.Unmarshal(sc.Bytes(), &c); err != nil {
			return fmt.Errorf("bad case: %v", err)
		}
		n++
		inp := bytesOf(c.Inp)
		obs := decodeGuarded(inp, c.Opts, 20*time.Second)
		if ok, why := sameOutcome(c.Exp, obs); !ok {
			bad++
			enc.Encode(mismatch{Kind: "decode", Why: why, Case: c, Obs: obs, Text: string(inp)})
			continue
		}
		if obs.Out == "doc" {
			// normal form on the REAL code: String() decodes to the same tree and
			// re-encodes to the same bytes (for documents the claim applies to)
			if why := normalFormReal(inp, c.Opts, obs); why != "" {
				bad++
				enc.Encode(mismatch{Kind: "normal-form", Why: why, Case: c, Obs: obs, Text: string(inp)})
			}
		}
	}
	enc.Encode(map[string]int{"summary": 1, "cases": n, "mismatches": bad})
	return sc.Err()
}

func clean(f []proj.PNode) bool {
	for _, n := range f {
		t := proj.S(n.Tag)
		if (t == "INDI" || t == "FAM") && len(n.Val) > 0 {
			return false
		}
		for _, c := range n.Val {
			if c == 10 || c == 13 {
				return false
			}
		}
	}
	return true
}

func normalFormReal(inp []byte, o Opts, first Outcome) string {
	if !clean(first.Forest) {
		return ""
	}
	_, doc := DecodeReal(inp, o)
	if doc == nil {
		return "second decode of the same input failed"
	}
	text := doc.String()
	again, doc2 := DecodeReal([]byte(text), o)
	if again.Out != "doc" {
		return "re-encoded text does not decode: " + again.Out + " " + again.Msg
	}
	if !proj.EqualForest(again.Forest, first.Forest) || again.Bom != first.Bom {
		return "re-encoded text decodes to a different tree"
	}
	if doc2.String() != text {
		return "normal form is not a fixpoint"
	}
	return ""
}

// ---------------------------------------------------------------- recording

type obsDecode struct {
	Inp  []int   `json:"inp"`
	Opts Opts    `json:"opts"`
	Obs  Outcome `json:"obs"`
	Big  bool    `json:"big"`
	Size int     `json:"size"`
	Nf   string  `json:"nf"` // normal-form observation on the real code ("" = fine / not applicable)
}

var tagPool = []string{"HEAD", "NAME", "DATE", "BIRT", "DEAT", "PLAC", "NOTE", "SEX", "SOUR", "INDI", "FAM",
	"HUSB", "WIFE", "CHIL", "_UID", "_X", "1A", "RESI", "EVEN", "FAMS", "FAMC", "CONT", "TYPE", "x_y",
	"TRLR", "SEX", "husb", "Chil", "WIFe", "indi", "Fam", "fam", "name", "Date", "sex", "HUSBAND", "CHILD", "FAMILY", "INDIVIDUAL"}

var valPool = []string{"", "", "x", "M", "M", "F", "U", "John /Smith/", "@P1@", "a@b", "  padded  ", "1 NAME y", "0", "3 Sep 1943",
	"tab\there", "\tlead", "trail\t", "nb\u00a0", "\u0085nel", "wide\u3000", "\u2003em\u2003", "bad\xff", "\xc2", "\xe2\x80",
	"@", "@@", "v w  x", "\xff", "\u00e9", "\u00a0x\u00a0", "\u2028", "\u205f", "@P1@ @P2@", "x\xc2\x85", "\xe2\x80\x80\x80", "\x85", "\xa0y", "\u1680z\u1680", "\v\fq\v"}

var terms = []string{"\n", "\n", "\n", "\r", "\r\n"}

func genWalk(rng *rand.Rand) []byte {
	var b bytes.Buffer
	if rng.Intn(10) == 0 {
		b.Write([]byte{0xef, 0xbb, 0xbf})
	}
	n := rng.Intn(14)
	if rng.Intn(8) == 0 {
		n = 20 + rng.Intn(40)
	}
	depth := -1
	deepMode := rng.Intn(6) == 0 // long descents so that levels >= 10 occur
	for i := 0; i < n; i++ {
		var lvl int
		switch k := rng.Intn(12); {
		case depth < 0:
			lvl = 0
			if rng.Intn(15) == 0 {
				lvl = 1 + rng.Intn(3) // first line above level 0
			}
		case deepMode && k < 9:
			lvl = depth + 1
		case k < 4:
			lvl = depth + 1
		case k < 7:
			lvl = depth
		case k < 9:
			lvl = rng.Intn(depth + 1) // dedent by any amount
		case k < 10:
			lvl = 0
		case k < 11:
			lvl = depth + 2 + rng.Intn(3) // over-deep
		default:
			lvl = depth
		}
		if lvl < 0 {
			lvl = 0
		}
		depth = lvl
		if rng.Intn(40) == 0 {
			b.WriteString("0")
		}
		b.WriteString(strconv.Itoa(lvl))
		b.WriteString(strings.Repeat(" ", 1+rng.Intn(40)/38+rng.Intn(40)/39))
		if rng.Intn(4) == 0 {
			b.WriteString("@" + []string{"I1", "F1", "a b", "P_2", "é"}[rng.Intn(5)] + "@ ")
		}
		b.WriteString(tagPool[rng.Intn(len(tagPool))])
		v := valPool[rng.Intn(len(valPool))]
		if v != "" || rng.Intn(6) == 0 {
			b.WriteString(" " + v)
		}
		b.WriteString(terms[rng.Intn(len(terms))])
		if rng.Intn(10) == 0 {
			b.WriteString(terms[rng.Intn(len(terms))]) // blank line
		}
		if rng.Intn(25) == 0 {
			b.WriteString([]string{"free text", " 1 NAME x", "1NAME", "1 @I@ ", "1  @@ X", "@I1@ INDI", "12", "1 ", "-1 X", "1\tX", "1 @I1@INDI", "1 né"}[rng.Intn(12)])
			b.WriteString(terms[rng.Intn(len(terms))])
		}
	}
	out := b.Bytes()
	if rng.Intn(5) == 0 && len(out) > 0 { // no terminator at the end
		out = bytes.TrimRight(out, "\r\n")
	}
	return out
}

var mutBytes = []byte{'0', '1', '2', '9', ' ', '@', 'A', '_', '\n', '\r', 0xff, 0xc2, 0x85, '\t', 0xa0, 'H', 'x'}

func mutate(rng *rand.Rand, in []byte) []byte {
	out := append([]byte{}, in...)
	k := 1 + rng.Intn(3)
	for ; k > 0; k-- {
		if len(out) == 0 {
			out = append(out, mutBytes[rng.Intn(len(mutBytes))])
			continue
		}
		p := rng.Intn(len(out))
		switch rng.Intn(5) {
		case 4: // flip the case of a letter
			if c := out[p]; (c >= 'A' && c <= 'Z') || (c >= 'a' && c <= 'z') {
				out[p] = c ^ 0x20
			}
		case 0:
			out[p] = mutBytes[rng.Intn(len(mutBytes))]
		case 1:
			out = append(out[:p], out[p+1:]...)
		case 2:
			out = append(out[:p], append([]byte{mutBytes[rng.Intn(len(mutBytes))]}, out[p:]...)...)
		case 3:
			out = out[:p] // truncate
		}
	}
	return out
}

func genRandomBytes(rng *rand.Rand) []byte {
	n := rng.Intn(24)
	out := make([]byte, n)
	for i := range out {
		if rng.Intn(12) == 0 {
			out[i] = byte(rng.Intn(256))
		} else {
			out[i] = mutBytes[rng.Intn(len(mutBytes))]
		}
	}
	return out
}

var adversarial = []string{
	"1 NAME x\n", "2 DATE\n0 HEAD\n", "0 HUSB @I1@\n", "0 HEAD\n1 WIFE @I2@\n", "1 CHIL @I3@\n",
	"0 @I1@ INDI\n1 HUSB @I1@\n0 @F1@ FAM\n1 HUSB @I1@\n", "0 @I1@ INDI\n1 @I2@ INDI\n2 @F1@ FAM\n3 CHIL @I1@\n0 CHIL @I2@\n",
	"0 @F1@ FAM\n0 @I1@ INDI\n1 HUSB @I1@\n1 WIFE\n1 CHIL \n", "0 HEAD\n1 SEX\n2 X y\n", "0 FAM\n1 HUSB\n1 WIFE\n1 CHIL\n",
	"00000000001 X\n", "0 A\n99999999999999999999 X\n", "0 A\n1 B\n2 C\n3 D\n4 E\n5 F\n6 G\n7 H\n8 I\n9 J\n10 K\n11 L\n12 M\n10 N\n1 O\n",
	"0 A\n010 B\n", "0 A\n4294967297 B\n", "\xef\xbb\xbf", "\xef\xbb\xbf\n", "\xef\xbb", "0 A\n\xef\xbb\xbf1 B\n", "\n\n\r\r\n", "",
	"0 @I1@ INDI value\n1 NAME a\n", "0 @F1@ FAM value\n", "0 A\n1 INDI v\n1 FAM w\n2 HUSB @X@\n", "0 INDI\n0 FAM\n",
	"0 A\n3 B\n", "0 A\n1 B\n3 C\n", "0 A\n1 B\n2 C\n0 D\n2 E\n", "9 X\n", "0 A\r1 B\r\n2 C\n\r3 D",
	"1 husb @I1@\n", "0 Chil @I2@\n", "0 A\n1 WIFe\n", "0 indi\n1 fam\n2 Husb x\n", "0 @F1@ fam\n1 HUSB @I1@\n", "0 @F1@ FAM\n1 husb @I1@\n1 Chil\n",
	"0 NOTE a\ncontinued\n\n1 X y\nmore\n", "text first\n0 A\n", "\n0 A\n\nmore\n\n", "0 @I1@ INDI\nfree\n1 NAME x\n", "0 @F@ FAM\nglued\n",
}

func init() {
	// level numbers around the points where a hand-written digit accumulator wraps (2^63, 2^64, 2^32)
	for _, lv := range []string{"9999999999999999999", "18446744073709551615", "18446744073709551616", "18446744073709551617",
		"9223372036854775807", "9223372036854775808", "4294967296", "2147483648"} {
		adversarial = append(adversarial, "0 A\n"+lv+" X\n", "0 A\n1 B\n"+lv+" X y\n2 C\n")
	}
	// lines around the buffer sizes of bufio (4096) and of a default Scanner token (65536), followed by further lines:
	// nothing may be cut and nothing after the long line may be lost
	for _, n := range []int{4080, 4089, 4090, 4096, 4100, 8200} {
		adversarial = append(adversarial, "0 HEAD\n1 NOTE "+strings.Repeat("x", n)+"\n2 CONT y\n1 X z\n0 TRLR\n")
	}
	// the same SEX value several times, with and without subordinate lines; lines after a trailer record
	adversarial = append(adversarial, "0 @I1@ INDI\n1 SEX M\n2 SOUR @S1@\n3 PAGE 4\n0 @I2@ INDI\n1 SEX M\n2 NOTE x\n1 SEX F\n0 @I3@ INDI\n1 SEX M\n1 SEX F\n2 NOTE y\n1 SEX U\n1 SEX U\n2 X z\n",
		"0 HEAD\n0 TRLR\n0 @I1@ INDI\n1 NAME x\n", "0 TRLR\n1 X y\n0 A\n1 B\n", "0 HEAD\n0 @I1@ INDI\n0 TRLR\n\n0 HEAD\n0 @I2@ INDI\n1 SEX M\n0 TRLR\n")
	// long lines that cannot be parsed and consist of UTF-8 continuation bytes or other binary data (error messages quote the line)
	adversarial = append(adversarial, strings.Repeat("\xa0", 130)+"\n", "0 HEAD\n"+strings.Repeat("\x80\xbf", 100)+"\n1 X\n", "0 A\n1 HUSB "+strings.Repeat("\x9f", 200)+"\n",
		"0 A\n5 "+strings.Repeat("\xbf", 300)+"\n", strings.Repeat("\xff\xfe", 90)+"\n0 A\n")
	// descents past level 99 and 100 (three-digit levels) and back: the normal form must survive re-encoding
	deep := ""
	for k := 0; k <= 103; k++ {
		deep += fmt.Sprintf("%d A%d v\n", k, k%7)
	}
	adversarial = append(adversarial, deep+"50 B\n100 C\n0 D\n", deep+"104 E\n99 F\n100 G\n101 H\n")
	adversarial = append(adversarial, "0 HEAD\r1 NOTE "+strings.Repeat("ab ", 1400)+"\r\n1 X z\n0 "+strings.Repeat("T", 4200)+"\n1 Y\n")
}

func genInput(rng *rand.Rand, i int) []byte {
	if i < len(adversarial)*2 {
		s := []byte(adversarial[i/2])
		if i%2 == 1 {
			return mutate(rng, s)
		}
		return s
	}
	switch k := rng.Intn(10); {
	case k < 5:
		return genWalk(rng)
	case k < 8:
		return mutate(rng, genWalk(rng))
	default:
		return genRandomBytes(rng)
	}
}

// Record: direction B.  Seeded inputs far beyond TLC's bounds; every input is
// decoded under all four option combinations and logged with the result.
func Record(w io.Writer, seed int64, n int, big int) error {
	rng := rand.New(rand.NewSource(seed))
	bw := bufio.NewWriterSize(w, 1<<20)
	defer bw.Flush()
	enc := json.NewEncoder(bw)
	for i := 0; i < n; i++ {
		inp := genInput(rng, i)
		for k := 0; k < 4; k++ {
			o := Opts{Multi: k&1 == 1, Lenient: k&2 == 2}
			obs := decodeGuarded(inp, o, 20*time.Second)
			nf := ""
			if obs.Out == "doc" {
				nf = normalFormReal(inp, o, obs)
			}
			enc.Encode(obsDecode{Inp: proj.B(string(inp)), Opts: o, Obs: obs, Size: len(inp), Nf: nf})
			if obs.Out == "hang" {
				bw.Flush()
				return nil // the hung goroutine cannot be stopped; the runner reports it
			}
		}
	}
	// very large inputs: only the outcome class is judged by the specification
	for i := 0; i < big; i++ {
		var inp []byte
		switch i % 4 {
		case 0:
			inp = []byte("0 NOTE " + strings.Repeat("x", 1<<20) + "\n")
		case 1:
			inp = []byte(strings.Repeat("y", 1<<20))
		case 2:
			inp = []byte("0 HEAD\n" + strings.Repeat("1 NOTE abc\n2 CONT def\n", 40000))
		case 3:
			inp = bytes.Repeat([]byte{0xff, '\r'}, 300000)
		}
		for k := 0; k < 4; k++ {
			o := Opts{Multi: k&1 == 1, Lenient: k&2 == 2}
			obs := decodeGuarded(inp, o, 60*time.Second)
			obs.Forest = []proj.PNode{}
			enc.Encode(obsDecode{Inp: []int{}, Opts: o, Obs: obs, Big: true, Size: len(inp)})
		}
	}
	return nil
}

// ------------------------------------------------------------ C01: building

type buildCase struct {
	Bom    bool         `json:"bom"`
	Forest []proj.PNode `json:"forest"`
	Bytes  []int        `json:"bytes"` // expected encoding (direction A only)
}

// BuildReal builds the abstract forest through the public API only.
func BuildReal(c buildCase) (doc *gedcom.Document, err error) {
	defer func() {
		if r := recover(); r != nil {
			err = fmt.Errorf("panic while building: %v", r)
		}
	}()
	doc = gedcom.NewDocument()
	doc.HasBOM = c.Bom
	scratch := gedcom.NewDocument()
	var stack []gedcom.Node
	for _, pn := range c.Forest {
		tag, val, ptr := proj.S(pn.Tag), proj.S(pn.Val), proj.S(pn.Ptr)
		var node gedcom.Node
		attach := true
		switch {
		case tag == "INDI" && pn.Lvl == 0:
			node = doc.AddIndividual(ptr)
			attach = false
		case tag == "FAM" && pn.Lvl == 0:
			node = doc.AddFamily(ptr)
			attach = false
		case tag == "HUSB" || tag == "WIFE" || tag == "CHIL":
			// role nodes exist only as members of a family: make one in a scratch
			// family through the public setters and move it to where it belongs
			if len(val) < 2 || val[0] != '@' || val[len(val)-1] != '@' {
				return nil, fmt.Errorf("role value %q cannot be built through the API", val)
			}
			inner := val[1 : len(val)-1]
			tmp := scratch.AddFamily("tmp")
			switch tag {
			case "HUSB":
				tmp.SetHusbandPointer(inner)
			case "WIFE":
				tmp.SetWifePointer(inner)
			case "CHIL":
				tmp.AddChild(scratch.AddIndividual(inner))
			}
			node = tmp.Nodes()[0]
		default:
			node = gedcom.NewNode(gedcom.TagFromString(tag), val, ptr)
		}
		if attach {
			if pn.Lvl == 0 {
				doc.AddNode(node)
			} else {
				stack[pn.Lvl-1].AddNode(node)
			}
		}
		stack = append(stack[:pn.Lvl], node)
	}
	return doc, nil
}

type obsBuild struct {
	Big     bool         `json:"big"`  // too large to re-encode in TLC: only Same / the outcome are judged
	Same    bool         `json:"same"` // projection of the decoded document = projection of the built one
	Nodes   int          `json:"nodes"`
	Size    int          `json:"size"`
	Bom     bool         `json:"bom"`
	Built   []proj.PNode `json:"built"`
	Bytes   []int        `json:"bytes"`
	Decoded Outcome      `json:"decoded"`
	KindsOK bool         `json:"kindsok"`
	Kinds   string       `json:"kinds,omitempty"`
	Again   bool         `json:"again"` // re-written after flag / value changes: still the document as it is
	EncSame bool         `json:"encsame"` // Document.String() and Encoder.Encode agree
}

func observeBuild(c buildCase) (obsBuild, error) {
	doc, err := BuildReal(c)
	if err != nil {
		return obsBuild{}, err
	}
	built := proj.Forest(doc)
	kindsBuilt := proj.Kinds(doc)
	text := doc.String()
	var buf bytes.Buffer
	encErr := gedcom.NewEncoder(&buf, doc).Encode()
	dec, doc2 := DecodeReal([]byte(text), Opts{})
	o := obsBuild{Bom: doc.HasBOM, Built: built, Bytes: proj.B(text), Decoded: dec,
		EncSame: encErr == nil && buf.String() == text, KindsOK: true, Nodes: len(built), Size: len(text)}
	o.Same = dec.Out == "doc" && proj.EqualForest(dec.Forest, built) && dec.Bom == doc.HasBOM
	// the same document written again after changes that are made through the public API without adding or removing a
	// node (the BOM flag, the sex of an individual that has a SEX line): the text must be that of the document as it is now
	o.Again = true
	if len(text) < 1<<16 {
		rewrite := func() bool {
			d, _ := DecodeReal([]byte(doc.String()), Opts{})
			return d.Out == "doc" && proj.EqualForest(d.Forest, proj.Forest(doc)) && d.Bom == doc.HasBOM
		}
		doc.HasBOM = !doc.HasBOM
		o.Again = o.Again && rewrite()
		doc.HasBOM = !doc.HasBOM
		for _, ind := range doc.Individuals() {
			if sexes := gedcom.NodesWithTag(ind, gedcom.TagSex); len(sexes) > 0 {
				old := sexes[0].Value()
				ind.SetSex("U")
				o.Again = o.Again && rewrite()
				ind.SetSex(old)
				break
			}
		}
		o.Again = o.Again && doc.String() == text
	}
	if doc2 != nil {
		k2 := proj.Kinds(doc2)
		if len(k2) != len(kindsBuilt) {
			o.KindsOK = false
		} else {
			for i := range k2 {
				if k2[i] != kindsBuilt[i] {
					o.KindsOK = false
					o.Kinds = fmt.Sprintf("node %d built as %s decoded as %s", i+1, kindsBuilt[i], k2[i])
					break
				}
			}
		}
	}
	return o, nil
}

// ReplayBuild: direction A for CodecBuild.tla.
func ReplayBuild(r io.Reader, w io.Writer) error {
	sc := bufio.NewScanner(r)
	sc.Buffer(make([]byte, 1<<20), 1<<28)
	enc := json.NewEncoder(w)
	n, bad := 0, 0
	for sc.Scan() {
		var c buildCase
		if err := json.Unmarshal(sc.Bytes(), &c); err != nil {
			return fmt.Errorf("bad case: %v", err)
		}
		n++
		o, err := observeBuild(c)
		why := ""
		switch {
		case err != nil:
			why = "build: " + err.Error()
		case !proj.EqualForest(o.Built, c.Forest):
			why = "built document differs from the abstract forest"
		case proj.S(o.Bytes) != proj.S(c.Bytes):
			why = "encoder output differs from the specified line format"
		case !o.EncSame:
			why = "Document.String() and Encoder.Encode disagree"
		case o.Decoded.Out != "doc":
			why = "encoder output rejected by the decoder: " + o.Decoded.Out + " " + o.Decoded.Msg
		case !proj.EqualForest(o.Decoded.Forest, c.Forest):
			why = "decoded forest differs from the built one"
		case o.Decoded.Bom != c.Bom:
			why = "BOM flag not preserved"
		case !o.KindsOK:
			why = "node kind differs: " + o.Kinds
		case !o.Again:
			why = "written again after a change of the BOM flag or of a SEX value: not the document as it is now"
		}
		if why != "" {
			bad++
			enc.Encode(mismatch{Kind: "roundtrip", Why: why, Case: c, Obs: o, Text: proj.S(o.Bytes)})
		}
	}
	enc.Encode(map[string]int{"summary": 1, "cases": n, "mismatches": bad})
	return sc.Err()
}

var legalVals = []string{"", "", "x", "John /Smith/", "@P1@", "1", "2 NAME", "NAME", "0 @I1@ INDI", "a b  c", "3 Sep 1943",
	"é ü", "a@b", "@", "@@ x", "Bef. 1900", "-", "1 2 3"}
var legalPtrs = []string{"", "", "", "P1", "I2", "a b", "é", "0", "F_1"}

func allTags() []string {
	out := []string{}
	for _, t := range gedcom.Tags() {
		out = append(out, t.Tag())
	}
	// custom tags that differ from a registered tag by letter case only stay custom tags
	return append(out, "_X", "_CUSTOM", "1A", "x_y", "Z9", "Note", "date", "Sour", "_uid", "name", "Birt", "plac", "Sex", "Even")
}

// genForest draws a forest over every registered tag; depth up to maxDepth.
func genForest(rng *rand.Rand, maxNodes, maxDepth int, tags []string) buildCase {
	n := rng.Intn(maxNodes + 1)
	c := buildCase{Bom: rng.Intn(4) == 0, Forest: []proj.PNode{}}
	depth := -1
	haveFam := false
	chain := rng.Intn(5) == 0
	for i := 0; i < n; i++ {
		lvl := 0
		if depth >= 0 {
			switch k := rng.Intn(10); {
			case chain && k < 9, k < 4:
				lvl = depth + 1
			case k < 7:
				lvl = depth
			case k < 9:
				lvl = rng.Intn(depth + 1)
			default:
				lvl = 0
			}
		}
		if lvl > maxDepth {
			lvl = maxDepth
		}
		tag := tags[rng.Intn(len(tags))]
		val := legalVals[rng.Intn(len(legalVals))]
		ptr := legalPtrs[rng.Intn(len(legalPtrs))]
		switch tag {
		case "INDI", "FAM":
			if lvl != 0 {
				tag = "_REC"
			} else {
				val = ""
				if tag == "FAM" {
					haveFam = true
				}
			}
		case "HUSB", "WIFE", "CHIL":
			if !haveFam || lvl == 0 {
				tag = "_ROLE"
			} else {
				val = "@" + []string{"I1", "P 2", "x"}[rng.Intn(3)] + "@"
				ptr = ""
			}
		}
		depth = lvl
		c.Forest = append(c.Forest, proj.PNode{Lvl: lvl, Ptr: proj.B(ptr), Tag: proj.B(tag), Val: proj.B(val)})
	}
	return c
}

// RecordBuild: direction B for C01.
func RecordBuild(w io.Writer, seed int64, n int) error {
	rng := rand.New(rand.NewSource(seed))
	bw := bufio.NewWriterSize(w, 1<<20)
	defer bw.Flush()
	enc := json.NewEncoder(bw)
	tags := allTags()
	for i := 0; i < n; i++ {
		maxNodes, maxDepth := 30, 99
		if i%10 == 0 {
			maxNodes = 120
		}
		c := genForest(rng, maxNodes, maxDepth, tags)
		if i < len(tags) { // every registered tag at least once, nested two deep
			t := tags[i]
			if t != "INDI" && t != "FAM" && t != "HUSB" && t != "WIFE" && t != "CHIL" {
				c.Forest = append(c.Forest, proj.PNode{Lvl: 0, Ptr: proj.B("R"), Tag: proj.B(t), Val: proj.B("v")},
					proj.PNode{Lvl: 1, Ptr: proj.B(""), Tag: proj.B(t), Val: proj.B("")},
					proj.PNode{Lvl: 2, Ptr: proj.B("n"), Tag: proj.B(t), Val: proj.B("@P@")})
			}
		}
		o, err := observeBuild(c)
		if err != nil {
			return fmt.Errorf("driver could not build its own forest: %v", err)
		}
		if !proj.EqualForest(o.Built, c.Forest) {
			// the projection of what was built is what the trace spec is given; a
			// difference here means the constructor paths do not yield what was asked
			fmt.Fprintf(os.Stderr, "note: built forest differs from requested one (case %d)\n", i)
		}
		enc.Encode(o)
	}
	// large documents: very long values, very many children, very deep chains.  TLC does not
	// re-encode these; it judges the recorded comparison built = decoded and the outcome.
	bigs := []buildCase{}
	for _, n := range []int{60000, 65535, 65536, 70000, 300000} {
		v := strings.Repeat("v", n)
		bigs = append(bigs, buildCase{Forest: []proj.PNode{{Lvl: 0, Ptr: proj.B(""), Tag: proj.B("HEAD"), Val: proj.B("")},
			{Lvl: 1, Ptr: proj.B(""), Tag: proj.B("NOTE"), Val: proj.B(v)}, {Lvl: 1, Ptr: proj.B("X"), Tag: proj.B("_Y"), Val: proj.B("after")}}})
	}
	wide := buildCase{Bom: true, Forest: []proj.PNode{{Lvl: 0, Ptr: proj.B("I1"), Tag: proj.B("INDI"), Val: proj.B("")}}}
	for i := 0; i < 20000; i++ {
		wide.Forest = append(wide.Forest, proj.PNode{Lvl: 1, Ptr: proj.B(""), Tag: proj.B(tags[i%len(tags)]), Val: proj.B(strconv.Itoa(i))})
		if t := proj.S(wide.Forest[len(wide.Forest)-1].Tag); t == "INDI" || t == "FAM" || t == "HUSB" || t == "WIFE" || t == "CHIL" {
			wide.Forest[len(wide.Forest)-1].Tag = proj.B("_W")
		}
	}
	bigs = append(bigs, wide)
	deep := buildCase{Forest: []proj.PNode{}}
	for i := 0; i < 1200; i++ {
		deep.Forest = append(deep.Forest, proj.PNode{Lvl: i, Ptr: proj.B(""), Tag: proj.B("D"), Val: proj.B("")})
	}
	bigs = append(bigs, deep)
	ptr := strings.Repeat("p", 70000)
	bigs = append(bigs, buildCase{Forest: []proj.PNode{{Lvl: 0, Ptr: proj.B(ptr), Tag: proj.B("NOTE"), Val: proj.B("x")}}})
	bigs = append(bigs, buildCase{Forest: []proj.PNode{{Lvl: 0, Ptr: proj.B(""), Tag: proj.B(strings.Repeat("T", 70000)), Val: proj.B("x")}}})
	for _, c := range bigs {
		o, err := observeBuild(c)
		if err != nil {
			return fmt.Errorf("driver could not build its own forest: %v", err)
		}
		o.Big = true
		o.Built, o.Bytes, o.Decoded.Forest = []proj.PNode{}, []int{}, []proj.PNode{}
		enc.Encode(o)
	}
	return nil
}

// Concurrent decodes many small documents, each with tags nobody has used before, on several goroutines at once (one
// decoder per goroutine, nothing shared by the caller) and then decodes the same texts one after the other: every
// concurrent result must be the sequential one.  A crash of the process is the observation the runner looks at.
func Concurrent(w io.Writer, seed int64, n int) error {
	const G = 8
	texts := make([][]string, G)
	for g := range texts {
		for k := 0; k < n; k++ {
			texts[g] = append(texts[g], fmt.Sprintf("0 HEAD\n1 _H%dx%dx%d a\n0 @I%d@ INDI\n1 NAME n /s/\n1 _T%dx%d v\n2 _U%dx%d w\n1 BIRT\n2 DATE 1 Jan 19%02d\n0 @F%d@ FAM\n1 HUSB @I%d@\n1 _V%d\n0 TRLR\n",
				seed%97, g, k, k, g, k, k, g, k%100, k, k, k*G+g))
		}
	}
	got := make([][]string, G)
	var wg sync.WaitGroup
	for g := 0; g < G; g++ {
		wg.Add(1)
		go func(g int) {
			defer wg.Done()
			for _, t := range texts[g] {
				doc, err := gedcom.NewDecoder(strings.NewReader(t)).Decode()
				if err != nil {
					got[g] = append(got[g], "error: "+err.Error())
				} else {
					got[g] = append(got[g], doc.String())
				}
			}
		}(g)
	}
	wg.Wait()
	mism := 0
	for g := range texts {
		for k, t := range texts[g] {
			doc, err := gedcom.NewDecoder(strings.NewReader(t)).Decode()
			want := ""
			if err != nil {
				want = "error: " + err.Error()
			} else {
				want = doc.String()
			}
			if want != got[g][k] || want != t {
				mism++
			}
		}
	}
	return json.NewEncoder(w).Encode(map[string]int{"decodes": G * n, "mismatches": mism})
}

// Main dispatches the codec subcommands.
func Main(args []string) error {
	seed, _ := strconv.ParseInt(os.Getenv("VERIF_SEED"), 10, 64)
	if len(args) == 0 {
		return fmt.Errorf("codec: missing subcommand")
	}
	num := func(i, def int) int {
		if len(args) > i {
			if v, err := strconv.Atoi(args[i]); err == nil {
				return v
			}
		}
		return def
	}
	switch args[0] {
	case "replay":
		return Replay(os.Stdin, os.Stdout)
	case "replay-build":
		return ReplayBuild(os.Stdin, os.Stdout)
	case "record":
		return Record(os.Stdout, seed, num(1, 1000), num(2, 0))
	case "record-build":
		return RecordBuild(os.Stdout, seed, num(1, 200))
	case "concurrent":
		return Concurrent(os.Stdout, seed, num(1, 300))
	}
	return fmt.Errorf("codec: unknown subcommand %q", args[0])
}
