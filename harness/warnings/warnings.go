// Package warnings binds WarningsOps.tla / Warnings.tla (C20) to Document.Warnings().
//
//	vh warnings exec     stdin: {"doc": abstract family graph}; stdout: observation per document
//	vh warnings gen N    seeded larger graphs in the same abstract form (dates at margins)
package warnings

import (
	"bufio"
	"encoding/json"
	"fmt"
	"io"
	"math/rand"
	"os"
	"sort"
	"strconv"
	"strings"
	"sync"
	"time"

	"github.com/elliotchance/gedcom/v39"
)

type Date struct {
	K string `json:"k"`
	Y int    `json:"y"`
	M int    `json:"m"`
	D int    `json:"d"`
	T string `json:"t"`
}

type Person struct {
	P     string   `json:"p"`
	Sexes []string `json:"sexes"`
	Birt  []Date   `json:"birt"`
	Bapm  []Date   `json:"bapm"`
	Deat  []Date   `json:"deat"`
	Buri  []Date   `json:"buri"`
}

type Family struct {
	P    string   `json:"p"`
	Husb string   `json:"husb"`
	Wife string   `json:"wife"`
	Chil []string `json:"chil"`
	Marr []Date   `json:"marr"`
}

type Doc struct {
	People []Person `json:"people"`
	Fams   []Family `json:"fams"`
}

var months = []string{"", "Jan", "Feb", "Mar", "Apr", "May", "Jun", "Jul", "Aug", "Sep", "Oct", "Nov", "Dec"}

func dateText(d Date) string {
	if d.K == "d" {
		return fmt.Sprintf("%d %s %d", d.D, months[d.M], d.Y)
	}
	return d.T
}

func event(b *strings.Builder, tag string, ev []Date) {
	if len(ev) == 0 {
		return
	}
	fmt.Fprintf(b, "1 %s\n", tag)
	for _, d := range ev {
		fmt.Fprintf(b, "2 DATE %s\n", dateText(d))
	}
}

func personText(b *strings.Builder, x Person) {
	fmt.Fprintf(b, "0 @%s@ INDI\n1 NAME %s /Test/\n", x.P, x.P)
	for _, s := range x.Sexes {
		fmt.Fprintf(b, "1 SEX %s\n", s)
	}
	event(b, "BIRT", x.Birt)
	event(b, "BAPM", x.Bapm)
	event(b, "DEAT", x.Deat)
	event(b, "BURI", x.Buri)
}

func familyText(b *strings.Builder, f Family, chil []string) {
	fmt.Fprintf(b, "0 @%s@ FAM\n", f.P)
	if f.Husb != "" {
		fmt.Fprintf(b, "1 HUSB @%s@\n", f.Husb)
	}
	if f.Wife != "" {
		fmt.Fprintf(b, "1 WIFE @%s@\n", f.Wife)
	}
	for _, c := range chil {
		fmt.Fprintf(b, "1 CHIL @%s@\n", c)
	}
	event(b, "MARR", f.Marr)
}

// Text materialises the abstract graph; order = 0 as given, otherwise a seeded permutation of the
// records (families may come before the people) and of each family's children.
func Text(d Doc, order int64) string {
	var b strings.Builder
	b.WriteString("0 HEAD\n")
	type rec struct {
		isFam bool
		i     int
	}
	recs := []rec{}
	for i := range d.People {
		recs = append(recs, rec{false, i})
	}
	for i := range d.Fams {
		recs = append(recs, rec{true, i})
	}
	var rng *rand.Rand
	if order != 0 {
		rng = rand.New(rand.NewSource(order))
		rng.Shuffle(len(recs), func(i, j int) { recs[i], recs[j] = recs[j], recs[i] })
	}
	for _, r := range recs {
		if r.isFam {
			f := d.Fams[r.i]
			chil := append([]string{}, f.Chil...)
			if rng != nil {
				rng.Shuffle(len(chil), func(i, j int) { chil[i], chil[j] = chil[j], chil[i] })
			}
			familyText(&b, f, chil)
		} else {
			personText(&b, d.People[r.i])
		}
	}
	b.WriteString("0 TRLR\n")
	return b.String()
}

// W is the abstract warning: n = name, a = who / what (ordered), s = who (unordered pair)
type W struct {
	N string   `json:"n"`
	A []string `json:"a"`
	S []string `json:"s"`
}

func kindOf(n gedcom.Node) string {
	switch n.Tag().Tag() {
	case "BIRT":
		return "Birth"
	case "BAPM", "BAPL":
		return "Baptism"
	case "DEAT":
		return "Death"
	case "BURI":
		return "Burial"
	}
	return n.Tag().Tag()
}

func ctxPtr(c gedcom.WarningContext) string {
	if c.Individual != nil {
		return c.Individual.Pointer()
	}
	if c.Family != nil {
		return c.Family.Pointer()
	}
	return ""
}

func ptrOf(i *gedcom.IndividualNode) string {
	if i == nil {
		return ""
	}
	return i.Pointer()
}

func project(ws gedcom.Warnings) (out []W, strs []string) {
	out = []W{}
	for _, w := range ws {
		x := W{N: w.Name(), A: []string{}, S: []string{}}
		switch v := w.(type) {
		case *gedcom.ChildBornBeforeParentWarning:
			x.A = []string{ptrOf(v.Parent), ptrOf(v.Child.Individual())}
		case *gedcom.SiblingsBornTooCloseWarning:
			x.S = []string{ptrOf(v.Sibling1.Individual()), ptrOf(v.Sibling2.Individual())}
			sort.Strings(x.S)
		case *gedcom.MarriedOutOfRangeWarning:
			x.A = []string{v.Family.Pointer(), ptrOf(v.Spouse), v.Boundary}
		case *gedcom.IndividualTooOldWarning:
			x.A = []string{ptrOf(v.Individual)}
		case *gedcom.IncorrectEventOrderWarning:
			x.A = []string{ctxPtr(v.Context()), kindOf(v.FirstEvent), kindOf(v.SecondEvent)}
		case *gedcom.UnparsableDateWarning:
			x.A = []string{ctxPtr(v.Context()), v.Date.Value()}
		case *gedcom.MultipleSexesWarning:
			x.A = []string{ptrOf(v.Individual)}
		case *gedcom.InverseSpousesWarning:
			x.A = []string{v.Family.Pointer()}
		default:
			x.A = []string{fmt.Sprintf("%T", w)}
		}
		out = append(out, x)
		strs = append(strs, w.String())
	}
	return
}

type Obs struct {
	Doc    Doc    `json:"doc"`
	Got    []W    `json:"got"`    // records and children in the given order
	GotP   []W    `json:"gotp"`   // a seeded permutation of records and children
	GotP2  []W    `json:"gotp2"`  // another one
	Again  bool   `json:"again"`  // a second call on the same document reports the same warnings
	Panic  string `json:"panic"`
	Sample string `json:"sample"`
}

func warningsOf(text string) (ws []W, strs []string, again bool, msg string) {
	defer func() {
		if r := recover(); r != nil {
			msg = fmt.Sprint(r)
			if len(msg) > 160 {
				msg = msg[:160]
			}
			ws = []W{}
		}
	}()
	doc, err := gedcom.NewDocumentFromString(text)
	if err != nil {
		return []W{}, nil, false, "decode: " + err.Error()
	}
	ws, strs = project(doc.Warnings())
	ws2, _ := project(doc.Warnings())
	a, _ := json.Marshal(ws)
	b, _ := json.Marshal(ws2)
	return ws, strs, string(a) == string(b), ""
}

func one(k int64, line []byte) (Obs, error) {
	var c struct {
		Doc Doc `json:"doc"`
	}
	if err := json.Unmarshal(line, &c); err != nil {
		return Obs{}, fmt.Errorf("bad case: %v", err)
	}
	o := Obs{Doc: c.Doc}
	var strs []string
	var p1, p2, p3 string
	o.Got, strs, o.Again, p1 = warningsOf(Text(c.Doc, 0))
	o.GotP, _, _, p2 = warningsOf(Text(c.Doc, 7*k+1))
	o.GotP2, _, _, p3 = warningsOf(Text(c.Doc, 13*k+5))
	o.Panic = p1 + p2 + p3
	if k%5000 == 1 && len(strs) > 0 {
		o.Sample = strs[0]
	}
	return o, nil
}

func Exec(r io.Reader, w io.Writer) error {
	sc := bufio.NewScanner(r)
	sc.Buffer(make([]byte, 1<<20), 1<<26)
	bw := bufio.NewWriterSize(w, 1<<20)
	defer bw.Flush()
	enc := json.NewEncoder(bw)
	var lines [][]byte
	for sc.Scan() {
		lines = append(lines, append([]byte{}, sc.Bytes()...))
	}
	if err := sc.Err(); err != nil {
		return err
	}
	out := make([]Obs, len(lines))
	errs := make([]error, len(lines))
	var wg sync.WaitGroup
	workers := 12
	for wk := 0; wk < workers; wk++ {
		wg.Add(1)
		go func(wk int) {
			defer wg.Done()
			for i := wk; i < len(lines); i += workers {
				out[i], errs[i] = one(int64(i+1), lines[i])
			}
		}(wk)
	}
	wg.Wait()
	for i := range out {
		if errs[i] != nil {
			return errs[i]
		}
		enc.Encode(out[i])
	}
	return nil
}

// ---------------------------------------------------------------- generation

func day(t time.Time) Date { return Date{K: "d", Y: t.Year(), M: int(t.Month()), D: t.Day()} }

// offsets (days) that are clear of every threshold by >= 10 days
var sibGaps = []int{0, 1, 12, 100, 260, 290, 400, 800}
var marrAges = []int{5844 - 400, 5844 - 15, 5844 + 15, 9000, 36525 - 20, 36525 + 20}
var lifeSpans = []int{20000, 36525 - 15, 36525 + 15, 38000}

func ev(d ...Date) []Date { return append([]Date{}, d...) }

// Gen draws family graphs of 2..6 families: parents, 0..5 children each, people in several
// families, dates placed at margins, 0..n simultaneous faults.
func Gen(w io.Writer, seed int64, n int) error {
	rng := rand.New(rand.NewSource(seed))
	bw := bufio.NewWriterSize(w, 1<<20)
	defer bw.Flush()
	enc := json.NewEncoder(bw)
	base := time.Date(1800, 3, 10, 0, 0, 0, 0, time.UTC)
	for i := 0; i < n; i++ {
		d := Doc{People: []Person{}, Fams: []Family{}}
		np := 0
		newPerson := func(birth time.Time, sex string) *Person {
			np++
			x := Person{P: fmt.Sprintf("I%d", np), Sexes: []string{}, Birt: ev(day(birth)), Bapm: ev(), Deat: ev(), Buri: ev()}
			if sex != "" {
				x.Sexes = append(x.Sexes, sex)
			}
			switch rng.Intn(12) {
			case 0:
				x.Sexes = append(x.Sexes, []string{"M", "F"}[rng.Intn(2)])
			case 1:
				// (days that no calendar has, also the 29 Feb of century years that are not leap years)
				x.Birt = ev(Date{K: "bad", T: []string{"sometime", "3 Foo 1900", "32 Jan 1900", "29 Feb 1900", "29 Feb 1800", "31 Apr 1850", "29 Feb 1801"}[rng.Intn(7)]})
			case 2:
				x.Bapm = ev(day(birth.AddDate(0, 0, []int{-20, 10, 300}[rng.Intn(3)])))
			case 3:
				x.Birt = ev()
				x.Bapm = ev(day(birth))
			}
			if rng.Intn(25) == 0 { // somebody of whom nothing but the name and two sexes is recorded
				x.Sexes = []string{"M", "F"}
				x.Birt, x.Bapm = ev(), ev()
				d.People = append(d.People, x)
				return &d.People[len(d.People)-1]
			}
			if rng.Intn(2) == 0 {
				death := birth.AddDate(0, 0, lifeSpans[rng.Intn(len(lifeSpans))])
				x.Deat = ev(day(death))
				switch rng.Intn(4) {
				case 0:
					x.Buri = ev(day(death.AddDate(0, 0, 4)))
				case 1:
					x.Buri = ev(day(death.AddDate(0, 0, -15)))
				case 2:
					x.Deat = ev()
					x.Buri = ev(day(death))
				}
			}
			if rng.Intn(6) == 0 {
				// three or four kinds of event in a scrambled order (an event may be out of order with a kind that is not
				// its neighbour), sometimes with an unparsable date in between
				offs := []int{0, 40, 2000, 2040}
				rng.Shuffle(len(offs), func(a, b int) { offs[a], offs[b] = offs[b], offs[a] })
				evs := [][]Date{ev(day(birth.AddDate(0, 0, offs[0]))), ev(day(birth.AddDate(0, 0, offs[1]))), ev(day(birth.AddDate(0, 0, offs[2]))), ev(day(birth.AddDate(0, 0, offs[3])))}
				if k := rng.Intn(6); k < 4 {
					evs[k] = ev()
				}
				if k := rng.Intn(8); k < 4 && len(evs[k]) > 0 && k > 0 {
					evs[k] = ev(Date{K: "bad", T: "sometime"})
				}
				if len(evs[0]) > 0 { // the birth stays where the ages of the family are computed from
					evs[0] = ev(day(birth))
				}
				x.Birt, x.Bapm, x.Deat, x.Buri = evs[0], evs[1], evs[2], evs[3]
			}
			d.People = append(d.People, x)
			return &d.People[len(d.People)-1]
		}
		nf := 1 + rng.Intn(4)
		var prevFather string
		var prevFatherBirth time.Time
		for f := 0; f < nf; f++ {
			fb := base.AddDate(rng.Intn(60), rng.Intn(12), rng.Intn(28))
			fam := Family{P: fmt.Sprintf("F%d", f+1), Chil: []string{}, Marr: ev()}
			if prevFather != "" && rng.Intn(3) == 0 { // the same father in a second family
				fam.Husb, fb = prevFather, prevFatherBirth
			} else if rng.Intn(8) != 0 {
				fam.Husb = newPerson(fb, []string{"M", "M", "M", "F", ""}[rng.Intn(5)]).P
			}
			mb := fb.AddDate(0, 0, rng.Intn(2000)-1000)
			if rng.Intn(8) != 0 {
				fam.Wife = newPerson(mb, []string{"F", "F", "F", "M", ""}[rng.Intn(5)]).P
			}
			prevFather, prevFatherBirth = fam.Husb, fb
			if rng.Intn(3) > 0 {
				older := fb
				if mb.After(fb) {
					older = mb
				}
				_ = older
				fam.Marr = ev(day(fb.AddDate(0, 0, marrAges[rng.Intn(len(marrAges))])))
				if rng.Intn(10) == 0 {
					fam.Marr = ev(Date{K: "bad", T: "long ago"})
				}
			}
			cb := fb.AddDate(25, 0, 0)
			if mb.After(fb) {
				cb = mb.AddDate(25, 0, 0)
			}
			if rng.Intn(6) == 0 {
				cb = fb.AddDate(0, 0, -50-rng.Intn(300)) // born before the father
			}
			for c, nc := 0, rng.Intn(5); c < nc; c++ {
				if c > 0 {
					cb = cb.AddDate(0, 0, sibGaps[rng.Intn(len(sibGaps))])
				}
				fam.Chil = append(fam.Chil, newPerson(cb, []string{"M", "F"}[rng.Intn(2)]).P)
			}
			if len(d.Fams) > 0 && rng.Intn(5) == 0 && len(d.Fams[0].Chil) > 0 { // a child listed in two families
				fam.Chil = append(fam.Chil, d.Fams[0].Chil[0])
			}
			d.Fams = append(d.Fams, fam)
		}
		if !clearCut(d) { // some pair of dates is within the margin of a threshold: draw again
			i--
			continue
		}
		enc.Encode(map[string]interface{}{"doc": d})
	}
	return nil
}

func dayNo(ev []Date) (int, bool) {
	if len(ev) == 0 || ev[0].K != "d" {
		return 0, false
	}
	t := time.Date(ev[0].Y, time.Month(ev[0].M), ev[0].D, 0, 0, 0, 0, time.UTC)
	return int(t.Unix() / 86400), true
}

func near(x, threshold, margin int) bool { return x > threshold-margin && x < threshold+margin }

// clearCut is part of input generation only: it rejects graphs in which some difference of dates is
// within 10 days of a threshold (2 / 274 days, 16 / 100 years), where the 365.25-day year would decide.
func clearCut(d Doc) bool {
	byPtr := map[string]Person{}
	for _, x := range d.People {
		byPtr[x.P] = x
	}
	est := func(x Person, a, b []Date) (int, bool) {
		if len(a) > 0 {
			return dayNo(a)
		}
		return dayNo(b)
	}
	for _, x := range d.People {
		b, okb := est(x, x.Birt, x.Bapm)
		e, oke := est(x, x.Deat, x.Buri)
		if okb && oke && near(e-b, 36525, 10) {
			return false
		}
	}
	for _, f := range d.Fams {
		m, okm := dayNo(f.Marr)
		for _, s := range []string{f.Husb, f.Wife} {
			if x, ok := byPtr[s]; ok && okm {
				if b, okb := est(x, x.Birt, x.Bapm); okb && (near(m-b, 5844, 10) || near(m-b, 36525, 10)) {
					return false
				}
			}
		}
		for i := range f.Chil {
			for j := range f.Chil {
				if i == j {
					continue
				}
				a, oka := dayNo(byPtr[f.Chil[i]].Birt)
				b, okb := dayNo(byPtr[f.Chil[j]].Birt)
				if oka && okb {
					g := b - a
					if g < 0 {
						g = -g
					}
					if (g >= 2 && g < 5) || near(g, 274, 10) {
						return false
					}
				}
			}
		}
	}
	return true
}

func Main(args []string) error {
	seed, _ := strconv.ParseInt(os.Getenv("VERIF_SEED"), 10, 64)
	if len(args) == 0 {
		return fmt.Errorf("warnings: missing subcommand")
	}
	switch args[0] {
	case "exec":
		return Exec(os.Stdin, os.Stdout)
	case "gen":
		n := 100
		if len(args) > 1 {
			n, _ = strconv.Atoi(args[1])
		}
		return Gen(os.Stdout, seed, n)
	}
	return fmt.Errorf("warnings: unknown subcommand %q", args[0])
}
