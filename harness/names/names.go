// Package names binds NamesOps.tla / Names.tla to gedcom.NameNode.
//
//	vh names replay     stdin: cases emitted by TLC (value, overriding sub-tag, expected pieces and renderings);
//	                    stdout: mismatches + summary
//	vh names record N   seeded names far outside the machine's alphabet (Unicode white space, several slashes, several
//	                    sub-tags, repeated sub-tags, custom formats); stdout: one observation per name for NamesTrace
package names

import (
	"bufio"
	"encoding/json"
	"fmt"
	"io"
	"math/rand"
	"os"
	"strconv"

	"github.com/elliotchance/gedcom/v39"
)

var pieceTags = []gedcom.Tag{gedcom.TagGivenName, gedcom.TagSurname, gedcom.TagNamePrefix, gedcom.TagNameSuffix, gedcom.TagSurnamePrefix, gedcom.TagTitle}

func str(b []int) string {
	o := make([]byte, len(b))
	for i, c := range b {
		o[i] = byte(c)
	}
	return string(o)
}

func ints(s string) []int {
	o := make([]int, len(s))
	for i := 0; i < len(s); i++ {
		o[i] = int(s[i])
	}
	return o
}

type Case struct {
	Value         []int `json:"value"`
	Piece         int   `json:"piece"`
	SubVal        []int `json:"subval"`
	Given         []int `json:"given"`
	Surname       []int `json:"surname"`
	Prefix        []int `json:"prefix"`
	Suffix        []int `json:"suffix"`
	SurnamePrefix []int `json:"surnameprefix"`
	Title         []int `json:"title"`
	Written       []int `json:"written"`
	Gedcom        []int `json:"gedcom"`
	Index         []int `json:"index"`
}

func Replay(r io.Reader, w io.Writer) error {
	sc := bufio.NewScanner(r)
	sc.Buffer(make([]byte, 1<<20), 1<<24)
	bw := bufio.NewWriter(w)
	defer bw.Flush()
	enc := json.NewEncoder(bw)
	n, bad := 0, 0
	for sc.Scan() {
		var c Case
		if err := json.Unmarshal(sc.Bytes(), &c); err != nil {
			return fmt.Errorf("bad case: %v", err)
		}
		n++
		var kids []gedcom.Node
		if c.Piece > 0 {
			kids = append(kids, gedcom.NewNode(pieceTags[c.Piece-1], str(c.SubVal), ""))
		}
		nn := gedcom.NewNameNode(str(c.Value), kids...)
		got := map[string]string{"given": nn.GivenName(), "surname": nn.Surname(), "prefix": nn.Prefix(), "suffix": nn.Suffix(),
			"surnameprefix": nn.SurnamePrefix(), "title": nn.Title(), "written": nn.String(), "gedcom": nn.GedcomName(),
			"index": nn.Format(gedcom.NameFormatIndex)}
		want := map[string]string{"given": str(c.Given), "surname": str(c.Surname), "prefix": str(c.Prefix), "suffix": str(c.Suffix),
			"surnameprefix": str(c.SurnamePrefix), "title": str(c.Title), "written": str(c.Written), "gedcom": str(c.Gedcom), "index": str(c.Index)}
		for k, v := range want {
			if got[k] != v {
				bad++
				if bad <= 300 {
					enc.Encode(map[string]interface{}{"why": "NameNode " + k + " differs from NamesOps", "case": c, "obs": map[string]string{"got": got[k], "want": v, "value": str(c.Value)}})
				}
			}
		}
	}
	enc.Encode(map[string]int{"summary": 1, "cases": n, "mismatches": bad})
	return sc.Err()
}

type Obs struct {
	Value   []int    `json:"value"`
	Has     []bool   `json:"has"`
	Sub     [][]int  `json:"sub"`
	Formats [][]int  `json:"formats"`
	Out     [][]int  `json:"out"` // given, surname, prefix, suffix, surnameprefix, title, written, gedcom, index, then one per format
	Text    string   `json:"text"`
	Kids    []string `json:"kids"`
}

var fragments = []string{"John", "mary ann", "O'Neil", "van der", " ", "  ", "   ", "/", "//", "/Smith/", "/ de la Cruz /", "Jr.", "III", "\t", " ", " ", "é", "ß",
	"%", "x/y", "Dr", "", ",", "-", "Smith", "/S/", " /", "/ "}
var formatPool = []string{"%f %l", "%L, %f", "%F%%%l", "%t %p %f %m %l %s", "%q %f", "%", "%%", "%l%", "  %s  %T ", "%M %P %S", "%f  %f", "/%l/"}

func randText(rng *rand.Rand, maxParts int) string {
	s := ""
	for k := rng.Intn(maxParts + 1); k > 0; k-- {
		s += fragments[rng.Intn(len(fragments))]
		if rng.Intn(2) == 0 {
			s += " "
		}
	}
	return s
}

func Record(w io.Writer, seed int64, n int) error {
	rng := rand.New(rand.NewSource(seed))
	bw := bufio.NewWriterSize(w, 1<<20)
	defer bw.Flush()
	enc := json.NewEncoder(bw)
	for i := 0; i < n; i++ {
		value := randText(rng, 5)
		o := Obs{Value: ints(value), Has: make([]bool, 6), Sub: make([][]int, 6), Formats: [][]int{}, Out: [][]int{}, Text: value, Kids: []string{}}
		for k := range o.Sub {
			o.Sub[k] = []int{}
		}
		var kids []gedcom.Node
		for k := rng.Intn(4); k > 0; k-- { // sub-tags in any order, sometimes repeated: the first of a kind counts
			p := rng.Intn(6)
			v := randText(rng, 2)
			kids = append(kids, gedcom.NewNode(pieceTags[p], v, ""))
			o.Kids = append(o.Kids, string(pieceTags[p].Tag())+"="+v)
			if !o.Has[p] {
				o.Has[p], o.Sub[p] = true, ints(v)
			}
		}
		if rng.Intn(3) == 0 { // unrelated children do not matter
			kids = append(kids, gedcom.NewNode(gedcom.TagNote, "Smith", ""), gedcom.NewNode(gedcom.TagType, "birth", ""))
		}
		nn := gedcom.NewNameNode(value, kids...)
		outs := []string{nn.GivenName(), nn.Surname(), nn.Prefix(), nn.Suffix(), nn.SurnamePrefix(), nn.Title(), nn.String(), nn.GedcomName(), nn.Format(gedcom.NameFormatIndex)}
		for k := 0; k < 2; k++ {
			f := formatPool[rng.Intn(len(formatPool))]
			o.Formats = append(o.Formats, ints(f))
			outs = append(outs, nn.Format(gedcom.NameFormat(f)))
		}
		for _, s := range outs {
			o.Out = append(o.Out, ints(s))
		}
		enc.Encode(o)
	}
	return nil
}

func Main(args []string) error {
	seed, _ := strconv.ParseInt(os.Getenv("VERIF_SEED"), 10, 64)
	if len(args) == 0 {
		return fmt.Errorf("names: missing subcommand")
	}
	switch args[0] {
	case "replay":
		return Replay(os.Stdin, os.Stdout)
	case "record":
		n := 1000
		if len(args) > 1 {
			n, _ = strconv.Atoi(args[1])
		}
		return Record(os.Stdout, seed, n)
	}
	return fmt.Errorf("names: unknown subcommand %q", args[0])
}
