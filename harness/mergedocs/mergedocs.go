// Package mergedocs binds MergeDocsOps.tla / MergeDocs.tla (C10) to
// MergeDocumentsAndIndividuals (library call and query function).
//
//	vh mergedocs exec     stdin: {"left": abstract doc, "right": abstract doc}; stdout: observations
//	vh mergedocs gen N    seeded larger pairs (base graph + independently edited copy, disjoint, clashing)
package mergedocs

import (
	"bufio"
	"encoding/json"
	"fmt"
	"io"
	"math/rand"
	"os"
	"regexp"
	"strconv"
	"strings"

	"github.com/elliotchance/gedcom/v39"
	"github.com/elliotchance/gedcom/v39/q"
)

type Person struct {
	P   string `json:"p"`
	Who int    `json:"who"`
	// Like: a different person (its own who) who is called like person Like and born a year later, without a unique
	// identifier: similar enough to be trusted by pointer, but never the best match of anybody who is there
	Like int `json:"like"`
}

type Family struct {
	P    string   `json:"p"`
	Husb string   `json:"husb"`
	Wife string   `json:"wife"`
	Chil []string `json:"chil"`
}

type Doc struct {
	People []Person `json:"people"`
	Fams   []Family `json:"fams"`
}

type Case struct {
	Left      Doc     `json:"left"`
	Right     Doc     `json:"right"`
	Threshold float64 `json:"threshold"` // 0 = default options
}

var given = []string{"Zed", "Adam", "Bertha", "Conrad", "Dorothea", "Edmund", "Frederica", "Gustav", "Henrietta", "Ignatius", "Josephine",
	"Konrad", "Leopoldine", "Maximilian", "Nepomuk", "Ottilie", "Percival", "Quirin", "Rosalind", "Sigismund", "Theodora", "Ulrich", "Valentina"}
var sur = []string{"Zz", "Alderman", "Brightwater", "Cunningham", "Drummond", "Eversleigh", "Fotheringay", "Greenhalgh", "Hollingsworth",
	"Islington", "Jaggard", "Kettlewell", "Lumbsden", "Mountjoy", "Netherwood", "Oglethorpe", "Pennington", "Quarrington", "Ravenscroft",
	"Sotheby", "Thistlewood", "Uppington", "Vavasour"}

// text materialises an abstract document: names and dates by who (same who = same person, clear-cut
// similarity), marker notes and per-person facts (a flat one and one nested below BIRT), FAMS/FAMC links.
func text(d Doc, side string) string {
	var b strings.Builder
	b.WriteString("0 HEAD\n")
	for i, x := range d.People {
		nameOf, year := x.Who, 1600+13*x.Who
		if x.Like != 0 {
			nameOf, year = x.Like, 1600+13*x.Like+1
		}
		w := nameOf % len(given)
		w2 := (nameOf / len(given)) % len(sur)
		// facts: a flat one (OCCU), one below an event (PLAC below BIRT is the same town on both sides, so the
		// two PLAC nodes are equal and merge) and deep ones below nodes that are EQUAL on both sides (DATE, PLAC)
		fmt.Fprintf(&b, "0 @%s@ INDI\n1 NAME %s /%s/\n1 BIRT\n2 DATE %d %s %d\n3 NOTE deepdate:%s:%d\n2 PLAC town%d\n3 NOTE deepplace:%s:%d\n2 NOTE place:%s:%d\n1 NOTE mark:%s:%d\n1 OCCU fact:%s:%d\n1 SEX %s\n2 NOTE sexnote:%s:%d\n",
			x.P, given[w], sur[(w+w2)%len(sur)], 1+nameOf%27, []string{"Jan", "Mar", "May", "Jul", "Sep", "Nov"}[nameOf%6], year,
			side, i+1, x.Who, side, i+1, side, i+1, side, i+1, side, i+1, []string{"M", "F"}[nameOf%2], side, i+1) // a fact below the SEX line too
		if x.Who%2 == 0 && x.Like == 0 { // half of the people carry a unique identifier (the same on both sides)
			fmt.Fprintf(&b, "1 _UID %032X\n", 0xFEED0000+x.Who)
		}
		// most people are fully dated (the same death date on both sides), so that some pairs are as similar as two
		// records can be while each side still knows things the other does not
		ddate := ""
		if x.Who%7 != 6 {
			ddate = fmt.Sprintf("2 DATE %d %s %d\n", 1+x.Who%27, []string{"Feb", "Apr", "Jun", "Aug", "Oct", "Dec"}[x.Who%6], 1660+13*x.Who)
		}
		if x.Who%5 == 1 && side == "R" { // the right side knows the event but no detail: a leaf where the left has a subtree
			fmt.Fprintf(&b, "1 DEAT\n%s2 PLAC town%d\n", ddate, x.Who)
		} else if x.Who%5 == 1 {
			fmt.Fprintf(&b, "1 DEAT\n%s2 PLAC town%d\n3 MAP\n4 LATI deeplati:%s:%d\n", ddate, x.Who, side, i+1)
		}
		if x.Who%5 == 2 && side == "L" { // and the other way round
			fmt.Fprintf(&b, "1 DEAT\n%s2 PLAC town%d\n", ddate, x.Who)
		} else if x.Who%5 == 2 {
			fmt.Fprintf(&b, "1 DEAT\n%s2 PLAC town%d\n3 MAP\n4 LATI deeplati:%s:%d\n", ddate, x.Who, side, i+1)
		}
		if x.Who%5 != 1 && x.Who%5 != 2 && ddate != "" {
			fmt.Fprintf(&b, "1 DEAT\n%s", ddate)
		}
		for _, f := range d.Fams {
			if f.Husb == x.P || f.Wife == x.P {
				fmt.Fprintf(&b, "1 FAMS @%s@\n", f.P)
			}
			for _, c := range f.Chil {
				if c == x.P {
					fmt.Fprintf(&b, "1 FAMC @%s@\n", f.P)
				}
			}
		}
	}
	for k, f := range d.Fams {
		fmt.Fprintf(&b, "0 @%s@ FAM\n", f.P)
		if f.Husb != "" {
			fmt.Fprintf(&b, "1 HUSB @%s@\n", f.Husb)
		}
		if f.Wife != "" {
			fmt.Fprintf(&b, "1 WIFE @%s@\n", f.Wife)
		}
		for _, c := range f.Chil {
			fmt.Fprintf(&b, "1 CHIL @%s@\n", c)
		}
		fmt.Fprintf(&b, "1 NOTE mark:%sF:%d\n", side, k+1)
	}
	b.WriteString("0 TRLR\n")
	return b.String()
}

type Src []interface{} // ["L", 3]

type OutPerson struct {
	P     string `json:"p"`
	Src   []Src  `json:"src"`
	Facts bool   `json:"facts"` // holds every fact of every individual it stems from
	Fams  []string `json:"fams"`  // FAMS values (pointers)
	Famc  []string `json:"famc"`  // FAMC values
}

type OutFamily struct {
	P    string   `json:"p"`
	Src  []Src    `json:"src"`
	Husb []string `json:"husb"`
	Wife []string `json:"wife"`
	Chil []string `json:"chil"`
}

type Out struct {
	OK     bool        `json:"ok"`  // the merge returned a document
	Err    string      `json:"err"` // error or panic
	Decode bool        `json:"decodes"`
	People []OutPerson `json:"people"`
	Fams   []OutFamily `json:"fams"`
}

var markRe = regexp.MustCompile(`^mark:([LR])(F?):(\d+)$`)

func ptr(v string) string {
	if len(v) > 2 && v[0] == '@' && v[len(v)-1] == '@' {
		return v[1 : len(v)-1]
	}
	return v
}

func projectOut(doc *gedcom.Document, deep map[string]bool) Out {
	o := Out{OK: true, People: []OutPerson{}, Fams: []OutFamily{}}
	txt := doc.String()
	re, err := gedcom.NewDocumentFromString(txt)
	if err != nil {
		o.Err = "output does not decode: " + err.Error()
		return o
	}
	o.Decode = true
	for _, n := range re.Nodes() {
		switch n.Tag().Tag() {
		case "INDI":
			p := OutPerson{P: n.Pointer(), Src: []Src{}, Facts: true, Fams: []string{}, Famc: []string{}}
			g := n.GEDCOMString(0)
			for _, k := range n.Nodes() {
				switch k.Tag().Tag() {
				case "FAMS":
					p.Fams = append(p.Fams, ptr(k.Value()))
				case "FAMC":
					p.Famc = append(p.Famc, ptr(k.Value()))
				}
				if m := markRe.FindStringSubmatch(k.Value()); m != nil && m[2] == "" && k.Tag().Tag() == "NOTE" {
					idx, _ := strconv.Atoi(m[3])
					p.Src = append(p.Src, Src{m[1], idx})
					for _, want := range []string{"1 OCCU fact:", "2 NOTE place:", "3 NOTE deepdate:", "3 NOTE deepplace:", "2 NOTE sexnote:"} {
						if !strings.Contains(g+"\n", fmt.Sprintf("%s%s:%d\n", want, m[1], idx)) {
							p.Facts = false
						}
					}
					if deep[fmt.Sprintf("%s:%d", m[1], idx)] && !strings.Contains(g+"\n", fmt.Sprintf("4 LATI deeplati:%s:%d\n", m[1], idx)) {
						p.Facts = false
					}
				}
			}
			o.People = append(o.People, p)
		case "FAM":
			f := OutFamily{P: n.Pointer(), Src: []Src{}, Husb: []string{}, Wife: []string{}, Chil: []string{}}
			for _, k := range n.Nodes() {
				switch k.Tag().Tag() {
				case "HUSB":
					f.Husb = append(f.Husb, ptr(k.Value()))
				case "WIFE":
					f.Wife = append(f.Wife, ptr(k.Value()))
				case "CHIL":
					f.Chil = append(f.Chil, ptr(k.Value()))
				case "NOTE":
					if m := markRe.FindStringSubmatch(k.Value()); m != nil && m[2] == "F" {
						idx, _ := strconv.Atoi(m[3])
						f.Src = append(f.Src, Src{m[1], idx})
					}
				}
			}
			o.Fams = append(o.Fams, f)
		}
	}
	return o
}

func guard(deep map[string]bool, f func() (*gedcom.Document, error)) (o Out) {
	defer func() {
		if r := recover(); r != nil {
			o = Out{Err: "panic: " + fmt.Sprint(r), People: []OutPerson{}, Fams: []OutFamily{}}
		}
	}()
	doc, err := f()
	if err != nil {
		return Out{Err: err.Error(), People: []OutPerson{}, Fams: []OutFamily{}}
	}
	if doc == nil {
		return Out{Err: "nil document", People: []OutPerson{}, Fams: []OutFamily{}}
	}
	return projectOut(doc, deep)
}

type Obs struct {
	Left    Doc  `json:"left"`
	Right   Doc  `json:"right"`
	Default bool `json:"default"` // default similarity options (the query function always uses them)
	Lib     Out  `json:"lib"`
	Query   Out  `json:"query"`
}

func run(c Case) Obs {
	o := Obs{Left: c.Left, Right: c.Right, Default: c.Threshold == 0}
	lt, rt := text(c.Left, "L"), text(c.Right, "R")
	deep := map[string]bool{} // which input individuals carry the deep LATI fact
	for _, side := range []struct {
		name string
		t    string
	}{{"L", lt}, {"R", rt}} {
		for _, m := range regexp.MustCompile(`deeplati:([LR]:\d+)`).FindAllStringSubmatch(side.t, -1) {
			deep[m[1]] = true
		}
	}
	o.Lib = guard(deep, func() (*gedcom.Document, error) {
		l, err := gedcom.NewDocumentFromString(lt)
		if err != nil {
			return nil, err
		}
		r, err := gedcom.NewDocumentFromString(rt)
		if err != nil {
			return nil, err
		}
		opts := gedcom.NewIndividualNodesCompareOptions()
		if c.Threshold != 0 {
			opts.SimilarityOptions.MinimumWeightedSimilarity = c.Threshold
			opts.SimilarityOptions.MinimumSimilarity = c.Threshold
		}
		return gedcom.MergeDocumentsAndIndividuals(l, r, gedcom.EqualityMergeFunction, opts)
	})
	o.Query = guard(deep, func() (*gedcom.Document, error) {
		l, err := gedcom.NewDocumentFromString(lt)
		if err != nil {
			return nil, err
		}
		r, err := gedcom.NewDocumentFromString(rt)
		if err != nil {
			return nil, err
		}
		eng, err := q.NewParser().ParseString("MergeDocumentsAndIndividuals(Document1, Document2)")
		if err != nil {
			return nil, err
		}
		v, err := eng.Evaluate([]*gedcom.Document{l, r})
		if err != nil {
			return nil, err
		}
		d, ok := v.(*gedcom.Document)
		if !ok {
			return nil, fmt.Errorf("query returned %T", v)
		}
		return d, nil
	})
	return o
}

func Exec(r io.Reader, w io.Writer) error {
	sc := bufio.NewScanner(r)
	sc.Buffer(make([]byte, 1<<20), 1<<26)
	bw := bufio.NewWriterSize(w, 1<<20)
	defer bw.Flush()
	enc := json.NewEncoder(bw)
	for sc.Scan() {
		var c Case
		if err := json.Unmarshal(sc.Bytes(), &c); err != nil {
			return fmt.Errorf("bad case: %v", err)
		}
		for i := range c.Left.Fams {
			if c.Left.Fams[i].Chil == nil {
				c.Left.Fams[i].Chil = []string{}
			}
		}
		for i := range c.Right.Fams {
			if c.Right.Fams[i].Chil == nil {
				c.Right.Fams[i].Chil = []string{}
			}
		}
		if c.Left.People == nil {
			c.Left.People = []Person{}
		}
		if c.Right.People == nil {
			c.Right.People = []Person{}
		}
		if c.Left.Fams == nil {
			c.Left.Fams = []Family{}
		}
		if c.Right.Fams == nil {
			c.Right.Fams = []Family{}
		}
		enc.Encode(run(c))
	}
	return sc.Err()
}

// ---------------------------------------------------------------- generation

func baseGraph(rng *rand.Rand, who0 int, np, nf int, prefix string) Doc {
	d := Doc{People: []Person{}, Fams: []Family{}}
	for i := 0; i < np; i++ {
		d.People = append(d.People, Person{P: fmt.Sprintf("%sI%d", prefix, i+1), Who: who0 + i})
	}
	for k := 0; k < nf && np >= 2; k++ {
		perm := rng.Perm(np)
		f := Family{P: fmt.Sprintf("%sF%d", prefix, k+1), Chil: []string{}}
		f.Husb = d.People[perm[0]].P
		if rng.Intn(4) > 0 {
			f.Wife = d.People[perm[1]].P
		}
		for c := 2; c < len(perm) && c < 2+rng.Intn(4); c++ {
			f.Chil = append(f.Chil, d.People[perm[c]].P)
		}
		d.Fams = append(d.Fams, f)
	}
	return d
}

func cloneDoc(d Doc) Doc {
	o := Doc{People: append([]Person{}, d.People...), Fams: []Family{}}
	for _, f := range d.Fams {
		f.Chil = append([]string{}, f.Chil...)
		o.Fams = append(o.Fams, f)
	}
	return o
}

func rename(d *Doc, m func(string) string, famsToo bool) {
	for i := range d.People {
		d.People[i].P = m(d.People[i].P)
	}
	for i := range d.Fams {
		f := &d.Fams[i]
		if famsToo {
			f.P = m(f.P)
		}
		if f.Husb != "" {
			f.Husb = m(f.Husb)
		}
		if f.Wife != "" {
			f.Wife = m(f.Wife)
		}
		for c := range f.Chil {
			f.Chil[c] = m(f.Chil[c])
		}
	}
}

func Gen(w io.Writer, seed int64, n int) error {
	rng := rand.New(rand.NewSource(seed))
	enc := json.NewEncoder(w)
	for i := 0; i < n; i++ {
		np, nf := 2+rng.Intn(8), 1+rng.Intn(3)
		left := baseGraph(rng, 1+rng.Intn(5), np, nf, "")
		var right Doc
		switch rng.Intn(6) {
		case 0: // disjoint documents
			right = baseGraph(rng, 200, 1+rng.Intn(5), rng.Intn(3), "Z")
		case 1: // empty side
			right = Doc{People: []Person{}, Fams: []Family{}}
			if rng.Intn(2) == 0 {
				left, right = right, left
			}
		default: // independently edited copy
			right = cloneDoc(left)
			switch rng.Intn(5) {
			case 4: // the families were re-entered under other pointers, the individuals kept theirs
				for k := range right.Fams {
					right.Fams[k].P = "Y" + right.Fams[k].P
				}
			case 0: // pointers kept
			case 1: // all renumbered
				rename(&right, func(p string) string { return "X" + p }, true)
			case 2: // individuals renumbered, families keep their pointers
				rename(&right, func(p string) string { return "X" + p }, false)
			case 3: // shifted by one: every pointer now names somebody else (clashing pointers)
				ptrs := []string{}
				for _, x := range right.People {
					ptrs = append(ptrs, x.P)
				}
				idx := map[string]int{}
				for k, p := range ptrs {
					idx[p] = k
				}
				rename(&right, func(p string) string { return ptrs[(idx[p]+1)%len(ptrs)] }, false)
			}
			// drop people nobody refers to, add strangers
			for k := len(right.People) - 1; k >= 0; k-- {
				used := false
				for _, f := range right.Fams {
					if f.Husb == right.People[k].P || f.Wife == right.People[k].P {
						used = true
					}
					for _, c := range f.Chil {
						if c == right.People[k].P {
							used = true
						}
					}
				}
				if !used && rng.Intn(2) == 0 {
					right.People = append(right.People[:k], right.People[k+1:]...)
				}
			}
			for k, m := 0, rng.Intn(3); k < m; k++ {
				right.People = append(right.People, Person{P: fmt.Sprintf("N%d", k+1), Who: 300 + k})
			}
			if rng.Intn(5) == 0 {
				right.Fams = []Family{}
			}
			// a namesake on the left under the pointer that the right copy of somebody with a unique identifier now has
			if rng.Intn(3) == 0 {
				for _, rp := range right.People {
					if rp.Who%2 != 0 || rp.Who >= 300 {
						continue
					}
					taken, there, samePtr := false, false, false
					for _, lp := range left.People {
						if lp.P == rp.P {
							taken = true
						}
						if lp.Who == rp.Who {
							there = true
							samePtr = lp.P == rp.P
						}
					}
					if there && !samePtr && !taken {
						left.People = append(left.People, Person{P: rp.P, Who: 500 + rp.Who, Like: rp.Who})
						break
					}
				}
			}
		}
		c := Case{Left: left, Right: right}
		if rng.Intn(4) == 0 {
			c.Threshold = []float64{0.95, 0.5}[rng.Intn(2)]
		}
		enc.Encode(c)
	}
	return nil
}

func Main(args []string) error {
	seed, _ := strconv.ParseInt(os.Getenv("VERIF_SEED"), 10, 64)
	if len(args) == 0 {
		return fmt.Errorf("mergedocs: missing subcommand")
	}
	switch args[0] {
	case "exec":
		return Exec(os.Stdin, os.Stdout)
	case "gen":
		n := 100
		if len(args) > 1 {
			n, _ = strconv.Atoi(args[1])
		}
		return Gen(os.Stdout, seed, n)
	}
	return fmt.Errorf("mergedocs: unknown subcommand %q", args[0])
}
