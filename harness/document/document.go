// Package document binds DocumentOps.tla / Document.tla (C13) to the real
// Document / IndividualNode / FamilyNode API.
//
//	vh document exec       stdin: histories {"ops":[op, ...]} (from TLC or from `gen`)
//	                       stdout: one observation per STEP for DocumentTrace.tla
//	vh document gen N L    N seeded random histories of L operations on a larger universe
//
// After every operation the harness reads every view on the live document
// (twice, so that lazily filled caches are warm), then the same views on a
// fresh decode of the document's current text, and runs one read-only
// operation.  It only executes and projects; TLC judges.
package document

import (
	"bufio"
	"encoding/json"
	"fmt"
	"io"
	"math/rand"
	"os"
	"strconv"
	"strings"

	"github.com/elliotchance/gedcom/v39"
	"github.com/elliotchance/gedcom/v39/q"
)

type ANode struct {
	T    string  `json:"t"`
	V    string  `json:"v"`
	P    string  `json:"p"`
	Kids []ANode `json:"kids"`
}

type Op struct {
	K    string  `json:"k"`
	P    string  `json:"p"`
	H    string  `json:"h"`
	W    string  `json:"w"`
	F    string  `json:"f"`
	I    string  `json:"i"`
	Rt   string  `json:"rt"`
	Rp   string  `json:"rp"`
	T    string  `json:"t"`
	V    string  `json:"v"`
	Kids []ANode `json:"kids"`
}

type History struct {
	Ops []Op `json:"ops"`
}

type FamView struct {
	Husb string   `json:"husb"`
	Wife string   `json:"wife"`
	Chil []string `json:"chil"`
}

type IndiView struct {
	Names    []string `json:"names"`
	Fams     []string `json:"fams"`
	Famc     []string `json:"famc"`
	Families []string `json:"families"`
	Spouses  []string `json:"spouses"`
	Parents  []string `json:"parents"`
	Children []string `json:"children"`
}

type Views struct {
	Individuals []string   `json:"individuals"`
	Families    []string   `json:"families"`
	Fam         []FamView  `json:"fam"`
	Indi        []IndiView `json:"indi"`
}

// Extra facts that the abstract views do not carry.
type Facts struct {
	ByPtr  map[string]string `json:"byptr"`  // NodeByPointer(p) -> tag ("" = nil) for every pointer of the universe
	Ghosts int               `json:"ghosts"` // nodes returned by some view that are not nodes of the document any more
	Panic  string            `json:"panic"`
}

func absNode(n gedcom.Node) ANode {
	a := ANode{T: n.Tag().Tag(), V: n.Value(), P: n.Pointer(), Kids: []ANode{}}
	for _, k := range n.Nodes() {
		a.Kids = append(a.Kids, absNode(k))
	}
	return a
}

func forest(doc *gedcom.Document) []ANode {
	out := []ANode{}
	for _, n := range doc.Nodes() {
		out = append(out, absNode(n))
	}
	return out
}

func vals(ns gedcom.Nodes) []string {
	out := []string{}
	for _, n := range ns {
		out = append(out, n.Value())
	}
	return out
}

func reachable(doc *gedcom.Document) map[gedcom.Node]bool {
	m := map[gedcom.Node]bool{}
	var walk func(n gedcom.Node)
	walk = func(n gedcom.Node) {
		m[n] = true
		for _, k := range n.Nodes() {
			walk(k)
		}
	}
	for _, n := range doc.Nodes() {
		walk(n)
	}
	return m
}

func readViews(doc *gedcom.Document, universe []string) (v Views, f Facts) {
	v = Views{Individuals: []string{}, Families: []string{}, Fam: []FamView{}, Indi: []IndiView{}}
	f = Facts{ByPtr: map[string]string{}}
	defer func() {
		if r := recover(); r != nil {
			f.Panic = fmt.Sprint(r)
			if len(f.Panic) > 160 {
				f.Panic = f.Panic[:160]
			}
		}
	}()
	live := reachable(doc)
	seen := func(n gedcom.Node) {
		if !gedcom.IsNil(n) && !live[n] {
			f.Ghosts++
		}
	}
	for _, i := range doc.Individuals() {
		seen(i)
		v.Individuals = append(v.Individuals, i.Pointer())
		iv := IndiView{Names: []string{}, Families: []string{}, Spouses: []string{}, Parents: []string{}, Children: []string{}}
		for _, n := range i.Names() {
			seen(n)
			iv.Names = append(iv.Names, n.Value())
		}
		fams := gedcom.NodesWithTag(i, gedcom.TagFamilySpouse)
		famc := gedcom.NodesWithTag(i, gedcom.TagFamilyChild)
		for _, n := range append(append(gedcom.Nodes{}, fams...), famc...) {
			seen(n)
		}
		iv.Fams, iv.Famc = vals(fams), vals(famc)
		for _, fam := range i.Families() {
			seen(fam)
			iv.Families = append(iv.Families, fam.Pointer())
		}
		for _, s := range i.Spouses() {
			if s == nil {
				iv.Spouses = append(iv.Spouses, "")
			} else {
				seen(s)
				iv.Spouses = append(iv.Spouses, s.Pointer())
			}
		}
		for _, fam := range i.Parents() {
			seen(fam)
			iv.Parents = append(iv.Parents, fam.Pointer())
		}
		for _, c := range i.Children() {
			seen(c)
			iv.Children = append(iv.Children, c.Value())
		}
		v.Indi = append(v.Indi, iv)
	}
	for _, fam := range doc.Families() {
		seen(fam)
		v.Families = append(v.Families, fam.Pointer())
		fv := FamView{Chil: []string{}}
		if h := fam.Husband(); h != nil {
			seen(h)
			fv.Husb = h.Value()
		}
		if w := fam.Wife(); w != nil {
			seen(w)
			fv.Wife = w.Value()
		}
		for _, c := range fam.Children() {
			seen(c)
			fv.Chil = append(fv.Chil, c.Value())
		}
		v.Fam = append(v.Fam, fv)
	}
	for _, p := range universe {
		n := doc.NodeByPointer(p)
		if gedcom.IsNil(n) {
			f.ByPtr[p] = ""
		} else {
			seen(n)
			f.ByPtr[p] = n.Tag().Tag()
		}
	}
	return v, f
}

func findRoot(doc *gedcom.Document, tag, ptr string) gedcom.Node {
	for _, n := range doc.Nodes() {
		if n.Pointer() == ptr && n.Tag().Tag() == tag {
			return n
		}
	}
	return nil
}

func buildA(a ANode) gedcom.Node {
	n := gedcom.NewNode(gedcom.TagFromString(a.T), a.V, a.P)
	for _, k := range a.Kids {
		n.AddNode(buildA(k))
	}
	return n
}

// apply performs one public API call; it returns false if the driver asked for something
// the document cannot do (missing record): that is a driver error, never a finding.
func apply(doc *gedcom.Document, op Op) (ok bool, panicMsg string) {
	defer func() {
		if r := recover(); r != nil {
			ok, panicMsg = true, fmt.Sprint(r)
			if len(panicMsg) > 160 {
				panicMsg = panicMsg[:160]
			}
		}
	}()
	indi := func(p string) *gedcom.IndividualNode {
		n, _ := findRoot(doc, "INDI", p).(*gedcom.IndividualNode)
		return n
	}
	fam := func(p string) *gedcom.FamilyNode {
		n, _ := findRoot(doc, "FAM", p).(*gedcom.FamilyNode)
		return n
	}
	switch op.K {
	case "AddIndividual":
		doc.AddIndividual(op.P)
	case "AddFamily":
		doc.AddFamily(op.P)
	case "AddFamilyWithHusbandAndWife":
		h, w := indi(op.H), indi(op.W)
		if h == nil || w == nil {
			return false, ""
		}
		doc.AddFamilyWithHusbandAndWife(op.P, h, w)
	case "SetHusband", "SetWife", "AddChild":
		f, i := fam(op.F), indi(op.I)
		if f == nil || i == nil {
			return false, ""
		}
		switch op.K {
		case "SetHusband":
			f.SetHusband(i)
		case "SetWife":
			f.SetWife(i)
		default:
			f.AddChild(i)
		}
	case "ClearHusband", "ClearWife":
		f := fam(op.F)
		if f == nil {
			return false, ""
		}
		if op.K == "ClearHusband" {
			f.SetHusband(nil)
		} else {
			f.SetWife(nil)
		}
	case "AddNode":
		r := findRoot(doc, op.Rt, op.Rp)
		if r == nil {
			return false, ""
		}
		r.AddNode(gedcom.NewNode(gedcom.TagFromString(op.T), op.V, ""))
	case "DeleteNode":
		r := findRoot(doc, op.Rt, op.Rp)
		if r == nil {
			return false, ""
		}
		for _, k := range r.Nodes() {
			if k.Tag().Tag() == op.T {
				r.DeleteNode(k)
				return true, ""
			}
		}
		return false, ""
	case "SetNodes":
		r := findRoot(doc, op.Rt, op.Rp)
		if r == nil {
			return false, ""
		}
		ks := gedcom.Nodes{}
		for _, k := range op.Kids {
			ks = append(ks, buildA(k))
		}
		r.SetNodes(ks)
	case "DocAddNode":
		doc.AddNode(gedcom.NewNode(gedcom.TagFromString(op.T), op.V, op.P))
	case "DocDeleteNode":
		r := findRoot(doc, op.Rt, op.Rp)
		if r == nil {
			return false, ""
		}
		doc.DeleteNode(r)
		stale[op.Rt+" "+op.Rp] = r
	case "DocDeleteStale":
		// a caller that kept the handle of a record it removed earlier asks for its removal again (a record with the
		// same pointer may have been added since): the document does not hold that node, nothing may change
		r := stale[op.Rt+" "+op.Rp]
		if r == nil {
			return false, ""
		}
		doc.DeleteNode(r)
	case "DocDeleteForeign":
		// removal of a node that lives in another document (a copy of one of this document's records)
		r := findRoot(doc, op.Rt, op.Rp)
		if r == nil {
			return false, ""
		}
		doc.DeleteNode(gedcom.DeepCopy(r, gedcom.NewDocument()))
	default:
		return false, ""
	}
	return true, ""
}

var readOps = []string{"Warnings", "String", "Compare", "SurroundingSimilarity", "CompareNodes", "DeepCopy", "Filter", "Query", "GEDCOMString", "MergeInto"}

// readOnly runs one read-only operation; the return value is a panic message ("" = fine).
func readOnly(doc *gedcom.Document, name string) (msg string) {
	defer func() {
		if r := recover(); r != nil {
			msg = fmt.Sprint(r)
			if len(msg) > 160 {
				msg = msg[:160]
			}
		}
	}()
	switch name {
	case "Warnings":
		_ = doc.Warnings().Strings()
	case "String":
		_ = doc.String()
	case "GEDCOMString":
		for _, n := range doc.Nodes() {
			_ = n.GEDCOMString(0)
			_ = n.String()
		}
	case "Compare":
		// Compare works in goroutines of its own (a panic there cannot be recovered; the crash sites for
		// dangling / wrong-kind references were repaired in /repo, see known_findings.json C14)
		other, err := gedcom.NewDocumentFromString(doc.String())
		if err == nil {
			opts := gedcom.NewIndividualNodesCompareOptions()
			opts.Jobs = 1
			_ = doc.Individuals().Compare(other.Individuals(), opts)
		}
	case "SurroundingSimilarity":
		is := doc.Individuals()
		for a := range is {
			for b := range is {
				_ = is[a].SurroundingSimilarity(is[b], gedcom.NewSimilarityOptions(), false)
			}
		}
	case "CompareNodes":
		ns := doc.Nodes()
		for a := 0; a+1 < len(ns); a++ {
			if ns[a].Tag().Is(ns[a+1].Tag()) {
				d := gedcom.CompareNodes(ns[a], ns[a+1])
				_ = d.String()
				d.Sort()
				_ = d.IsDeepEqual()
			}
		}
	case "DeepCopy":
		target := gedcom.NewDocument()
		for _, n := range doc.Nodes() {
			if c := gedcom.DeepCopy(n, target); c != nil {
				_ = c.GEDCOMString(0)
			}
		}
	case "Filter":
		target := gedcom.NewDocument()
		for _, n := range doc.Nodes() {
			_ = gedcom.Filter(n, target, gedcom.OfficialTagFilter())
			_ = gedcom.Filter(n, target, gedcom.BlacklistTagFilter(gedcom.TagNote))
		}
	case "MergeInto":
		target := gedcom.NewDocument()
		_ = gedcom.MergeDocuments(doc, doc, target, gedcom.EqualityMergeFunction)
	case "Query":
		for _, qs := range []string{".Individuals | .Name | .String", ".Families | { h: .Husband | .String, w: .Wife | .String }",
			".Individuals | Only(.Families | Length = 0) | .Pointer", ".Nodes | Length", ".Individuals | .Spouses | .Pointer",
			".Families | Only(.Children | Length > 0) | .Pointer", ".Individuals | First(1) | .Parents", ".Nodes | Last(2) | .Tag",
			// filters, prefixes and concatenations applied directly to the lists the API hands out
			`.Nodes | Only(.Pointer != "I1")`, `.Nodes | Only(.Pointer = "I2") | .Pointer`, `.Families | Only(.Pointer != "F1")`,
			`.Nodes | Only(.Pointer = "")`, `.Individuals | Only(.Pointer != "I1") | .Pointer`,
			"Combine(.Nodes | First(1), .Nodes | Last(1)) | .Pointer", "Combine(.Families | First(1), .Families | Last(2))",
			"Combine(.Individuals | First(1), .Individuals) | Length", ".Nodes | First(1) | .Nodes | Only(.Value != \"\")",
			".Nodes | Last(1)", ".Families | First(1) | .Children", ".Individuals | .Names | Length"} {
			func() {
				defer func() { // a panicking query (C15) must not hide the next ones
					if r := recover(); r != nil && msg == "" {
						msg = fmt.Sprint(r)
						if len(msg) > 160 {
							msg = msg[:160]
						}
					}
				}()
				eng, err := q.NewParser().ParseString(qs)
				if err != nil {
					return
				}
				_, _ = eng.Evaluate([]*gedcom.Document{doc})
			}()
		}
		return msg
	}
	return ""
}

type Obs struct {
	Hist   int               `json:"hist"`
	Step   int               `json:"step"`
	Pre    []ANode           `json:"pre"`
	Op     Op                `json:"op"`
	Post   []ANode           `json:"post"`
	TextOK bool              `json:"textok"` // the text decodes again, to the same forest
	Live   Views             `json:"live"`
	LiveF  Facts             `json:"livef"`
	Fresh  Views             `json:"fresh"`
	FreshF Facts             `json:"freshf"`
	Read   string            `json:"read"`     // the read-only operation run after the step
	ReadOK map[string]bool   `json:"readok"`   // text / forest / views unchanged by it
	ReadP  string            `json:"readp"`    // its panic, if any
	OpP    string            `json:"oppanic"`  // panic inside the edit operation
	Driver string            `json:"driver"`   // "" or why the driver's request could not be issued
	Extra  map[string]string `json:"-"`
}

func sameJSON(a, b interface{}) bool {
	x, _ := json.Marshal(a)
	y, _ := json.Marshal(b)
	return string(x) == string(y)
}

func universeOf(h History) []string {
	set := map[string]bool{}
	for _, op := range h.Ops {
		for _, p := range []string{op.P, op.H, op.W, op.F, op.I, op.Rp} {
			if p != "" {
				set[p] = true
			}
		}
	}
	out := []string{}
	for p := range set {
		out = append(out, p)
	}
	// deterministic order
	for i := range out {
		for j := i + 1; j < len(out); j++ {
			if out[j] < out[i] {
				out[i], out[j] = out[j], out[i]
			}
		}
	}
	return out
}

// handles of root records that were removed from the document of the current history (DocDeleteStale)
var stale = map[string]gedcom.Node{}

func runHistory(id int, h History, enc *json.Encoder) {
	doc := gedcom.NewDocument()
	stale = map[string]gedcom.Node{}
	uni := universeOf(h)
	pre := forest(doc)
	for k, op := range h.Ops {
		if op.Kids == nil {
			op.Kids = []ANode{}
		}
		o := Obs{Hist: id, Step: k + 1, Pre: pre, Op: op, ReadOK: map[string]bool{}}
		ok, pmsg := apply(doc, op)
		o.OpP = pmsg
		if !ok {
			o.Driver = "operation not applicable"
			o.Post = pre
			ev := Views{Individuals: []string{}, Families: []string{}, Fam: []FamView{}, Indi: []IndiView{}}
			o.Live, o.Fresh = ev, ev
			o.LiveF, o.FreshF = Facts{ByPtr: map[string]string{}}, Facts{ByPtr: map[string]string{}}
			enc.Encode(o)
			return
		}
		o.Post = forest(doc)
		if id%3 == 2 && k%2 == 0 {
			// sparse reading: in every third history every other step looks at ONE view only (the children of each family),
			// so that caches which are validated as a side effect of reading other views stay as they are across edits
			fams := doc.Families()
			liveChil := make([][]string, len(fams))
			for i, f := range fams {
				liveChil[i] = []string{}
				for _, c := range f.Children() {
					liveChil[i] = append(liveChil[i], c.Value())
				}
			}
			text := doc.String()
			fresh, err := gedcom.NewDocumentFromString(text)
			if err == nil {
				o.TextOK = sameJSON(forest(fresh), o.Post)
				o.Fresh, o.FreshF = readViews(fresh, uni)
				var live Views
				b, _ := json.Marshal(o.Fresh)
				json.Unmarshal(b, &live)
				if len(live.Fam) == len(fams) {
					for i := range fams {
						live.Fam[i].Chil = liveChil[i]
					}
				}
				o.Live, o.LiveF = live, o.FreshF
				o.Read = "none"
				o.ReadOK["text"], o.ReadOK["forest"], o.ReadOK["views"] = true, true, true
				enc.Encode(o)
				pre = o.Post
				continue
			}
		}
		// live views first (a decode resets the global children-by-tag cache), twice: the
		// children-by-tag cache is only filled by the second lookup of a key
		readViews(doc, uni)
		o.Live, o.LiveF = readViews(doc, uni)
		text := doc.String()
		fresh, err := gedcom.NewDocumentFromString(text)
		if err == nil {
			o.TextOK = sameJSON(forest(fresh), o.Post)
			o.Fresh, o.FreshF = readViews(fresh, uni)
		} else {
			o.Fresh, o.FreshF = Views{Individuals: []string{}, Families: []string{}, Fam: []FamView{}, Indi: []IndiView{}}, Facts{ByPtr: map[string]string{}, Panic: "text does not decode: " + err.Error()}
		}
		// one read-only operation; afterwards nothing may have changed
		readViews(doc, uni)
		o.Read = readOps[(id+k)%len(readOps)]
		o.ReadP = readOnly(doc, o.Read)
		o.ReadOK["text"] = doc.String() == text
		o.ReadOK["forest"] = sameJSON(forest(doc), o.Post)
		v2, f2 := readViews(doc, uni)
		o.ReadOK["views"] = sameJSON(v2, o.Live) && sameJSON(f2, o.LiveF)
		enc.Encode(o)
		pre = o.Post
		if !o.ReadOK["forest"] {
			pre = forest(doc)
		}
	}
}

func Exec(r io.Reader, w io.Writer) error {
	sc := bufio.NewScanner(r)
	sc.Buffer(make([]byte, 1<<20), 1<<26)
	bw := bufio.NewWriterSize(w, 1<<20)
	defer bw.Flush()
	enc := json.NewEncoder(bw)
	id := 0
	for sc.Scan() {
		var h History
		if err := json.Unmarshal(sc.Bytes(), &h); err != nil {
			return fmt.Errorf("bad history: %v", err)
		}
		id++
		runHistory(id, h, enc)
	}
	return sc.Err()
}

// Gen writes random histories over a larger universe.  The driver keeps its own tiny
// book-keeping (which pointers exist with which tag) only to ask for applicable operations.
func Gen(w io.Writer, seed int64, n, length int) error {
	rng := rand.New(rand.NewSource(seed))
	bw := bufio.NewWriterSize(w, 1<<20)
	defer bw.Flush()
	enc := json.NewEncoder(bw)
	for hI := 0; hI < n; hI++ {
		indis, fams := []string{}, []string{}
		gone := []string{} // pointers of individuals that were removed (handles are kept by the executing side)
		notes := 0
		nextI, nextF := 1, 1
		h := History{}
		pick := func(s []string) string { return s[rng.Intn(len(s))] }
		remove := func(s []string, x string) []string {
			out := []string{}
			for _, y := range s {
				if y != x {
					out = append(out, y)
				}
			}
			return out
		}
		for len(h.Ops) < length {
			var op Op
			switch k := rng.Intn(20); {
			case k < 3 || len(indis) == 0:
				op = Op{K: "AddIndividual", P: fmt.Sprintf("I%d", nextI)}
				indis = append(indis, op.P)
				nextI++
			case k < 5 || len(fams) == 0:
				if len(indis) >= 2 && rng.Intn(2) == 0 {
					a, b := pick(indis), pick(indis)
					if a == b {
						continue
					}
					op = Op{K: "AddFamilyWithHusbandAndWife", P: fmt.Sprintf("F%d", nextF), H: a, W: b}
				} else {
					op = Op{K: "AddFamily", P: fmt.Sprintf("F%d", nextF)}
				}
				fams = append(fams, op.P)
				nextF++
			case k < 8:
				op = Op{K: []string{"SetHusband", "SetWife", "AddChild"}[rng.Intn(3)], F: pick(fams), I: pick(indis)}
			case k < 10:
				op = Op{K: []string{"ClearHusband", "ClearWife"}[rng.Intn(2)], F: pick(fams)}
			case k < 13:
				if rng.Intn(2) == 0 {
					op = Op{K: "AddNode", Rt: "INDI", Rp: pick(indis), T: []string{"NAME", "NAME", "BIRT", "SEX"}[rng.Intn(4)], V: []string{"a /B/", "c /D/", "M", ""}[rng.Intn(4)]}
				} else {
					op = Op{K: "AddNode", Rt: "FAM", Rp: pick(fams), T: []string{"MARR", "NOTE"}[rng.Intn(2)], V: "x"}
				}
			case k < 15:
				// DeleteNode needs a child with that tag: the executing side reports "not applicable" otherwise,
				// so ask only for tags this history has added
				var cands []Op
				for _, o := range h.Ops {
					switch o.K {
					case "AddNode":
						cands = append(cands, Op{K: "DeleteNode", Rt: o.Rt, Rp: o.Rp, T: o.T})
					case "SetHusband":
						cands = append(cands, Op{K: "DeleteNode", Rt: "FAM", Rp: o.F, T: "HUSB"}, Op{K: "DeleteNode", Rt: "INDI", Rp: o.I, T: "FAMS"})
					case "AddChild":
						cands = append(cands, Op{K: "DeleteNode", Rt: "FAM", Rp: o.F, T: "CHIL"}, Op{K: "DeleteNode", Rt: "INDI", Rp: o.I, T: "FAMC"})
					}
				}
				if len(cands) == 0 {
					continue
				}
				op = cands[rng.Intn(len(cands))]
				if !strings.Contains(strings.Join(append(indis, fams...), " "), op.Rp) {
					continue
				}
			case k < 16:
				kids := []ANode{}
				if rng.Intn(2) == 0 {
					kids = append(kids, ANode{T: "NAME", V: "set /Nodes/", Kids: []ANode{}})
				}
				if rng.Intn(2) == 0 {
					op = Op{K: "SetNodes", Rt: "INDI", Rp: pick(indis), Kids: kids}
				} else {
					op = Op{K: "SetNodes", Rt: "FAM", Rp: pick(fams), Kids: []ANode{}}
				}
			case k < 17:
				notes++
				op = Op{K: "DocAddNode", T: "NOTE", V: fmt.Sprintf("n%d", notes), P: fmt.Sprintf("N%d", notes)}
			case k < 19:
				if rng.Intn(2) == 0 && len(indis) > 1 {
					op = Op{K: "DocDeleteNode", Rt: "INDI", Rp: pick(indis)}
					indis = remove(indis, op.Rp)
					gone = append(gone, op.Rp)
				} else if len(fams) > 1 {
					op = Op{K: "DocDeleteNode", Rt: "FAM", Rp: pick(fams)}
					fams = remove(fams, op.Rp)
				} else {
					continue
				}
			default:
				switch j := rng.Intn(3); {
				case j == 0 && len(gone) > 0: // the pointer of a removed individual is used again
					p := pick(gone)
					if strings.Contains(" "+strings.Join(indis, " ")+" ", " "+p+" ") {
						continue
					}
					op = Op{K: "AddIndividual", P: p}
					indis = append(indis, p)
				case j == 1 && len(gone) > 0:
					op = Op{K: "DocDeleteStale", Rt: "INDI", Rp: pick(gone)}
				case j == 2 && len(indis) > 0:
					op = Op{K: "DocDeleteForeign", Rt: "INDI", Rp: pick(indis)}
				default:
					continue
				}
			}
			if op.Kids == nil {
				op.Kids = []ANode{}
			}
			h.Ops = append(h.Ops, op)
		}
		enc.Encode(h)
	}
	return nil
}

func Main(args []string) error {
	seed, _ := strconv.ParseInt(os.Getenv("VERIF_SEED"), 10, 64)
	if len(args) == 0 {
		return fmt.Errorf("document: missing subcommand")
	}
	switch args[0] {
	case "exec":
		return Exec(os.Stdin, os.Stdout)
	case "gen":
		n, l := 100, 30
		if len(args) > 1 {
			n, _ = strconv.Atoi(args[1])
		}
		if len(args) > 2 {
			l, _ = strconv.Atoi(args[2])
		}
		return Gen(os.Stdout, seed, n, l)
	}
	return fmt.Errorf("document: unknown subcommand %q", args[0])
}
