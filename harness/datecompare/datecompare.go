// Package datecompare binds DateCompare.tla (C06) to DateRange.Compare and the
// three simplified verdicts.
//
//	vh datecompare replay     stdin: CASE {A,B,C,D dates, pairs: allowed (r1,r2,s1,s2)}
//	vh datecompare record N   random ranges over years 1..9999 for DateCompareTrace.tla
package datecompare

import (
	"bufio"
	"encoding/json"
	"fmt"
	"io"
	"math/rand"
	"os"
	"strconv"
	"strings"
	"time"

	"github.com/elliotchance/gedcom/v39"
)

type pairRec struct {
	R1 string `json:"r1"`
	R2 string `json:"r2"`
	S1 string `json:"s1"`
	S2 string `json:"s2"`
}

type cmpCase struct {
	A     []int     `json:"A"`
	B     []int     `json:"B"`
	C     []int     `json:"C"`
	D     []int     `json:"D"`
	Pairs []pairRec `json:"pairs"`
}

var monthNames = []string{"", "Jan", "Feb", "Mar", "Apr", "May", "Jun", "Jul", "Aug", "Sep", "Oct", "Nov", "Dec"}

func dateOf(t []int) gedcom.Date {
	return gedcom.Date{Year: t[0], Month: time.Month(t[1]), Day: t[2]}
}

func text(t []int) string {
	switch {
	case t[1] == 0:
		return strconv.Itoa(t[0])
	case t[2] == 0:
		return fmt.Sprintf("%s %d", monthNames[t[1]], t[0])
	}
	return fmt.Sprintf("%d %s %d", t[2], monthNames[t[1]], t[0])
}

func same(a, b []int) bool { return a[0] == b[0] && a[1] == b[1] && a[2] == b[2] }

// mkRange builds [a, b] either through the constructor or through the parser.
func mkRange(a, b []int, viaString bool) gedcom.DateRange {
	if viaString {
		if same(a, b) {
			return gedcom.NewDateRangeWithString(text(a))
		}
		return gedcom.NewDateRangeWithString("Bet. " + text(a) + " and " + text(b))
	}
	return gedcom.NewDateRange(dateOf(a), dateOf(b))
}

func relName(c gedcom.DateRangeComparison) (s string) {
	defer func() {
		if r := recover(); r != nil {
			s = fmt.Sprintf("invalid-constant-%d", int(c))
		}
	}()
	return strings.TrimPrefix(c.String(), "DateRangeComparison")
}

func simplified(c gedcom.DateRangeComparison) string {
	out := []string{}
	if c.IsEqual() {
		out = append(out, "Equal")
	}
	if c.IsPartiallyEqual() {
		out = append(out, "PartiallyEqual")
	}
	if c.IsNotEqual() {
		out = append(out, "NotEqual")
	}
	if len(out) == 1 {
		return out[0]
	}
	return fmt.Sprintf("%d verdicts %v", len(out), out)
}

type obs struct {
	R1 string `json:"r1"`
	R2 string `json:"r2"`
	S1 string `json:"s1"`
	S2 string `json:"s2"`
}

func observe(c cmpCase, viaString bool) obs {
	x := mkRange(c.A, c.B, viaString)
	y := mkRange(c.C, c.D, viaString)
	r1, r2 := x.Compare(y), y.Compare(x)
	return obs{relName(r1), relName(r2), simplified(r1), simplified(r2)}
}

func judge(c cmpCase, o obs) string {
	for _, p := range c.Pairs {
		if p.R1 == o.R1 && p.R2 == o.R2 && p.S1 == o.S1 && p.S2 == o.S2 {
			return ""
		}
	}
	r1ok, r2ok, conv, simp := false, false, false, false
	for _, p := range c.Pairs {
		if p.R1 == o.R1 {
			r1ok = true
			if p.S1 == o.S1 {
				simp = true
			}
		}
		if p.R2 == o.R2 {
			r2ok = true
		}
		if p.R1 == o.R1 && p.R2 == o.R2 {
			conv = true
		}
	}
	switch {
	case o.R1 == "Invalid" || o.R2 == "Invalid":
		return "invalid for forward ranges"
	case same(c.A, c.C) && same(c.B, c.D) && o.R1 != "Equal":
		return "range compared with itself is not equal"
	case !r1ok || !r2ok:
		return "not the drawn relation"
	case !conv:
		return "swapped operands do not give the converse"
	case !simp:
		return "simplified verdict"
	}
	return "simplified verdict (swapped)"
}

func Replay(r io.Reader, w io.Writer) error {
	sc := bufio.NewScanner(r)
	sc.Buffer(make([]byte, 1<<20), 1<<24)
	bw := bufio.NewWriter(w)
	defer bw.Flush()
	enc := json.NewEncoder(bw)
	n, nbad := 0, 0
	for sc.Scan() {
		var c cmpCase
		if err := json.Unmarshal(sc.Bytes(), &c); err != nil {
			return fmt.Errorf("bad case: %v", err)
		}
		n++
		for _, via := range []bool{false, true} {
			o := observe(c, via)
			if why := judge(c, o); why != "" {
				nbad++
				enc.Encode(map[string]interface{}{"why": why, "case": c, "obs": o, "via_string": via,
					"left": text(c.A) + " .. " + text(c.B), "right": text(c.C) + " .. " + text(c.D)})
			}
		}
	}
	enc.Encode(map[string]int{"summary": 1, "cases": n, "mismatches": nbad})
	return sc.Err()
}

func randDate(rng *rand.Rand, y int) []int {
	switch rng.Intn(4) {
	case 0:
		return []int{y, 0, 0}
	case 1:
		return []int{y, 1 + rng.Intn(12), 0}
	}
	m := 1 + rng.Intn(12)
	last := time.Date(y, time.Month(m)+1, 0, 0, 0, 0, 0, time.UTC).Day() // only to draw a valid input
	d := 1 + rng.Intn(last)
	if rng.Intn(5) == 0 {
		d = last
	}
	return []int{y, m, d}
}

func less(a, b []int) bool { // order of first days, good enough to draw forward ranges
	for i := 0; i < 3; i++ {
		if a[i] != b[i] {
			return a[i] < b[i]
		}
	}
	return false
}

// Record: direction B.  Random forward ranges; half of them close together so that
// coincidences and overlaps are frequent.
func Record(w io.Writer, seed int64, n int) error {
	rng := rand.New(rand.NewSource(seed))
	bw := bufio.NewWriterSize(w, 1<<20)
	defer bw.Flush()
	enc := json.NewEncoder(bw)
	for i := 0; i < n; i++ {
		y := 1 + rng.Intn(9998)
		span := 1
		if rng.Intn(2) == 0 {
			span = 1 + rng.Intn(400)
		}
		pick := func() []int {
			yy := y + rng.Intn(span+1)
			if yy > 9999 {
				yy = 9999
			}
			return randDate(rng, yy)
		}
		pts := [][]int{pick(), pick(), pick(), pick()}
		if rng.Intn(3) == 0 {
			pts[2] = pts[rng.Intn(2)] // force a coincidence
		}
		if rng.Intn(4) == 0 {
			pts[3] = pts[rng.Intn(3)]
		}
		a, b, c, d := pts[0], pts[1], pts[2], pts[3]
		if less(b, a) {
			a, b = b, a
		}
		if less(d, c) {
			c, d = d, c
		}
		// a forward range needs first(a) <= last(b): a coarse start after a finer end is skipped
		cs := cmpCase{A: a, B: b, C: c, D: d}
		o := observe(cs, rng.Intn(2) == 0)
		enc.Encode(map[string]interface{}{"A": a, "B": b, "C": c, "D": d, "r1": o.R1, "r2": o.R2, "s1": o.S1, "s2": o.S2})
	}
	return nil
}

func Main(args []string) error {
	seed, _ := strconv.ParseInt(os.Getenv("VERIF_SEED"), 10, 64)
	if len(args) == 0 {
		return fmt.Errorf("datecompare: missing subcommand")
	}
	switch args[0] {
	case "replay":
		return Replay(os.Stdin, os.Stdout)
	case "record":
		n := 1000
		if len(args) > 1 {
			n, _ = strconv.Atoi(args[1])
		}
		return Record(os.Stdout, seed, n)
	}
	return fmt.Errorf("datecompare: unknown subcommand %q", args[0])
}
