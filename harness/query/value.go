package query

import (
	"fmt"
	"reflect"
	"sort"
	"unicode/utf8"

	"github.com/elliotchance/gedcom/v39"
)

// V is a tagged value of QueryOps.tla.
type V map[string]interface{}

func codePoints(s string) []int {
	out := []int{}
	for len(s) > 0 {
		r, n := utf8.DecodeRuneInString(s)
		if r == utf8.RuneError && n == 1 {
			out = append(out, 0xFFFD)
		} else {
			out = append(out, int(r))
		}
		s = s[n:]
	}
	return out
}

// ids gives Go objects a stable small identity: pointers by address, other composite values by type and content.
type ids struct {
	byPtr map[uintptr]int
	byVal map[string]int
	objs  []interface{} // id-1 -> the object
}

func newIDs() *ids { return &ids{byPtr: map[uintptr]int{}, byVal: map[string]int{}} }

func (x *ids) of(v reflect.Value) int {
	if v.Kind() == reflect.Ptr {
		p := v.Pointer()
		key := uintptr(p)
		// two different types can share an address (first field): include the type
		k2 := fmt.Sprintf("%d:%s", key, v.Type())
		if id, ok := x.byVal[k2]; ok {
			return id
		}
		x.objs = append(x.objs, v.Interface())
		x.byVal[k2] = len(x.objs)
		return len(x.objs)
	}
	key := fmt.Sprintf("%s:%#v", v.Type(), v.Interface())
	if id, ok := x.byVal[key]; ok {
		return id
	}
	x.objs = append(x.objs, v.Interface())
	x.byVal[key] = len(x.objs)
	return len(x.objs)
}

// encode turns a Go value into a tagged value.
func (x *ids) encode(val interface{}) V {
	if val == nil {
		return V{"t": "nil"}
	}
	v := reflect.ValueOf(val)
	switch v.Kind() {
	case reflect.Ptr:
		if v.IsNil() {
			return V{"t": "nilptr"}
		}
		return V{"t": "obj", "id": x.of(v)}
	case reflect.Slice:
		if v.IsNil() {
			return V{"t": "nilslice"}
		}
		out := []V{}
		for i := 0; i < v.Len(); i++ {
			out = append(out, x.encode(v.Index(i).Interface()))
		}
		return V{"t": "list", "v": out}
	case reflect.String:
		out := V{"t": "str", "s": codePoints(v.String())}
		// a defined string type that prints differently (NameType "" prints as "Normal"): operators compare what is printed
		if _, plain := val.(string); !plain {
			if printed := fmt.Sprintf("%v", val); printed != v.String() {
				out["p"] = codePoints(printed)
			}
		}
		return out
	case reflect.Bool:
		return V{"t": "bool", "b": v.Bool()}
	case reflect.Int, reflect.Int8, reflect.Int16, reflect.Int32, reflect.Int64:
		if n := v.Int(); n > -1000000000 && n < 1000000000 {
			return V{"t": "int", "n": int(n)}
		}
		return V{"t": "other", "s": fmt.Sprintf("%v", val)}
	case reflect.Map:
		if m, ok := val.(map[string]interface{}); ok {
			ks := []string{}
			for k := range m {
				ks = append(ks, k)
			}
			sort.Strings(ks)
			vs := []V{}
			for _, k := range ks {
				vs = append(vs, x.encode(m[k]))
			}
			return V{"t": "map", "ks": ks, "vs": vs}
		}
		return V{"t": "other", "s": fmt.Sprintf("%v", val)}
	case reflect.Struct:
		return V{"t": "obj", "id": x.of(v)}
	case reflect.Interface:
		if v.IsNil() {
			return V{"t": "nil"}
		}
		return x.encode(v.Elem().Interface())
	}
	return V{"t": "other", "s": fmt.Sprintf("%v", val)}
}

// callAccessor calls the zero-argument method (or reads the field) directly by reflection:
// the Go API as it is, independent of the query engine.  ok = the object has it.
func callAccessor(obj interface{}, name string) (res interface{}, ok bool, panicked bool) {
	defer func() {
		if r := recover(); r != nil {
			res, ok, panicked = nil, true, true
		}
	}()
	v := reflect.ValueOf(obj)
	if !v.IsValid() {
		return nil, false, false
	}
	pv := v
	if v.Kind() != reflect.Ptr {
		p := reflect.New(v.Type())
		p.Elem().Set(v)
		pv = p
	}
	m := pv.MethodByName(name)
	if !m.IsValid() && pv.Kind() == reflect.Ptr {
		m = pv.Elem().MethodByName(name)
	}
	if m.IsValid() {
		if m.Type().NumIn() != 0 || m.Type().NumOut() == 0 {
			return nil, false, false
		}
		return m.Call(nil)[0].Interface(), true, false
	}
	e := pv.Elem()
	if e.Kind() == reflect.Struct {
		f := e.FieldByName(name)
		if f.IsValid() && f.CanInterface() {
			return f.Interface(), true, false
		}
	}
	return nil, false, false
}

var _ = gedcom.IsNil
