// Package query binds QueryOps.tla / Query.tla (C15, C16) to the q package.
//
//	vh query eval N        seeded well-typed queries on family-graph documents: one observation per query
//	                       (AST, facts computed by direct reflection, engine result) for QueryTrace.tla
//	vh query crash         stdin: query strings (JSON strings, one per line); parse, evaluate on several
//	                       document sets, hand every result to every formatter - in child processes
//	vh query crash-batch   (child) the same, in-process
//	vh query strings N     seeded query strings: mutated documented examples, random tokens, random bytes
package query

import (
	"bufio"
	"bytes"
	"encoding/json"
	"fmt"
	"io"
	"math/rand"
	"os"
	"os/exec"
	"reflect"
	"runtime/debug"
	"sort"
	"strconv"
	"strings"
	"time"

	"github.com/elliotchance/gedcom/v39"
	"github.com/elliotchance/gedcom/v39/q"
)

// ------------------------------------------------------------------ AST

type Expr struct {
	K    string  `json:"k"`
	N    string  `json:"n"`
	V    V       `json:"v"`
	F    string  `json:"f"`
	Args []*Stmt `json:"args"`
	Path string  `json:"path"`
	Keys []string `json:"keys"`
	Vals []*Stmt `json:"vals"`
	Op   string  `json:"op"`
	L    *Expr   `json:"l,omitempty"`
	R    *Expr   `json:"r,omitempty"`
	txt  string
}

type Stmt struct {
	Name string  `json:"name"`
	Es   []*Expr `json:"es"`
}

func (e *Expr) normalise() {
	if e.Args == nil {
		e.Args = []*Stmt{}
	}
	if e.Keys == nil {
		e.Keys = []string{}
	}
	if e.Vals == nil {
		e.Vals = []*Stmt{}
	}
	if e.V == nil {
		e.V = V{"t": "nil"}
	}
	for _, a := range e.Args {
		a.normalise()
	}
	for _, a := range e.Vals {
		a.normalise()
	}
	if e.L != nil {
		e.L.normalise()
	}
	if e.R != nil {
		e.R.normalise()
	}
}

func (s *Stmt) normalise() {
	if s.Es == nil {
		s.Es = []*Expr{}
	}
	for _, e := range s.Es {
		e.normalise()
	}
}

func quote(s string) string { return `"` + s + `"` }

func (e *Expr) render() string {
	switch e.K {
	case "acc":
		return "." + e.N
	case "var":
		return e.N
	case "const":
		return e.txt
	case "call":
		if e.F == "Length" && len(e.Args) == 0 {
			return "Length"
		}
		parts := []string{}
		if e.F == "NodesWithTagPath" {
			for _, t := range strings.Split(e.Path, "/") {
				parts = append(parts, t)
			}
		} else {
			for _, a := range e.Args {
				parts = append(parts, a.render())
			}
		}
		return e.F + "(" + strings.Join(parts, ", ") + ")"
	case "obj":
		parts := []string{}
		for i, k := range e.Keys {
			parts = append(parts, k+": "+e.Vals[i].render())
		}
		return "{ " + strings.Join(parts, ", ") + " }"
	case "bin":
		return e.L.render() + " " + e.Op + " " + e.R.render()
	}
	return "?"
}

func (s *Stmt) render() string {
	parts := []string{}
	for _, e := range s.Es {
		parts = append(parts, e.render())
	}
	out := strings.Join(parts, " | ")
	if s.Name != "" {
		return s.Name + " is " + out
	}
	return out
}

func renderAll(stmts []*Stmt) string {
	parts := []string{}
	for _, s := range stmts {
		parts = append(parts, s.render())
	}
	return strings.Join(parts, "; ")
}

// ------------------------------------------------------------------ typed generation

var deny = map[string]bool{"Warnings": true, "GEDCOMString": true, "GEDCOMLine": true, "MarshalJSON": true, "ObjectMap": true, "RawSimpleNode": true,
	"ShallowCopy": true, "Document": true, "Places": true, "Age": true, "AllEvents": true, "SpouseChildren": true, "Time": true, "Format": true,
	"Error": true, "ParseError": true, "Strings": true}

func okReturn(t reflect.Type) bool {
	switch t.Kind() {
	case reflect.String, reflect.Bool, reflect.Int:
		return true
	case reflect.Ptr:
		return t.Elem().Kind() == reflect.Struct && strings.Contains(t.String(), "gedcom.")
	case reflect.Slice:
		return okReturn(t.Elem()) && t.Elem().Kind() != reflect.Slice
	case reflect.Struct:
		return strings.Contains(t.String(), "gedcom.Date") || t.String() == "gedcom.Tag"
	case reflect.Interface:
		return t == nodeT
	}
	return false
}

var nodeT = reflect.TypeOf((*gedcom.Node)(nil)).Elem()
var nodesT = reflect.TypeOf(gedcom.Nodes{})

// the type of the nodes a tag path ends in (what NodesWithTagPath hands out is typed gedcom.Nodes; the elements are these)
func tagType(tag string) reflect.Type {
	switch tag {
	case "DATE":
		return reflect.TypeOf(&gedcom.DateNode{})
	case "NAME":
		return reflect.TypeOf(&gedcom.NameNode{})
	case "PLAC":
		return reflect.TypeOf(&gedcom.PlaceNode{})
	}
	return nodeT
}

type method struct {
	name string
	out  reflect.Type
}

var methodCache = map[reflect.Type][]method{}

func accessorsOf(t reflect.Type) []method {
	if m, ok := methodCache[t]; ok {
		return m
	}
	pt := t
	if t.Kind() != reflect.Ptr && t.Kind() != reflect.Interface {
		pt = reflect.PtrTo(t)
	}
	recv := 1
	if pt.Kind() == reflect.Interface {
		recv = 0 // the methods of an interface type have no receiver argument
	}
	out := []method{}
	for i := 0; i < pt.NumMethod(); i++ {
		m := pt.Method(i)
		if deny[m.Name] || strings.HasPrefix(m.Name, "Add") || strings.HasPrefix(m.Name, "Set") || strings.HasPrefix(m.Name, "Delete") ||
			strings.HasPrefix(m.Name, "Merge") || strings.HasPrefix(m.Name, "Remove") {
			continue
		}
		if m.Type.NumIn() != recv || m.Type.NumOut() < 1 || !okReturn(m.Type.Out(0)) {
			continue
		}
		out = append(out, method{m.Name, m.Type.Out(0)})
	}
	sort.Slice(out, func(i, j int) bool { return out[i].name < out[j].name })
	methodCache[t] = out
	return out
}

type gen struct {
	rng  *rand.Rand
	vars []*Stmt
}

// elemType is the type an accessor is applied to: the engine maps over lists, and over lists of lists
func elemType(t reflect.Type) reflect.Type {
	for t.Kind() == reflect.Slice {
		t = t.Elem()
	}
	return t
}

func nested(t reflect.Type) bool { return t.Kind() == reflect.Slice && t.Elem().Kind() == reflect.Slice }

// withElem replaces the innermost element type of t
func withElem(t, out reflect.Type) reflect.Type {
	if t.Kind() == reflect.Slice {
		return reflect.SliceOf(withElem(t.Elem(), out))
	}
	return out
}

func isScalar(t reflect.Type) bool {
	return t.Kind() == reflect.String || t.Kind() == reflect.Int || t.Kind() == reflect.Bool
}

var consts = []string{"1", "2", "0", "10", "9", "9.0", " 9", "1943", "abc", "ABC ", "", "M", "F", "John /Smith/", "john /smith/ ", "I1", "true", "Individual", "-1", "007", "1e3", "1000", "1.5E2", "150", "2e-2", "0.02", "9e0", "1e1"}

func (g *gen) constant() *Expr {
	c := consts[g.rng.Intn(len(consts))]
	txt := quote(c)
	if _, err := strconv.Atoi(c); err == nil && !strings.HasPrefix(c, "0") && !strings.HasPrefix(c, "-") && !strings.HasPrefix(c, " ") && g.rng.Intn(2) == 0 {
		txt = c // numbers may be written without quotes
	}
	return &Expr{K: "const", V: V{"t": "str", "s": codePoints(c)}, txt: txt}
}

// chain appends accessors until a scalar (wantScalar) or for a few steps; returns the static type reached
func (g *gen) chain(t reflect.Type, steps int, wantScalar bool) ([]*Expr, reflect.Type) {
	es := []*Expr{}
	for i := 0; i < steps; i++ {
		// the engine finds an accessor on the element type of a list: on a list of lists there is none
		// (mapping two levels deep is not part of the documented semantics), so a nested list ends the chain
		if nested(t) {
			break
		}
		ms := accessorsOf(elemType(t))
		if len(ms) == 0 || isScalar(elemType(t)) {
			break
		}
		var m method
		if wantScalar && i == steps-1 {
			sc := []method{}
			for _, x := range ms {
				if isScalar(x.out) {
					sc = append(sc, x)
				}
			}
			if len(sc) == 0 {
				break
			}
			m = sc[g.rng.Intn(len(sc))]
		} else {
			m = ms[g.rng.Intn(len(ms))]
		}
		if t.Kind() == reflect.Slice && m.out.Kind() == reflect.Slice && (nested(t) || g.rng.Intn(3) > 0) {
			continue // lists of lists are legal but make results huge; keep them rarer and never go three deep
		}
		es = append(es, &Expr{K: "acc", N: m.name})
		t = withElem(t, m.out)
	}
	return es, t
}

func (g *gen) condition(t reflect.Type) *Stmt {
	// <accessor chain to a scalar> op <constant>
	es, rt := g.chain(t, 1+g.rng.Intn(2), true)
	if len(es) == 0 || !isScalar(rt) {
		es = []*Expr{{K: "acc", N: "String"}}
	}
	last := es[len(es)-1]
	bin := &Expr{K: "bin", Op: []string{"=", "!=", "<", ">", "<=", ">="}[g.rng.Intn(6)], L: last, R: g.constant()}
	es[len(es)-1] = bin
	return &Stmt{Es: es}
}

func (g *gen) statement(t reflect.Type, depth int) (*Stmt, reflect.Type) {
	st := &Stmt{}
	n := 1 + g.rng.Intn(4)
	for i := 0; i < n; i++ {
		switch k := g.rng.Intn(14); {
		case len(st.Es) == 0 && depth > 0 && t.Kind() != reflect.Slice && g.rng.Intn(5) == 0:
			// Combine of prefixes / suffixes of lists the document hands out (the arguments are evaluated on the current input)
			a1, t1 := g.chain(t, 1, false)
			if len(a1) == 1 && t1.Kind() == reflect.Slice && !nested(t1) {
				arg := func() *Stmt {
					s := &Stmt{Es: []*Expr{{K: "acc", N: a1[0].N}}}
					if g.rng.Intn(4) > 0 {
						s.Es = append(s.Es, &Expr{K: "call", F: []string{"First", "Last"}[g.rng.Intn(2)], Args: []*Stmt{{Es: []*Expr{g.numConst(t1)}}}})
					}
					return s
				}
				args := []*Stmt{arg(), arg()}
				if g.rng.Intn(3) == 0 {
					args = append(args, arg())
				}
				st.Es = append(st.Es, &Expr{K: "call", F: "Combine", Args: args})
				t = t1
			} else {
				st.Es = append(st.Es, a1...)
				t = t1
			}
		case k < 6 || len(st.Es) == 0:
			es, nt := g.chain(t, 1+g.rng.Intn(2), false)
			st.Es = append(st.Es, es...)
			t = nt
		case k < 7 && !nested(t) && elemType(t).Implements(nodeT) && g.rng.Intn(2) == 0:
			// tag-path lookup below the node(s): the result is one flat list
			paths := [][]string{{"BIRT", "DATE"}, {"DEAT", "DATE"}, {"NAME"}, {"BIRT", "PLAC"}, {"BIRT"}, {"SEX"}, {"OCCU"}, {"MARR", "DATE"}, {"HUSB"}, {"CHIL"}, {"NOTE"}, {"TITL"}}
			path := paths[g.rng.Intn(len(paths))]
			quoted := []string{}
			for _, tg := range path {
				quoted = append(quoted, quote(tg))
			}
			st.Es = append(st.Es, &Expr{K: "call", F: "NodesWithTagPath", Path: strings.Join(quoted, "/")})
			t = reflect.SliceOf(tagType(path[len(path)-1]))
		case k < 8:
			f := []string{"First", "Last"}[g.rng.Intn(2)]
			arg := &Stmt{Es: []*Expr{g.numConst(t)}}
			st.Es = append(st.Es, &Expr{K: "call", F: f, Args: []*Stmt{arg}})
			if t.Kind() != reflect.Slice {
				t = reflect.SliceOf(t)
			}
		case k < 9:
			st.Es = append(st.Es, &Expr{K: "call", F: "Length"})
			t = reflect.TypeOf(0)
		case k < 11 && t.Kind() == reflect.Slice && !nested(t) && !isScalar(t.Elem()):
			st.Es = append(st.Es, &Expr{K: "call", F: "Only", Args: []*Stmt{g.condition(t.Elem())}})
		case k < 12 && !nested(t) && depth > 0 && !isScalar(elemType(t)) && t.Kind() != reflect.Slice:
			// Combine of two lists of the same type computed from the current input... the arguments are evaluated
			// on the current input, so they must start from it
			a1, t1 := g.chain(t, 1, false)
			if len(a1) == 1 && t1.Kind() == reflect.Slice && !nested(t1) {
				arg := func() *Stmt {
					s := &Stmt{Es: []*Expr{{K: "acc", N: a1[0].N}}}
					if g.rng.Intn(2) == 0 {
						s.Es = append(s.Es, &Expr{K: "call", F: []string{"First", "Last"}[g.rng.Intn(2)], Args: []*Stmt{{Es: []*Expr{g.numConst(t1)}}}})
					}
					return s
				}
				st.Es = append(st.Es, &Expr{K: "call", F: "Combine", Args: []*Stmt{arg(), arg()}})
				t = t1
			}
		case k < 13 && !isScalar(elemType(t)) && !nested(t) && depth > 0:
			keys := []string{"a", "b"}[:1+g.rng.Intn(2)]
			vals := []*Stmt{}
			for range keys {
				es, _ := g.chain(elemType(t), 1+g.rng.Intn(2), g.rng.Intn(2) == 0)
				if len(es) == 0 {
					es = []*Expr{{K: "acc", N: "String"}}
				}
				vals = append(vals, &Stmt{Es: es})
			}
			st.Es = append(st.Es, &Expr{K: "obj", Keys: keys, Vals: vals})
			return st, nil // objects end the statement
		default:
			if isScalar(elemType(t)) {
				last := st.Es[len(st.Es)-1]
				if last.K == "acc" {
					st.Es[len(st.Es)-1] = &Expr{K: "bin", Op: []string{"=", "!=", "<", ">", "<=", ">="}[g.rng.Intn(6)], L: last, R: g.constant()}
					return st, nil
				}
			}
		}
		if t == nil || isScalar(elemType(t)) {
			break
		}
	}
	return st, t
}

func (g *gen) numConst(t reflect.Type) *Expr {
	n := g.rng.Intn(5)
	c := strconv.Itoa(n)
	return &Expr{K: "const", V: V{"t": "str", "s": codePoints(c)}, txt: c}
}

// ------------------------------------------------------------------ documents

func familyDoc(rng *rand.Rand, n int) *gedcom.Document {
	var b strings.Builder
	b.WriteString("0 HEAD\n1 CHAR UTF-8\n")
	names := []string{"John /Smith/", "Jane /Doe/", "JOHN /smith/", "Mary Ann /O'Neil/", "Bob", "Zoë /Müller/", " Al /Li/", "X /9lives/"}
	for i := 1; i <= n; i++ {
		fmt.Fprintf(&b, "0 @I%d@ INDI\n", i)
		for k, m := 0, rng.Intn(3); k < m; k++ {
			fmt.Fprintf(&b, "1 NAME %s\n", names[rng.Intn(len(names))])
		}
		if rng.Intn(3) > 0 {
			fmt.Fprintf(&b, "1 SEX %s\n", []string{"M", "F", "U"}[rng.Intn(3)])
		}
		if rng.Intn(3) > 0 {
			fmt.Fprintf(&b, "1 BIRT\n2 DATE %s\n2 PLAC %s\n", []string{"3 Sep 1943", "1943", "Abt. 1900", "Bet. 1900 and 1910", "sometime", "10"}[rng.Intn(6)],
				[]string{"London, England", "Paris", "New York, NY, USA"}[rng.Intn(3)])
		}
		if rng.Intn(3) == 0 {
			fmt.Fprintf(&b, "1 DEAT\n2 DATE %d\n", 1950+rng.Intn(60))
		}
		if rng.Intn(4) == 0 {
			fmt.Fprintf(&b, "1 NOTE n%d\n1 OCCU %s\n", i, []string{"9", "10", "Farmer", "9.0"}[rng.Intn(4)])
		}
	}
	nf := 0
	if n >= 2 {
		nf = rng.Intn(5)
	}
	for f := 1; f <= nf; f++ {
		fmt.Fprintf(&b, "0 @F%d@ FAM\n", f)
		p := rng.Perm(n)
		fmt.Fprintf(&b, "1 HUSB @I%d@\n", p[0]+1)
		if rng.Intn(3) > 0 {
			fmt.Fprintf(&b, "1 WIFE @I%d@\n", p[1]+1)
		}
		for c := 2; c < n && c < 2+rng.Intn(3); c++ {
			fmt.Fprintf(&b, "1 CHIL @I%d@\n", p[c]+1)
		}
		if rng.Intn(2) == 0 {
			fmt.Fprintf(&b, "1 MARR\n2 DATE %d\n", 1920+rng.Intn(40))
		}
	}
	if rng.Intn(2) == 0 {
		b.WriteString("0 @S1@ SOUR\n1 TITL A source\n")
	}
	b.WriteString("0 TRLR\n")
	d, _ := gedcom.NewDocumentFromString(b.String())
	return d
}

// ------------------------------------------------------------------ facts

type Fact struct {
	O int    `json:"o"`
	A string `json:"a"`
	R V      `json:"r"`
}

func collect(stmts []*Stmt, names map[string]bool, paths map[string]bool) {
	var ex func(e *Expr)
	var st func(s *Stmt)
	ex = func(e *Expr) {
		if e == nil {
			return
		}
		switch e.K {
		case "acc":
			names[e.N] = true
		case "call":
			if e.F == "NodesWithTagPath" {
				paths[e.Path] = true
			}
			for _, a := range e.Args {
				st(a)
			}
		case "obj":
			for _, a := range e.Vals {
				st(a)
			}
		case "bin":
			ex(e.L)
			ex(e.R)
		}
	}
	st = func(s *Stmt) {
		for _, e := range s.Es {
			ex(e)
		}
	}
	for _, s := range stmts {
		st(s)
	}
}

// facts calls every accessor named by the query on every object reachable from the documents through
// those accessors - the Go API directly, by reflection.
func facts(x *ids, docs []*gedcom.Document, stmts []*Stmt, depth int) []Fact {
	names, paths := map[string]bool{}, map[string]bool{}
	collect(stmts, names, paths)
	ns := []string{}
	for n := range names {
		ns = append(ns, n)
	}
	sort.Strings(ns)
	for _, d := range docs {
		x.encode(d)
	}
	out := []Fact{}
	done := 0
	for round := 0; round <= depth+1 && done < len(x.objs) && len(x.objs) < 3000; round++ {
		upto := len(x.objs)
		for id := done + 1; id <= upto; id++ {
			obj := x.objs[id-1]
			for _, n := range ns {
				res, ok, pan := callAccessor(obj, n)
				switch {
				case pan:
					out = append(out, Fact{id, n, V{"t": "free"}})
				case !ok:
					// no such accessor on this object: no fact (the specification says Err)
				default:
					out = append(out, Fact{id, n, x.encode(res)})
				}
			}
			if node, ok := obj.(gedcom.Node); ok && !gedcom.IsNil(node) {
				for p := range paths {
					tags := []gedcom.Tag{}
					for _, t := range strings.Split(p, "/") {
						tags = append(tags, gedcom.TagFromString(strings.Trim(t, `" `)))
					}
					res := gedcom.NodesWithTagPath(node, tags...) // nil when there is none
					out = append(out, Fact{id, p, x.encode(res)})
				}
			}
		}
		done = upto
	}
	return out
}

// ------------------------------------------------------------------ C16 observations

type EvalObs struct {
	Kind   string  `json:"kind"` // "query" | "ops" | "equiv"
	Q      string  `json:"q"`
	Stmts  []*Stmt `json:"stmts"`
	Facts  []Fact  `json:"facts"`
	Doc    V       `json:"doc"`
	Res    V       `json:"res"`    // engine result (or err)
	Again  bool    `json:"again"`  // the same query on the same document gives the same result again
	Big    bool    `json:"big"`    // too large to be judged structurally (only determinism is)
	// ops
	L   []int           `json:"l"`
	R   []int           `json:"r"`
	Ops map[string]bool `json:"ops"`
	OpsErr bool         `json:"opserr"`
	// equiv
	Law string `json:"law"`
	A   V      `json:"a"`
	B   V      `json:"b"`
	C   V      `json:"c"`
}

func emptyObs(kind string) EvalObs {
	return EvalObs{Kind: kind, Stmts: []*Stmt{}, Facts: []Fact{}, Doc: V{"t": "nil"}, Res: V{"t": "nil"}, L: []int{}, R: []int{}, Ops: map[string]bool{"=": false},
		A: V{"t": "nil"}, B: V{"t": "nil"}, C: V{"t": "nil"}}
}

func runEngine(x *ids, query string, docs []*gedcom.Document) (v V) {
	defer func() {
		if r := recover(); r != nil {
			v = V{"t": "panic", "s": fmt.Sprint(r)}
		}
	}()
	eng, err := q.NewParser().ParseString(query)
	if err != nil {
		return V{"t": "parse-error", "s": err.Error()}
	}
	res, err := eng.Evaluate(docs)
	if err != nil {
		return V{"t": "err"}
	}
	return x.encode(res)
}

// runReused evaluates one compiled query twice: on other documents first, then on docs (Evaluate registers the
// documents as Document1.. each time)
func runReused(x *ids, query string, first, docs []*gedcom.Document) (v V) {
	defer func() {
		if r := recover(); r != nil {
			v = V{"t": "panic", "s": fmt.Sprint(r)}
		}
	}()
	eng, err := q.NewParser().ParseString(query)
	if err != nil {
		return V{"t": "parse-error", "s": err.Error()}
	}
	eng.Evaluate(first)
	res, err := eng.Evaluate(docs)
	if err != nil {
		return V{"t": "err"}
	}
	return x.encode(res)
}

func sizeOf(v V) int {
	n := 1
	if l, ok := v["v"].([]V); ok {
		for _, e := range l {
			n += sizeOf(e)
		}
	}
	if l, ok := v["vs"].([]V); ok {
		for _, e := range l {
			n += sizeOf(e)
		}
	}
	return n
}

func sameV(a, b V) bool {
	x, _ := json.Marshal(a)
	y, _ := json.Marshal(b)
	return string(x) == string(y)
}

var opPool = []string{"10", "9", "9.0", " 9", "9 ", "abc", "ABC ", " abc", "", "a", "B", "1943", "1e3", "0x10", "Inf", "NaN", "nan", "1_0", "+5", "-5", "5", "05",
	"5.50", "5.5", ".5", "Zoë", "zoë", "true", "10 apples", "-0", "0",
	"ΠΑΠΑΔΟΠΟΥΛΟΣ", "παπαδοπουλος", "παπαδοπουλοσ", "Meiſter", "meister", "MEISTER", "İnan", "inan", "ınan", "INAN", "\u212a", "k", "K", "ǅ", "ǆ", "Ǆ", "ß", "SS", "ss", "ẞ"}

func Eval(w io.Writer, seed int64, n int) error {
	rng := rand.New(rand.NewSource(seed))
	bw := bufio.NewWriterSize(w, 1<<20)
	defer bw.Flush()
	enc := json.NewEncoder(bw)
	docT := reflect.TypeOf(&gedcom.Document{})
	for i := 0; i < n; i++ {
		switch {
		case i%5 == 4: // the six operators on one pair of operands
			l, r := opPool[rng.Intn(len(opPool))], opPool[rng.Intn(len(opPool))]
			o := emptyObs("ops")
			o.L, o.R = codePoints(l), codePoints(r)
			o.Ops = map[string]bool{}
			doc := familyDoc(rng, 1)
			for _, op := range []string{"=", "!=", "<", ">", "<=", ">="} {
				x := newIDs()
				v := runEngine(x, quote(l)+" "+op+" "+quote(r), []*gedcom.Document{doc})
				b, ok := v["b"].(bool)
				if v["t"] != "bool" || !ok {
					o.OpsErr = true
				}
				o.Ops[op] = b
			}
			enc.Encode(o)
		default:
			g := &gen{rng: rng}
			doc := familyDoc(rng, 1+rng.Intn(5))
			docs := []*gedcom.Document{doc}
			st, _ := g.statement(docT, 2)
			stmts := []*Stmt{st}
			law := ""
			switch rng.Intn(8) {
			case 0: // a variable is interchangeable with its definition: the head of the pipeline
				if len(st.Es) >= 2 {
					k := 1 + rng.Intn(len(st.Es)-1)
					def := &Stmt{Name: "Things", Es: st.Es[:k]}
					use := &Stmt{Es: append([]*Expr{{K: "var", N: "Things"}}, st.Es[k:]...)}
					stmts = []*Stmt{def, use}
					law = "inline"
				}
			case 1, 2: // ... the tail of the pipeline, evaluated on the current item wherever it is referenced. Every statement is
				// also evaluated on the document, so a well-typed tail is one that means something on the document too
				es, t := g.chain(docT, 1+rng.Intn(2), false)
				if t != nil && !nested(t) && !isScalar(elemType(t)) && len(es) > 0 {
					tails := [][]*Expr{{{K: "call", F: "Length"}}, {{K: "call", F: "First", Args: []*Stmt{{Es: []*Expr{g.numConst(t)}}}}}}
					onDoc := map[string]bool{}
					onDocT := map[string]reflect.Type{}
					for _, m := range accessorsOf(docT) {
						onDoc[m.name] = true
						onDocT[m.name] = m.out
					}
					for _, m := range accessorsOf(elemType(t)) {
						if onDoc[m.name] && onDocT[m.name] == m.out {
							tails = append(tails, []*Expr{{K: "acc", N: m.name}}, []*Expr{{K: "acc", N: m.name}, {K: "call", F: "Length"}})
							if more, _ := g.chain(m.out, 1, false); len(more) == 1 && m.out.Kind() != reflect.Slice {
								tails = append(tails, []*Expr{{K: "acc", N: m.name}, more[0]})
							}
						}
					}
					tail := tails[rng.Intn(len(tails))]
					st = &Stmt{Es: append(append([]*Expr{}, es...), tail...)}
					def := &Stmt{Name: "Tail", Es: tail}
					use := &Stmt{Es: append(append([]*Expr{}, es...), &Expr{K: "var", N: "Tail"})}
					if rng.Intn(3) == 0 && t.Kind() == reflect.Slice { // or as the field of an object
						st = &Stmt{Es: append(append([]*Expr{}, es...), &Expr{K: "obj", Keys: []string{"a"}, Vals: []*Stmt{{Es: tail}}})}
						use = &Stmt{Es: append(append([]*Expr{}, es...), &Expr{K: "obj", Keys: []string{"a"}, Vals: []*Stmt{{Es: []*Expr{{K: "var", N: "Tail"}}}}})}
					}
					stmts = []*Stmt{def, use}
					law = "inline"
				}
			}
			for _, s := range stmts {
				s.normalise()
			}
			x := newIDs()
			query := renderAll(stmts)
			o := emptyObs("query")
			o.Q, o.Stmts = query, stmts
			o.Doc = x.encode(doc)
			o.Facts = facts(x, docs, stmts, 6)
			o.Res = runEngine(x, query, docs)
			o.Again = sameV(o.Res, runEngine(x, query, docs))
			if sizeOf(o.Res) > 400 || len(o.Facts) > 1500 {
				o.Big = true
				o.Facts, o.Res = []Fact{}, V{"t": "nil"}
			}
			enc.Encode(o)
			if law == "inline" { // the inlined form must give the very same value
				x2 := newIDs()
				x2.encode(doc)
				e := emptyObs("equiv")
				e.Law, e.Q = "inline", query
				e.A = runEngine(x2, query, docs)
				e.B = runEngine(x2, st.render(), docs)
				enc.Encode(e)
			}
			// algebraic laws on a list-valued prefix E
			if i%3 == 0 {
				es, t := g.chain(docT, 1+rng.Intn(2), false)
				if t != nil && t.Kind() == reflect.Slice && !isScalar(t.Elem()) && t.Elem().Kind() != reflect.Slice {
					E := (&Stmt{Es: es}).render()
					x3 := newIDs()
					x3.encode(doc)
					e := emptyObs("equiv")
					e.Law, e.Q = "combine-length", E
					e.A = runEngine(x3, "Combine("+E+", "+E+") | Length", docs)
					e.B = runEngine(x3, E+" | Length", docs)
					enc.Encode(e)
					// a compiled query used again on other documents: the documents of this evaluation count
					other := []*gedcom.Document{familyDoc(rng, 1+rng.Intn(3))}
					for _, qq := range []string{"Document1 | " + E + " | Length", "D is Document1; D | " + E + " | Length", E + " | Length"} {
						er := emptyObs("equiv")
						er.Law, er.Q = "engine-reuse", qq
						er.A = runEngine(x3, qq, docs)
						er.B = runReused(x3, qq, other, docs)
						enc.Encode(er)
					}
					cond := g.condition(t.Elem())
					cond.normalise()
					neg := *cond
					negEs := append([]*Expr{}, cond.Es...)
					last := *negEs[len(negEs)-1]
					last.Op = map[string]string{"=": "!=", "!=": "=", "<": ">=", ">": "<=", "<=": ">", ">=": "<"}[last.Op]
					negEs[len(negEs)-1] = &last
					neg.Es = negEs
					e2 := emptyObs("equiv")
					e2.Law, e2.Q = "only-partition", E+" | Only("+cond.render()+")"
					e2.A = runEngine(x3, E+" | Only("+cond.render()+")", docs)
					e2.B = runEngine(x3, E+" | Only("+neg.render()+")", docs)
					e2.C = runEngine(x3, E, docs)
					enc.Encode(e2)
					k := rng.Intn(6)
					e3 := emptyObs("equiv")
					e3.Law, e3.Q = "first-last", fmt.Sprintf("%s | First(%d) / Last(%d)", E, k, k)
					e3.A = runEngine(x3, fmt.Sprintf("%s | First(%d)", E, k), docs)
					e3.B = runEngine(x3, fmt.Sprintf("%s | Last(%d)", E, k), docs)
					e3.C = runEngine(x3, E, docs)
					e3.L = []int{k}
					enc.Encode(e3)
				}
			}
		}
	}
	return nil
}

// ------------------------------------------------------------------ C15: crash testing

type CrashObs struct {
	Q       string   `json:"q"`
	Parse   string   `json:"parse"` // ok | err | panic
	Evals   []string `json:"evals"` // per document set: value | err | panic
	Formats []string `json:"formats"`
	Msg     string   `json:"msg"`
	Died    string   `json:"died"` // "" | crash | hang (the child process died on this query)
}

var docSets [][]*gedcom.Document

func initDocSets() {
	if docSets != nil {
		return
	}
	rng := rand.New(rand.NewSource(7))
	empty := gedcom.NewDocument()
	tiny, _ := gedcom.NewDocumentFromString("0 @I1@ INDI\n1 NAME A /B/\n")
	docSets = [][]*gedcom.Document{{empty}, {tiny}, {familyDoc(rng, 6)}, {familyDoc(rng, 4), familyDoc(rng, 3)}}
}

type nullWriter struct{ n int }

func (w *nullWriter) Write(p []byte) (int, error) { w.n += len(p); return len(p), nil }

func formatters() map[string]func(io.Writer) q.Formatter {
	return map[string]func(io.Writer) q.Formatter{
		"json":        func(w io.Writer) q.Formatter { return &q.JSONFormatter{Writer: w} },
		"pretty-json": func(w io.Writer) q.Formatter { return &q.PrettyJSONFormatter{Writer: w} },
		"csv":         func(w io.Writer) q.Formatter { return &q.CSVFormatter{Writer: w} },
		"gedcom":      func(w io.Writer) q.Formatter { return &q.GEDCOMFormatter{Writer: w} },
		"html":        func(w io.Writer) q.Formatter { return &q.HTMLFormatter{Writer: w} },
	}
}

func crashOne(query string) (o CrashObs) {
	initDocSets()
	o = CrashObs{Q: query, Evals: []string{}, Formats: []string{}}
	safe := func(f func()) (msg string) {
		defer func() {
			if r := recover(); r != nil {
				msg = fmt.Sprint(r)
				if len(msg) > 120 {
					msg = msg[:120]
				}
			}
		}()
		f()
		return ""
	}
	var eng *q.Engine
	var perr error
	if m := safe(func() { eng, perr = q.NewParser().ParseString(query) }); m != "" {
		o.Parse, o.Msg = "panic", m
		return o
	}
	if perr != nil || eng == nil {
		o.Parse = "err"
		return o
	}
	o.Parse = "ok"
	names := []string{"csv", "gedcom", "html", "json", "pretty-json"}
	fm := formatters()
	for _, ds := range docSets {
		var res interface{}
		var err error
		var e2 *q.Engine
		// a fresh engine per evaluation (Evaluate registers the documents as variables)
		if m := safe(func() { e2, _ = q.NewParser().ParseString(query); res, err = e2.Evaluate(ds) }); m != "" {
			o.Evals = append(o.Evals, "panic")
			o.Msg = m
			continue
		}
		if err != nil {
			o.Evals = append(o.Evals, "err")
			continue
		}
		o.Evals = append(o.Evals, "value")
		for _, n := range names {
			w := &nullWriter{}
			var ferr error
			if m := safe(func() { ferr = fm[n](w).Write(res) }); m != "" {
				o.Formats = append(o.Formats, n+":panic")
				o.Msg = n + ": " + m
			} else if ferr != nil {
				o.Formats = append(o.Formats, n+":err")
			} else {
				o.Formats = append(o.Formats, n+":ok")
			}
		}
	}
	return o
}

func CrashBatch(r io.Reader, w io.Writer) error {
	debug.SetMaxStack(64 << 20) // a runaway recursion dies quickly instead of eating 1 GB
	sc := bufio.NewScanner(r)
	sc.Buffer(make([]byte, 1<<20), 1<<24)
	enc := json.NewEncoder(w)
	for sc.Scan() {
		var s string
		if err := json.Unmarshal(sc.Bytes(), &s); err != nil {
			return err
		}
		// announce before running: if the process dies the parent knows where
		fmt.Fprintf(os.Stderr, "VH-AT %s\n", sc.Bytes())
		done := make(chan CrashObs, 1)
		go func() { done <- crashOne(s) }()
		select {
		case o := <-done:
			enc.Encode(o)
		case <-time.After(5 * time.Second):
			// the goroutine cannot be stopped: report the query and leave; the parent goes on after it
			enc.Encode(CrashObs{Q: s, Parse: "?", Evals: []string{}, Formats: []string{}, Died: "hang", Msg: "no result within 5 s"})
			os.Exit(3)
		}
	}
	return sc.Err()
}

func runChild(queries []string, timeout time.Duration) (out []CrashObs, ok bool, stderrTail string) {
	self := os.Getenv("VH_SELF")
	if self == "" {
		self, _ = os.Executable()
	}
	var in bytes.Buffer
	for _, s := range queries {
		b, _ := json.Marshal(s)
		in.Write(b)
		in.WriteByte('\n')
	}
	cmd := exec.Command(self, "query", "crash-batch")
	cmd.Stdin = &in
	var so, se bytes.Buffer
	cmd.Stdout, cmd.Stderr = &so, &se
	if err := cmd.Start(); err != nil {
		return nil, false, err.Error()
	}
	done := make(chan error, 1)
	go func() { done <- cmd.Wait() }()
	var werr error
	select {
	case werr = <-done:
	case <-time.After(timeout):
		cmd.Process.Kill()
		<-done
		werr = fmt.Errorf("timeout")
	}
	dec := json.NewDecoder(&so)
	for {
		var o CrashObs
		if err := dec.Decode(&o); err != nil {
			break
		}
		out = append(out, o)
	}
	tail := se.String()
	if len(tail) > 600 {
		tail = tail[len(tail)-600:]
	}
	return out, werr == nil && len(out) == len(queries), tail
}

// Crash runs every query string in child processes; a batch whose child dies is bisected.
func Crash(r io.Reader, w io.Writer) error {
	sc := bufio.NewScanner(r)
	sc.Buffer(make([]byte, 1<<20), 1<<24)
	var all []string
	for sc.Scan() {
		var s string
		if err := json.Unmarshal(sc.Bytes(), &s); err != nil {
			return err
		}
		all = append(all, s)
	}
	bw := bufio.NewWriterSize(w, 1<<20)
	defer bw.Flush()
	enc := json.NewEncoder(bw)
	hangs := 0
	var handle func(qs []string)
	handle = func(qs []string) {
		if len(qs) == 0 {
			return
		}
		if hangs >= 30 {
			// every hang costs seconds: with this many already reported the rest is recorded as not run
			for _, q := range qs {
				enc.Encode(CrashObs{Q: q, Parse: "skipped", Evals: []string{}, Formats: []string{}})
			}
			return
		}
		out, ok, tail := runChild(qs, time.Duration(20+len(qs)/50)*time.Second)
		if ok {
			for _, o := range out {
				enc.Encode(o)
			}
			return
		}
		if len(qs) == 1 {
			kind := "crash"
			if !strings.Contains(tail, "goroutine") && !strings.Contains(tail, "fatal") && !strings.Contains(tail, "panic") {
				kind = "hang"
				hangs++
			}
			enc.Encode(CrashObs{Q: qs[0], Parse: "?", Evals: []string{}, Formats: []string{}, Died: kind, Msg: lastLines(tail)})
			return
		}
		// the children that completed before the death are kept; bisect the rest
		for _, o := range out {
			if o.Died == "hang" {
				hangs++
			}
			enc.Encode(o)
		}
		rest := qs[len(out):]
		if len(out) > 0 {
			handle(rest)
			return
		}
		handle(rest[:len(rest)/2])
		handle(rest[len(rest)/2:])
	}
	const batch = 4000
	for i := 0; i < len(all); i += batch {
		j := i + batch
		if j > len(all) {
			j = len(all)
		}
		handle(all[i:j])
	}
	return nil
}

func lastLines(s string) string {
	for _, l := range strings.Split(s, "\n") {
		if strings.HasPrefix(l, "fatal error:") || strings.HasPrefix(l, "panic:") || strings.HasPrefix(l, "runtime:") {
			return l
		}
	}
	if len(s) > 200 {
		return s[len(s)-200:]
	}
	return s
}

var examples = []string{
	`.Individuals | .Name | .String`, `.Individuals | Length`, `.Individuals | First(2) | .Name`, `.Individuals | Last(1)`,
	`.Individuals | Only(.Name | .String = "John Smith") | .Pointer`, `Names are .Individuals | .Name; Names | .GivenName`,
	`.Individuals | { name: .Name | .String, born: .Birth | .String }`, `Combine(.Individuals | .Births, .Individuals | .Deaths)`,
	`.Families | .Husband | .String`, `?`, `.Individuals | ?`, `.Individuals | NodesWithTagPath(BIRT, DATE)`, `.Individuals | NodesWithTagPath("BIRT", "DATE")`, `.Individuals | NodesWithTagPath("DEAT")`,
	`Births are .Individuals | NodesWithTagPath("BIRT", "DATE") | {type: "birth", date: .String}; Deaths are .Individuals | NodesWithTagPath("DEAT", "DATE") | {type: "death", date: .String}; Combine(Births, Deaths)`,
	`.Individuals | NodesWithTagPath("BIRT", "DATE") | .Value`, `.Nodes | .Tag | .String`, `.Nodes | .Nodes | Only(.Value != "") | .Tag`, `.Individuals | .Nodes | Only(.Tag = "NAME")`,
	`MergeDocumentsAndIndividuals(Document1, Document2) | .Individuals | Length`, `Document1 | .Individuals | .Name`, `.Individuals | .Age | .String`,
	`X is X; X`, `A is B; B is A; A`, `.Individuals | .Nodes | First(1) | .Nodes`, `Combine | ?`, `Combine(.Individuals, 3)`, `First`, `Only()`, `Last(-1)`,
	`.Individuals | Only(.Spouses | Length > 0) | { name: .Name | .String, n: .Children | Length }`, `.Nodes | .Pointer = "I1"`, `.Individuals | .Sex | .Value`,
}

func init() {
	// deep nesting (the cost of parsing and evaluating must not explode with the depth) and variables that refer to
	// themselves more than once in one expression (the depth limit must stop them at once, not after 2^depth steps)
	for _, d := range []int{12, 22, 40} {
		examples = append(examples,
			strings.Repeat("Combine(", d)+".Individuals"+strings.Repeat(")", d),
			".Individuals | "+strings.Repeat("{ a: ", d)+".Name | .String"+strings.Repeat(" }", d),
			strings.Repeat("{ a: Combine(", d)+".Families"+strings.Repeat(") }", d),
			".Individuals | "+strings.Repeat("Only(", d)+`.Sex | .Value = "M"`+strings.Repeat(")", d))
	}
	examples = append(examples, `T is { l: T, r: T }; T`, `T is Combine(T, T); T`, `T is { l: T | .Name, m: T, r: T }; .Individuals | T`,
		`A is { x: B, y: B }; B is { x: A, y: A }; A`, `T is Only(T = T); .Individuals | T`)
}

var tokenPool = []string{".", ".Individuals", ".Name", ".Nodes", ".String", ".X", "|", ";", "?", "(", ")", "{", "}", ":", ",", "=", "!", ">", "<", `"a"`, `""`, "1", "0",
	"First", "Last", "Length", "Only", "Combine", "NodesWithTagPath", "MergeDocumentsAndIndividuals", "is", "are", "X", "Document1", "Document2", "name", `"`}

// allAccessors lists every method without arguments that returns something (the engine calls any of them), no deny list
func allAccessors(t reflect.Type) []method {
	pt := t
	if t.Kind() != reflect.Ptr && t.Kind() != reflect.Interface {
		pt = reflect.PtrTo(t)
	}
	out := []method{}
	for i := 0; i < pt.NumMethod(); i++ {
		m := pt.Method(i)
		in := 1
		if pt.Kind() == reflect.Interface {
			in = 0
		}
		if m.Type.NumIn() != in || m.Type.NumOut() < 1 || strings.HasPrefix(m.Name, "Add") || strings.HasPrefix(m.Name, "Set") ||
			strings.HasPrefix(m.Name, "Delete") || strings.HasPrefix(m.Name, "Remove") {
			continue
		}
		out = append(out, method{m.Name, m.Type.Out(0)})
	}
	return out
}

// reflected writes every accessor chain of depth 1 and 2 from the document (whatever the accessors return: lists, maps,
// structs, numbers, interfaces), bare and followed by the functions
func reflected(enc *json.Encoder) {
	docT := reflect.TypeOf(&gedcom.Document{})
	for _, a := range allAccessors(docT) {
		heads := []string{"." + a.name}
		t := a.out
		for t.Kind() == reflect.Slice || t.Kind() == reflect.Map {
			t = t.Elem()
		}
		if t.Kind() == reflect.Ptr || t.Kind() == reflect.Interface || t.Kind() == reflect.Struct {
			for _, b := range allAccessors(t) {
				heads = append(heads, "."+a.name+" | ."+b.name)
			}
		}
		for _, h := range heads {
			enc.Encode(h)
			enc.Encode(h + " | First(1)")
			enc.Encode(h + " | Length")
			enc.Encode(h + " | { a: .String }")
			enc.Encode(h + ` | Only(.String = "x")`)
		}
	}
}

func Strings(w io.Writer, seed int64, n int) error {
	rng := rand.New(rand.NewSource(seed))
	enc := json.NewEncoder(w)
	for _, e := range examples {
		enc.Encode(e)
	}
	reflected(enc)
	for i := 0; i < n; i++ {
		switch rng.Intn(4) {
		case 0: // mutate a documented example: drop / duplicate / swap / insert a token
			toks := strings.Fields(examples[rng.Intn(len(examples))])
			for k := 1 + rng.Intn(2); k > 0 && len(toks) > 0; k-- {
				p := rng.Intn(len(toks))
				switch rng.Intn(4) {
				case 0:
					toks = append(toks[:p], toks[p+1:]...)
				case 1:
					toks = append(toks[:p], append([]string{toks[p]}, toks[p:]...)...)
				case 2:
					toks[p] = tokenPool[rng.Intn(len(tokenPool))]
				case 3:
					toks = append(toks[:p], append([]string{tokenPool[rng.Intn(len(tokenPool))]}, toks[p:]...)...)
				}
			}
			enc.Encode(strings.Join(toks, " "))
		case 1: // random token sequences
			k := 1 + rng.Intn(9)
			toks := []string{}
			for ; k > 0; k-- {
				toks = append(toks, tokenPool[rng.Intn(len(tokenPool))])
			}
			enc.Encode(strings.Join(toks, []string{" ", ""}[rng.Intn(2)]))
		case 2: // random bytes
			b := make([]byte, rng.Intn(20))
			for j := range b {
				b[j] = byte(rng.Intn(256))
			}
			enc.Encode(string(b))
		default: // byte-mutated example
			b := []byte(examples[rng.Intn(len(examples))])
			if len(b) > 0 {
				p := rng.Intn(len(b))
				switch rng.Intn(3) {
				case 0:
					const alphabet = `"(){}|.;:,!=<>? a1`
					b[p] = alphabet[rng.Intn(len(alphabet))]
				case 1:
					b = b[:p]
				case 2:
					b = append(b[:p], b[p+1:]...)
				}
			}
			enc.Encode(string(b))
		}
	}
	return nil
}

func Main(args []string) error {
	seed, _ := strconv.ParseInt(os.Getenv("VERIF_SEED"), 10, 64)
	if len(args) == 0 {
		return fmt.Errorf("query: missing subcommand")
	}
	num := func(i, def int) int {
		if len(args) > i {
			if v, err := strconv.Atoi(args[i]); err == nil {
				return v
			}
		}
		return def
	}
	switch args[0] {
	case "eval":
		return Eval(os.Stdout, seed, num(1, 1000))
	case "crash":
		return Crash(os.Stdin, os.Stdout)
	case "crash-batch":
		return CrashBatch(os.Stdin, os.Stdout)
	case "strings":
		return Strings(os.Stdout, seed, num(1, 1000))
	}
	return fmt.Errorf("query: unknown subcommand %q", args[0])
}
