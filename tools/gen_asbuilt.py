#!/usr/bin/env python3
"""Regenerates the tables of DESIGN.md section 13 (between the GENERATED markers) from MANIFEST.json, known_findings.json,
seeded/*/meta.json and the commit log of /repo."""
import glob
import json
import os
import re
import subprocess

V = "/verif"
m = json.load(open(V + "/MANIFEST.json"))
kf = json.load(open(V + "/known_findings.json"))["findings"]
modules = {'codec': 'lib/Chars, CodecOps, Codec, CodecBuild, trace/CodecTrace', 'dates': 'lib/Calendar, DatesOps, Dates, trace/DatesTrace',
           'datebounds': 'DateBounds, trace/DateBoundsTrace', 'datecompare': 'DateCompareRel, DateCompareOps, DateCompare, apalache/DateCompareInd, trace/DateCompareTrace',
           'nodeheap': 'NodeHeapOps, NodeHeap, trace/NodeHeapTrace', 'mergedocs': 'MergeDocsOps, MergeDocs, trace/MergeDocsTrace',
           'matching': 'MatchingOps, MatchingLogOps, Matching (PlusCal), trace/MatchingTrace', 'similarity': 'SimilarityOps, Similarity, NamesOps, Names, trace/SimilarityTrace, trace/NamesTrace',
           'document': 'DocumentOps, Document, trace/DocumentTrace', 'commands': 'CommandsOps, Commands, DiffPageOps, DiffPage (PlusCal), trace/CommandsTrace, trace/DiffPageTrace',
           'query': 'QueryOps, Query, trace/QueryTrace, trace/QueryCrashTrace', 'publish': 'PublishOps, Publish (PlusCal), PublishCases, PageNames, trace/PublishTrace',
           'htmlstructure': 'HtmlStructureOps, HtmlStructure, trace/HtmlStructureTrace', 'warnings': 'WarningsOps, Warnings, trace/WarningsTrace'}

gen = {}
rows = ["| property | engine | specification modules | technique as registered in MANIFEST.json |", "|---|---|---|---|"]
for c in m["checks"]:
    rows.append("| %s | %s | %s | %s |" % (c["property_id"], c["engine"], modules.get(c["engine"], ""), c["technique"].replace("|", "/")))
gen["checks"] = "\n".join(rows)

log = subprocess.run(["git", "-C", "/repo", "log", "--format=%h %s", "a2ec6fc..HEAD"], capture_output=True, text=True).stdout.strip().split("\n")[::-1]
gen["commits"] = "```\n" + "\n".join(log) + "\n```"

rows = ["| id | status | commit | what |", "|---|---|---|---|"]
for f in kf:
    rows.append("| %s | %s | %s | %s |" % (f["id"], f["status"], f.get("commit", ""), f["what"].replace("|", "/")[:420]))
gen["findings"] = "\n".join(rows)

rows = ["| seeded change | detected | how / what had to be strengthened |", "|---|---|---|"]
counts = {}
for d in sorted(glob.glob(V + "/seeded/*")):
    mm = json.load(open(d + "/meta.json"))
    det = mm.get("detected_by_check") or "no"
    if "obsolete" in os.path.basename(d):
        det = "obsolete"
    counts[det] = counts.get(det, 0) + 1
    rows.append("| %s | %s | %s |" % (os.path.basename(d), det, (mm.get("note") or "").replace("|", "/")))
gen["seeded"] = "\n".join(rows)
gen["seededcounts"] = "%d changes: %d detected at once, %d detected only after the check was strengthened (the note says what was missing), %d not detected by the check of their property or not confirmed (round 4; the note says why, and which other check reports them), %d obsolete (written against the tree before a repair after which they no longer apply or no longer break the property)." % (
    sum(counts.values()), counts.get("yes", 0), counts.get("after-strengthening", 0), counts.get("no", 0), counts.get("obsolete", 0))
nfix = sum(1 for l in log if l.split(" ", 1)[1].startswith("fix:"))
nknown = sum(1 for f in kf if f["status"] == "known")
gen["status"] = "%d `fix:` commits in /repo, %d known findings, %d seeded changes" % (nfix, nknown, sum(counts.values()))

p = V + "/DESIGN.md"
s = open(p).read()
for key, text in gen.items():
    pat = re.compile(r"(<!-- BEGIN GENERATED %s -->\n).*?(\n<!-- END GENERATED %s -->)" % (key, key), re.S)
    if not pat.search(s):
        print("marker for", key, "missing")
        continue
    s = pat.sub(lambda mo: mo.group(1) + text + mo.group(2), s)
open(p, "w").write(s)
print(gen["status"], "|", gen["seededcounts"][:60])
