#!/usr/bin/env python3
"""Binding self-test (DESIGN.md 13.7).

    VERIF_SAVE_OBS=<dir> ./vcheck Cxx        # keeps a sample of the observations each trace specification validated
    tools/selftest.py <dir> [Cxx ...]        # corrupts one recorded field in a few of them and validates again

For every sample file the trace specification must (1) give the same verdicts on the untouched observations as before and
(2) reject every corrupted observation.  A corruption changes one recorded field at the property's abstraction; it is applied
to the recorded JSON only, the code is not involved.  Exit 0 = every trace specification rejected every corruption."""
import copy
import glob
import json
import os
import sys

sys.path.insert(0, os.path.join(os.path.dirname(os.path.abspath(__file__)), ".."))
from run import common  # noqa: E402


# ---- corruptions: obs -> True if the observation was changed (False: this one cannot be corrupted that way)

def c_codec_build(o):
    if o.get("big") or not o["decoded"]["forest"]:
        return False
    o["decoded"]["forest"].pop()          # a root record is lost on the round trip
    return True


def c_codec_decode(o):
    if o.get("big"):
        return False
    if o["obs"]["out"] == "doc" and o["obs"]["forest"]:
        f = o["obs"]["forest"]
        if f[-1].get("kids"):
            f[-1]["kids"].pop()           # the last line of the last record is not attached
        else:
            f.pop()
        return True
    return False


def c_codec_crash(o):
    if o["obs"]["out"] == "doc":
        o["obs"]["out"] = "panic"         # the decoder panicked
        return True
    return False


def c_dates(o):
    if not o["parsed"]["valid"]:
        return False
    o["parsed"]["valid"] = False          # a documented form is reported invalid
    return True


def c_datebounds(o):
    o["sday"] += 1                         # the period starts a day late
    return True


def c_datecompare(o):
    o["r1"] = "Equal" if o["r1"] != "Equal" else "Before"
    return True


def c_nodeheap(o):
    if o["mode"] == "c07":
        o["selfeq"] = not o["selfeq"]
        o["copy"]["shared"] += 1           # the copy shares a node with the original
        return True
    if o["mode"] == "c08":
        o["pure"]["compare"] = False       # comparing modified an input
        return True
    o["shared"] += 1                       # the merge result shares a node with an input
    o["pure"] = False
    return True


def c_document(o):
    if not o.get("readok"):
        return False
    for k in o["readok"]:
        o["readok"][k] = False             # the read changed the document
    return True


def c_warnings(o):
    if o["got"]:
        o["got"].pop()                     # a warranted warning is missing
        return True
    return False


def c_similarity(o):
    o["sym"] = False
    o["unit"] = False
    return True


def c_matching(o):
    if len(o["final"]) >= 1:
        o["final"].append(copy.deepcopy(o["final"][0]))   # an individual appears in two results
        return True
    return False


def c_mergedocs(o):
    changed = False
    for side in ("lib", "query"):
        out = o[side]
        for key in ("people", "indis", "individuals"):
            if isinstance(out.get(key), list) and out[key]:
                out[key].pop()             # a person of the inputs is not in the merged document
                changed = True
    return changed


def c_query(o):
    if o["kind"] == "query" and not o["big"]:
        o["res"] = {"t": "int", "n": 987654}
        o["again"] = False
        return True
    if o["kind"] == "ops":
        o["ops"]["="] = not o["ops"]["="]
        return True
    return False


def c_querycrash(o):
    if o["evals"]:
        o["evals"][0] = "panic"
    else:
        o["parse"] = "panic"                # the parser panicked
    return True


def c_publish_c17(o):
    c = o["case"]
    if c["opts"]["living"] == "show":
        return False
    living = [p for p in c["doc"]["people"] if p["kind"] in ("nodate", "recent", "burialonly")]
    dead = [p for p in c["doc"]["people"] if p["kind"] in ("deat", "old")]
    public = set()
    for p in dead:
        public.update([p["given"], p["sur"], p["nick"], p["bplac"], p["rplac"], p["dplac"], p["note"], p["occu"]] + p["altg"] + p["alts"])
    cand = [p["given"] for p in living if p["given"] and p["given"] not in public]
    if not cand or not o["runs"][0]["files"]:
        return False
    o["runs"][0]["files"][0]["found"].append(cand[0])      # the given name of a living person is in a file
    return True


def c_publish_c19(o):
    r = o["runs"][0]
    if o["case"]["kind"] != "site" or not r["files"]:
        return False
    f = r["files"][0]
    f["name"] = "../x.html"
    f["namecp"] = [ord(ch) for ch in f["name"]]           # a file outside the output directory
    return True


def c_html(o):
    for r in o["runs"]:
        if r["variant"] == "taint" and r["files"] and r["files"][0]["ev"]:
            r["files"][0]["ev"].pop()                        # the last end tag is missing
            return True
    return False


def c_commands(o):
    if not o["runs"]:
        return False
    o["runs"][0]["panic"] = True
    o["runs"][0]["exit"] = 2
    return True


CORRUPT = {
    ("C01", "CodecTrace_build"): c_codec_build,
    ("C02", "CodecTrace_decode"): c_codec_decode,
    ("C03", "CodecTrace_decode"): c_codec_crash,
    ("C04", "DatesTrace"): c_dates,
    ("C05", "DateBoundsTrace"): c_datebounds,
    ("C06", "DateCompareTrace"): c_datecompare,
    ("C07", "NodeHeapTrace"): c_nodeheap,
    ("C08", "NodeHeapTrace"): c_nodeheap,
    ("C09", "NodeHeapTrace"): c_nodeheap,
    ("C10", "MergeDocsTrace"): c_mergedocs,
    ("C11", "MatchingTrace"): c_matching,
    ("C12", "SimilarityTrace"): c_similarity,
    ("C13", "DocumentTrace"): c_document,
    ("C14", "CommandsTrace"): c_commands,
    ("C15", "QueryCrashTrace"): c_querycrash,
    ("C16", "QueryTrace"): c_query,
    ("C17", "PublishTrace_C17"): c_publish_c17,
    ("C18", "HtmlStructureTrace"): c_html,
    ("C19", "PublishTrace_C19"): c_publish_c19,
    ("C20", "WarningsTrace"): c_warnings,
}


def validate(prop, module, cfg, obs_name, lines):
    ctx = common.Ctx(prop, "quick", 1)
    try:
        path = ctx.path("selftest.ndjson")
        with open(path, "w") as fh:
            fh.writelines(lines)
        os.environ.pop("VERIF_SAVE_OBS", None)
        bad, total = common.validate_obs(ctx, module, cfg, obs_name, path, timeout=1800, chunk=100000)
        return {o["_selftest"] for o in bad if o["spec_extras"] and o["spec_extras"][0] != "model"} | \
               {o["_selftest"] for o in bad if not o["spec_extras"] or o["spec_extras"][0] == "model"}
    finally:
        ctx.cleanup()


def main():
    d = sys.argv[1]
    only = set(sys.argv[2:])
    failed = []
    for f in sorted(glob.glob(os.path.join(d, "*"))):
        prop, module, cfg, obs_name = os.path.basename(f).split("__")
        if only and prop not in only:
            continue
        fn = CORRUPT.get((prop, cfg))
        if fn is None:
            print("%s %s: no corruption registered" % (prop, cfg))
            failed.append((prop, cfg))
            continue
        with open(f) as fh:
            obs = [json.loads(l) for l in fh if l.strip()][:150]
        for k, o in enumerate(obs):
            o["_selftest"] = k
        pristine = [json.dumps(o) + "\n" for o in obs]
        base_bad = validate(prop, module, cfg, obs_name, pristine)
        corrupted = set()
        for k in range(2, len(obs), 7):
            if len(corrupted) >= 8:
                break
            if k in base_bad:
                continue
            o = copy.deepcopy(obs[k])
            if fn(o):
                obs[k] = o
                corrupted.add(k)
        if not corrupted:
            print("%s %s: nothing could be corrupted in the sample" % (prop, cfg))
            failed.append((prop, cfg))
            continue
        bad = validate(prop, module, cfg, obs_name, [json.dumps(o) + "\n" for o in obs])
        missed = corrupted - bad
        collateral = (bad - corrupted) ^ (base_bad - corrupted)
        ok = not missed and not collateral
        print("%s %-22s %3d observations, %d corrupted, %d rejected, untouched verdicts %s -> %s" % (
            prop, cfg, len(obs), len(corrupted), len(corrupted & bad), "unchanged" if not collateral else "CHANGED", "ok" if ok else "FAILED"))
        if not ok:
            failed.append((prop, cfg))
    print("SELFTEST", "FAILED: %s" % failed if failed else "ok")
    return 1 if failed else 0


if __name__ == "__main__":
    sys.exit(main())
