#!/bin/bash
# verify_mutant.sh <mutdir> : confirm in a scratch worktree that the seeded change
#  (1) compiles and passes the repository's unedited suite, (2) makes its demo fail, (3) demo passes without it.
# prints one line: <mutdir> suite=<ok|FAIL> demo_with=<fail|PASS?> demo_without=<pass|FAIL?>
export GOFLAGS=-mod=mod GOPROXY=off GOSUMDB=off GOTOOLCHAIN=local
M=$1
WT=/tmp/wt/verify-$$
git -C /repo worktree add -q --detach $WT HEAD || exit 2
trap 'git -C /repo worktree remove --force $WT' EXIT
cd $WT
demo_dir=$(python3 -c "import json;print(json.load(open('$M/meta.json')).get('demo_dir','.'))")
demo_cmd=$(python3 -c "import json;print(json.load(open('$M/meta.json')).get('demo_cmd',''))")
[ -d "$demo_dir" ] || demo_dir=.
if git apply --check $M/patch.diff 2>/dev/null; then git apply $M/patch.diff
elif git apply --3way $M/patch.diff >/dev/null 2>&1 && ! grep -rl '^<<<<<<<' --include=*.go . >/dev/null; then git reset -q; echo "  (applied with 3-way merge)"
elif git reset -q --hard HEAD && patch -p1 --fuzz=3 -s < $M/patch.diff >/dev/null 2>&1; then echo "  (applied with fuzz)"; find . -name '*.orig' -delete
else git reset -q --hard HEAD; echo "$M patch-does-not-apply"; exit 1; fi
if go build ./... >/dev/null 2>&1 && go test -vet=off -count=1 ./... >/tmp/wt/suite-$$.log 2>&1; then suite=ok; else suite=FAIL; fi
cp $M/demo_test.go $demo_dir/zz_demo_test.go 2>/dev/null
runs=$(grep -o 'func Test[A-Za-z0-9_]*' $demo_dir/zz_demo_test.go | sed 's/func //' | paste -sd'|')
if (cd $demo_dir && go test -vet=off -count=1 -run "^($runs)\$" . >/tmp/wt/demo1-$$.log 2>&1); then with=PASS-unexpected; else with=fail; fi
git checkout -q -- . ; git clean -fdq -e zz_demo_test.go
if (cd $demo_dir && go test -vet=off -count=1 -run "^($runs)\$" . >/tmp/wt/demo2-$$.log 2>&1); then without=pass; else without=FAIL-unexpected; fi
rm -f $demo_dir/zz_demo_test.go
echo "$M suite=$suite demo_with=$with demo_without=$without"
rm -f /tmp/wt/*-$$.log
