#!/bin/bash
# try_mutant_copy.sh <patch.diff> <Cxx> [tier]: like try_mutant.sh, but leaves /repo alone: the change is applied to a scratch
# worktree of /repo and the check runs from a scratch copy of /verif whose harness is pointed at that worktree.  For use while
# other checks are running against /repo.  Everything is removed afterwards.
P=$1; C=$2; T=${3:-quick}
WT=/tmp/wt/trycopy-$$; VC=/tmp/vcopy-$$
git -C /repo worktree add -q --detach $WT HEAD || exit 2
trap 'git -C /repo worktree remove --force $WT; rm -rf $VC' EXIT
cd $WT
if git apply --check $P 2>/dev/null; then git apply $P
elif git apply --3way $P >/dev/null 2>&1 && ! grep -rl '^<<<<<<<' --include=*.go . >/dev/null; then git reset -q
elif git reset -q --hard HEAD && patch -p1 --fuzz=3 -s < $P >/dev/null 2>&1; then find . -name '*.orig' -delete
else echo "$P patch does not apply"; exit 2; fi
git diff --quiet && { echo "$P applied to nothing"; exit 2; }
mkdir -p $VC && rsync -a --exclude .git --exclude replays --exclude evidence /verif/ $VC/ && mkdir -p $VC/replays $VC/evidence
sed -i "s|=> /repo|=> $WT|" $VC/harness/go.mod
cd $VC && VERIF_REPO=$WT timeout 3000 ./vcheck $C --tier $T > $VC/out.txt 2> $VC/err.txt; rc=$?
echo "$P $C exit=$rc $(grep -c '^VIOLATION' $VC/out.txt) violation lines; $(grep -- '->' $VC/err.txt | head -3 | tr '\n' ' ' | cut -c1-500)"
[ $rc -eq 2 ] && tail -5 $VC/err.txt
python3 -c "import json,sys; e=json.load(open(\"$VC/evidence/$C.json\")); s=json.dumps(e); i=s.find(\"drift_by_clause\"); print(\"  \"+s[i:i+300] if i>=0 else \"\")" 2>/dev/null
