#!/bin/bash
# try_mutant.sh <patch.diff> <Cxx> [tier]: apply the change to /repo, run the check, undo it straight afterwards.
P=$1; C=$2; T=${3:-quick}
cd /repo || exit 2
if [ -n "$(git status --porcelain)" ]; then echo "/repo not clean"; exit 2; fi
if git apply --check $P 2>/dev/null; then git apply $P
elif git apply --3way $P >/dev/null 2>&1 && ! grep -rl '^<<<<<<<' --include=*.go . >/dev/null; then git reset -q
elif git reset -q --hard HEAD && patch -p1 --fuzz=3 -s < $P >/dev/null 2>&1; then find . -name '*.orig' -delete
else git reset -q --hard HEAD; echo "$P patch does not apply"; exit 2; fi
git diff --quiet && { echo "$P applied to nothing"; exit 2; }
cd /verif && timeout 1500 ./vcheck $C --tier $T > /tmp/try-$C-$$.out 2> /tmp/try-$C-$$.err; rc=$?
git -C /repo reset -q --hard HEAD; git -C /repo clean -fdq
echo "$P $C exit=$rc $(grep -c '^VIOLATION' /tmp/try-$C-$$.out) violation lines; $(grep -- '->' /tmp/try-$C-$$.err | head -3 | tr '\n' ' ' | cut -c1-400)"
rm -f /tmp/try-$C-$$.out /tmp/try-$C-$$.err
