#!/usr/bin/env python3
"""import_mutant.py <src dir> <seeded id> <detected: yes|no|after-strengthening> <note>"""
import json, os, shutil, sys
src, sid, det, note = sys.argv[1:5]
dst = os.path.join("/verif/seeded", sid)
os.makedirs(dst, exist_ok=True)
for f in ("patch.diff", "demo_test.go"):
    if os.path.exists(os.path.join(src, f)):
        shutil.copy(os.path.join(src, f), dst)
if os.path.isdir(os.path.join(src, "demo")):
    shutil.copytree(os.path.join(src, "demo"), os.path.join(dst, "demo"), dirs_exist_ok=True)
m = json.load(open(os.path.join(src, "meta.json")))
m["confirmed"] = "tools/verify_mutant.sh in a scratch worktree: repository suite passes with the change, demo fails with it and passes without"
m["detected_by_check"] = det
m["check_ran"] = "tools/try_mutant.sh %s/patch.diff %s (quick tier)" % (dst, m["property"])
m["note"] = note
json.dump(m, open(os.path.join(dst, "meta.json"), "w"), indent=1)
print("imported", sid)
