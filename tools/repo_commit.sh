#!/bin/bash
# repo_commit.sh <message-file>: commit the working tree of /repo only if it builds (with and without the
# verif tag) and the repository's suite passes.
set -u
export GOFLAGS=-mod=mod GOPROXY=off GOSUMDB=off GOTOOLCHAIN=local
cd /repo || exit 2
go build ./... || { echo "BUILD FAILED - not committed"; exit 1; }
go build -tags verif ./... || { echo "BUILD (verif) FAILED - not committed"; exit 1; }
out=$(go test -vet=off -count=1 ./... 2>&1); rc=$?
if [ $rc -ne 0 ] || echo "$out" | grep -q -E "FAIL|build failed"; then echo "$out" | tail -15; echo "TESTS FAILED - not committed"; exit 1; fi
git add -A && git commit -q -F "$1" && git log --oneline | head -1
