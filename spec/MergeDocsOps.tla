------------------------------ MODULE MergeDocsOps ------------------------------
(***************************************************************************)
(* C10.  Merging two family-graph documents with individual matching.      *)
(* An abstract document is [people, fams]:                                 *)
(*    person = [p, who]            p = pointer, who = ground-truth identity *)
(*                                 (used only by the oracle)               *)
(*    family = [p, husb, wife, chil]   pointers ("" = none), Seq(pointer)  *)
(* The merge result is [people, fams] with                                 *)
(*    out person = [p, src]   src = set of <<side, index>> of the input    *)
(*                            individuals it stems from                    *)
(*    out family = [p, src, husb, wife, chil]  src = set of <<side, index>> *)
(*                            of the input families it stems from          *)
(* NoRewrite = TRUE is the named deviation AsIs_NoPointerRewrite: the      *)
(* references of the right document are copied verbatim although a merged  *)
(* individual lives on under the LEFT pointer.                             *)
(***************************************************************************)
EXTENDS Integers, Sequences, FiniteSets, TLC

SeqToSet(s) == {s[i] : i \in 1..Len(s)}
Idx(s) == 1..Len(s)
Side(d, side) == IF side = "L" THEN d.left ELSE d.right

\* who a pointer stands for in an input document (0 = nobody: a dangling reference)
WhoOf(doc, ptr) == LET S == {i \in Idx(doc.people) : doc.people[i].p = ptr} IN
                   IF ptr = "" \/ S = {} THEN 0 ELSE doc.people[CHOOSE i \in S : TRUE].who
Closed(doc) == \A f \in SeqToSet(doc.fams) : \A r \in ({f.husb, f.wife} \ {""}) \cup SeqToSet(f.chil) : WhoOf(doc, r) # 0
UniquePeople(doc) == \A i, j \in Idx(doc.people) : i # j => doc.people[i].p # doc.people[j].p /\ doc.people[i].who # doc.people[j].who

\* ---- the properties of a merge result `out` for the inputs d = [left, right]
SrcWho(d, s) == Side(d, s[1]).people[s[2]].who
WhosOf(d, op) == {SrcWho(d, s) : s \in op.src}
AllInputPeople(d) == {<<"L", i>> : i \in Idx(d.left.people)} \cup {<<"R", i>> : i \in Idx(d.right.people)}

\* each individual of either input is carried over or merged into exactly one individual of the output
EveryoneAccountedOnce(d, out) ==
  \A s \in AllInputPeople(d) : Cardinality({k \in Idx(out.people) : s \in out.people[k].src}) = 1
\* ... and nothing is merged that is not the same person, nobody is invented
OnlySamePersonMerged(d, out) ==
  \A k \in Idx(out.people) : out.people[k].src # {} /\ Cardinality(WhosOf(d, out.people[k])) = 1

\* a reference of the output: role line of an output family, with the input families it stems from
\* For every input family the output family stems from and every member that family names:
\* the output family names a pointer that resolves to the record now representing that person.
RefsOfInputFamily(f) == {[role |-> "HUSB", v |-> f.husb], [role |-> "WIFE", v |-> f.wife]} \cup {[role |-> "CHIL", v |-> f.chil[i]] : i \in Idx(f.chil)}
OutRefs(of) == {[role |-> "HUSB", v |-> of.husb[i]] : i \in Idx(of.husb)} \cup {[role |-> "WIFE", v |-> of.wife[i]] : i \in Idx(of.wife)}
               \cup {[role |-> "CHIL", v |-> of.chil[i]] : i \in Idx(of.chil)}
Represents(d, out, ptr, who) == \E k \in Idx(out.people) : out.people[k].p = ptr /\ who \in WhosOf(d, out.people[k])
\* every reference of the output resolves to the record that now represents the same person
RefOK(d, out, of, s, r) ==      \* r: a reference of input family s
  LET who == WhoOf(Side(d, s[1]), r.v) IN
  (r.v # "" /\ who # 0) => \E o \in OutRefs(of) : o.role = r.role /\ Represents(d, out, o.v, who)
\* ... and every pointer the output family names stands for one of the people its input families named
OutRefMeaningful(d, out, of, o) ==
  \E s \in of.src : \E r \in RefsOfInputFamily(Side(d, s[1]).fams[s[2]]) :
     r.role = o.role /\ r.v # "" /\ LET who == WhoOf(Side(d, s[1]), r.v) IN (who = 0 \/ Represents(d, out, o.v, who))
ReferentialClosurePreserved(d, out) ==
  (Closed(d.left) /\ Closed(d.right)) =>
    \A fk \in Idx(out.fams) :
      LET of == out.fams[fk] IN
      /\ \A s \in of.src : \A r \in RefsOfInputFamily(Side(d, s[1]).fams[s[2]]) : RefOK(d, out, of, s, r)
      /\ \A o \in OutRefs(of) : OutRefMeaningful(d, out, of, o)
\* the links from individuals to families: every family an input individual belongs to (as a spouse: FAMS, as a
\* child: FAMC) is named by the output individual under a pointer that resolves to a record stemming from that family
FamilyLinksPreserved(d, out) ==
  \A k \in Idx(out.people) : \A s \in out.people[k].src :
    LET doc == Side(d, s[1])  me == doc.people[s[2]].p IN
    \A fi \in Idx(doc.fams) :
      LET f == doc.fams[fi] IN
      /\ (me \in {f.husb, f.wife} => \E v \in SeqToSet(out.people[k].fams) : \E q \in Idx(out.fams) : out.fams[q].p = v /\ <<s[1], fi>> \in out.fams[q].src)
      /\ (me \in SeqToSet(f.chil) => \E v \in SeqToSet(out.people[k].famc) : \E q \in Idx(out.fams) : out.fams[q].p = v /\ <<s[1], fi>> \in out.fams[q].src)
EveryFamilyAccounted(d, out) ==
  \A s \in {<<"L", i>> : i \in Idx(d.left.fams)} \cup {<<"R", i>> : i \in Idx(d.right.fams)} :
     \E fk \in Idx(out.fams) : s \in out.fams[fk].src

---------------------------------------------------------------------------
(* The merge itself, as a function of the inputs: people with the same who   *)
(* are the same person (the matching is C11's subject).                      *)
MatchOf(d, j) == LET S == {i \in Idx(d.left.people) : d.left.people[i].who = d.right.people[j].who} IN
                 IF S = {} THEN 0 ELSE CHOOSE i \in S : TRUE
\* the pointer under which right individual j lives on in the output
RMap(d, NoRewrite, ptr) ==
  LET S == {j \in Idx(d.right.people) : d.right.people[j].p = ptr} IN
  IF NoRewrite \/ ptr = "" \/ S = {} THEN ptr
  ELSE LET j == CHOOSE j \in S : TRUE  i == MatchOf(d, j) IN
       IF i # 0 THEN d.left.people[i].p
       ELSE IF \E q \in Idx(d.left.people) : d.left.people[q].p = ptr THEN "R:" \o ptr    \* clashing pointer: renamed
       ELSE ptr
MergePeople(d, NoRewrite) ==
  [i \in Idx(d.left.people) |->
     [p |-> d.left.people[i].p,
      src |-> {<<"L", i>>} \cup {<<"R", j>> : j \in {j \in Idx(d.right.people) : MatchOf(d, j) = i}}]]
  \o LET U == SelectSeq([j \in Idx(d.right.people) |-> j], LAMBDA j : MatchOf(d, j) = 0) IN
     [k \in Idx(U) |-> [p |-> RMap(d, NoRewrite, d.right.people[U[k]].p), src |-> {<<"R", U[k]>>}]]
\* families: the left ones as they are, the right ones with their references mapped; a right family whose
\* pointer is taken by a left family is merged into it by the code (same tag and pointer) - the ideal merge
\* gives it a pointer of its own
MergeFams(d, NoRewrite) ==
  LET LF == [i \in Idx(d.left.fams) |->
               LET f == d.left.fams[i]
                   same == IF NoRewrite THEN {j \in Idx(d.right.fams) : d.right.fams[j].p = f.p} ELSE {} IN
               [p |-> f.p, src |-> {<<"L", i>>} \cup {<<"R", j>> : j \in same},
                husb |-> (IF f.husb = "" THEN <<>> ELSE <<f.husb>>),
                wife |-> (IF f.wife = "" THEN <<>> ELSE <<f.wife>>),
                chil |-> f.chil,
                extra |-> same]]
      \* as-is: the lines of the right family with the same pointer are merged in (equal lines once)
      LF2 == [i \in Idx(LF) |->
                LET g == LF[i]
                    RECURSIVE Add(_, _) Add(acc, js) ==
                      IF js = {} THEN acc ELSE
                      LET j == CHOOSE j \in js : TRUE  rf == d.right.fams[j]
                          h == IF rf.husb = "" \/ rf.husb \in SeqToSet(acc.husb) THEN acc.husb ELSE Append(acc.husb, rf.husb)
                          w == IF rf.wife = "" \/ rf.wife \in SeqToSet(acc.wife) THEN acc.wife ELSE Append(acc.wife, rf.wife)
                          c == acc.chil \o SelectSeq(rf.chil, LAMBDA x : x \notin SeqToSet(acc.chil))
                      IN Add([acc EXCEPT !.husb = h, !.wife = w, !.chil = c], js \ {j})
                IN [p |-> g.p, src |-> g.src, husb |-> Add(g, g.extra).husb, wife |-> Add(g, g.extra).wife, chil |-> Add(g, g.extra).chil]]
      RU == SelectSeq([j \in Idx(d.right.fams) |-> j],
                      LAMBDA j : ~NoRewrite \/ ~\E i \in Idx(d.left.fams) : d.left.fams[i].p = d.right.fams[j].p)
  IN LF2 \o [k \in Idx(RU) |->
       LET f == d.right.fams[RU[k]]
           clash == \E i \in Idx(d.left.fams) : d.left.fams[i].p = f.p IN
       [p |-> IF clash THEN "R:" \o f.p ELSE f.p, src |-> {<<"R", RU[k]>>},
        husb |-> (IF f.husb = "" THEN <<>> ELSE <<RMap(d, NoRewrite, f.husb)>>),
        wife |-> (IF f.wife = "" THEN <<>> ELSE <<RMap(d, NoRewrite, f.wife)>>),
        chil |-> [q \in Idx(f.chil) |-> RMap(d, NoRewrite, f.chil[q])]]]
Merge(d, NoRewrite) == [people |-> MergePeople(d, NoRewrite), fams |-> MergeFams(d, NoRewrite)]
=============================================================================
