SPECIFICATION DSpec
CONSTANTS
  Cases = {"lower", "upper", "title"}
  KwSet = {0,1,2,3,4,5,6,7,8,9,10,11,12,13,14,15}
  Days = {1, 9, 28, 29, 30, 31}
  LeadZero = {FALSE, TRUE}
  MonthSet = {1,2,3,4,5,6,7,8,9,10,11,12,13,14,15,16,17,18,19,20,21,22,23}
  JunkMonthSet = {}
  Years = {1, 89, 999, 1900, 2000, 2023, 9999}
  RangeSet = {FALSE}
  BetSet = {1,2,3,4}
  AndSet = {1,2,3}
  Extra = {0}
  AllowMissingYear = FALSE
  AllowDayWithoutMonth = FALSE
  TrailSet = {0}
INVARIANTS ParserAgreesWithGrammar PrintParse CanonIsCanonical NearMissIsInvalid Emit
