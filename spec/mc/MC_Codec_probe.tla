---- MODULE MC_Codec_probe ----
EXTENDS Codec, Json
cChunks == { <<48, 32, 65, 10>>, <<49, 32, 66, 32, 120, 32, 10>>, <<50, 32, 72, 85, 83, 66, 10>>, <<48, 32, 70, 65, 77, 13>>, <<10>>, <<120, 10>>, <<51,32,65,10>> }
cOptionSets == [multi : BOOLEAN, lenient : BOOLEAN]
Emit == phase = "done" => PrintT(<<"CASE", ToJson([inp |-> inp, opts |-> opts, exp |-> Result(st, HasBOM(inp))])>>)
====
