SPECIFICATION Spec
CONSTANTS
  AsIsSingleDigit = FALSE
  AsIsRolePanics = FALSE
  AsIsClampEmptyPanics = FALSE
  Chunks <- cChunks
  MaxChunks = 4
  OptionSets <- cOptionSets
INVARIANTS ForestShape OpenIsSpine DepthIsLevel ValuesTrimmed RecordLinesCarryNoValue NormalForm MachineIsDecode OutcomeClass PanicOnlyWhenStrict ErrorNamesLine NoCrash Emit
PROPERTIES PrefixStable
