SPECIFICATION BSpec
CONSTANTS
  FirstYear = 1
  LastYear = 9999
INVARIANTS StartLeEnd TrueLength YearsStrictlyIncreasing YearsInsidePeriod OrderAgrees FractionsProper Emit
