---- MODULE MC_DateCompare ----
EXTENDS DateCompare, Json
\* anchors chosen so that month, year, leap-day and century boundaries fall inside the window
Anchors == {<<1999, 12, 27>>, <<1900, 2, 24>>, <<2000, 2, 24>>, <<1943, 9, 26>>, <<9998, 12, 25>>, <<1, 1, 1>>, <<1677, 9, 17>>, <<2262, 4, 7>>}
Emit == rel2 # "none" =>
  \A an \in Anchors :
    PrintT(<<"CASE", ToJson([A |-> AddDays(an, a), B |-> AddDays(an, b), C |-> AddDays(an, c), D |-> AddDays(an, d),
                             pairs |-> PairRecs(a, b, c, d)])>>)
====
