---- MODULE MC_DateGranularity ----
(* every pairing of day / month / year granularity in a three-year span     *)
EXTENDS DateCompareOps, Json
CONSTANTS YearsSpan, DaysOfMonth
VARIABLES X, Y
Dates == {<<y, 0, 0>> : y \in YearsSpan} \cup {<<y, m, 0>> : y \in YearsSpan, m \in 1..12}
         \cup {<<y, m, dd>> \in YearsSpan \X (1..12) \X DaysOfMonth : dd <= DaysInMonth(y, m)}
         \cup {<<y, m, DaysInMonth(y, m)>> : y \in YearsSpan, m \in 1..12}
GInit == X \in Dates /\ Y \in Dates
GNext == UNCHANGED <<X, Y>>
GSpec == GInit /\ [][GNext]_<<X, Y>>
GTotal == AllowedPairs(FirstDayOf(X), LastDayOf(X), FirstDayOf(Y), LastDayOf(Y)) # {}
GEmit == PrintT(<<"CASE", ToJson([A |-> X, B |-> X, C |-> Y, D |-> Y,
                 pairs |-> PairRecs(FirstDayOf(X), LastDayOf(X), FirstDayOf(Y), LastDayOf(Y))])>>)
====
