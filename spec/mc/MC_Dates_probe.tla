---- MODULE MC_Dates_probe ----
EXTENDS Dates, Json
Emit == stage = "done" => PrintT(<<"CASE", ToJson([text |-> text, exp |-> Meaning, canon |-> IF Meaning.valid THEN Canon(Meaning) ELSE <<>>])>>)
====
