SPECIFICATION GSpec
CONSTANTS
  YearsSpan = {1999, 2000, 2001}
  DaysOfMonth = {1, 15}
INVARIANTS GTotal GEmit
