---- MODULE MC_DateBounds ----
EXTENDS DateBounds, Json
Emit == m = 0 \/ PrintT(<<"CASE", ToJson([y |-> y, m |-> m, dim |-> Dim, first |-> First, diy |-> Diy, doy1 |-> Doy1])>>)
====
