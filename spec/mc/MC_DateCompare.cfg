SPECIFICATION CSpec
CONSTANT Window = 12
INVARIANTS Total SelfEqual ConverseHolds ConversePossible AmbiguousOnlyIfDegenerate ExactlyOneVerdict PickAllowed Emit
