----------------------------- MODULE CodecBuild -----------------------------
(***************************************************************************)
(* C01.  Every document that can be built through the public API from      *)
(* GEDCOM-legal parts survives Encode ; Decode.  The machine grows a forest *)
(* node by node (one action per constructor path); every reachable state   *)
(* is a document, so RoundTrip is an ordinary invariant.                   *)
(***************************************************************************)
EXTENDS CodecOps

CONSTANTS Tags, Vals, Ptrs,     \* legal alphabet (byte sequences)
          MaxNodes, MaxDepth,
          ChainOnly             \* TRUE: each node descends (depth 0,1,2,...: the digit boundaries 9 -> 10)

VARIABLES f, bom
bvars == <<f, bom>>

IsPtrValue(v) == Len(v) >= 3 /\ v[1] = AT /\ v[Len(v)] = AT

\* What the public constructors can yield (see harness/codec BuildReal):
\*  - INDI / FAM records come from AddIndividual / AddFamily: root level, no value
\*  - HUSB / WIFE / CHIL come from the family setters: value "@ptr@", no pointer of their own,
\*    and only once a family exists
\*  - everything else from NewNode(tag, value, pointer)
Legal(l, t, v, p) ==
  /\ (f = <<>> => l = 0) /\ (f # <<>> => l <= f[Len(f)].lvl + 1) /\ l <= MaxDepth
  /\ (ChainOnly => l = Len(f))
  /\ (t \in RecordTags => v = <<>> /\ l = 0)
  /\ (t \in RoleTags => IsPtrValue(v) /\ p = <<>> /\ l > 0 /\ \E j \in 1..Len(f) : f[j].tag = T_FAM)

BInit == f = <<>> /\ bom \in BOOLEAN

AddRecord ==       \* doc.AddIndividual / doc.AddFamily
  /\ Len(f) < MaxNodes
  /\ \E t \in Tags \cap RecordTags, p \in Ptrs :
       Legal(0, t, <<>>, p) /\ f' = Append(f, [lvl |-> 0, ptr |-> p, tag |-> t, val |-> <<>>])
  /\ UNCHANGED bom

AddRole ==         \* fam.SetHusbandPointer / SetWifePointer / AddChild, then placed
  /\ Len(f) < MaxNodes
  /\ \E l \in 0..MaxDepth, t \in Tags \cap RoleTags, v \in Vals :
       Legal(l, t, v, <<>>) /\ f' = Append(f, [lvl |-> l, ptr |-> <<>>, tag |-> t, val |-> v])
  /\ UNCHANGED bom

AddPlain ==        \* NewNode + AddNode
  /\ Len(f) < MaxNodes
  /\ \E l \in 0..MaxDepth, t \in Tags \ (RecordTags \cup RoleTags), v \in Vals, p \in Ptrs :
       Legal(l, t, v, p) /\ f' = Append(f, [lvl |-> l, ptr |-> p, tag |-> t, val |-> v])
  /\ UNCHANGED bom

BNext == AddRecord \/ AddRole \/ AddPlain
BSpec == BInit /\ [][BNext]_bvars

BuiltIsForest == IsForest(f)
RoundTrip == RoundTripOf(bom, f)
\* the encoder's output is accepted under every option combination and gives the same tree
AcceptedUnderAllOptions ==
  \A o \in [multi : BOOLEAN, lenient : BOOLEAN] :
    LET d == Decode(Encode(bom, f), o) IN d.out = "doc" /\ d.forest = f
=============================================================================
