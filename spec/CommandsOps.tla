----------------------------- MODULE CommandsOps -----------------------------
(* Command-line operations on files the decoder accepts (C14).  A file is a base family graph plus a set of      *)
(* structural faults; an execution of a command is classified by what the process did.                          *)
EXTENDS Sequences, Integers, FiniteSets, TLC

\* every fault keeps the file decodable (the decoder checks line syntax and nesting, not references)
FaultKinds == {"husb-missing", "wife-missing", "chil-missing",           \* reference to a record that does not exist
               "husb-wrong-kind", "chil-wrong-kind", "wife-is-source",    \* reference to a record of the wrong kind
               "husb-empty", "wife-empty", "chil-empty",                  \* HUSB / WIFE / CHIL without a value
               "no-name", "name-without-surname", "name-empty",
               "own-parent", "own-spouse", "own-grandparent",             \* cyclic family links
               "duplicate-individual", "duplicate-family", "individual-and-family-share-pointer",
               "family-without-members", "source-without-title", "famc-missing", "fams-missing",
               "date-garbage", "date-empty", "date-partial", "date-reversed-range", "date-far-future",
               "surname-digit", "surname-symbol", "surname-multibyte", "surname-only-punctuation", "only-faulty-people",
               "undated-people",
               "lower-case-tags",                                         \* typed tags written in lower / mixed case
               "person-named-like-place"}                                          \* no event with a date at all (with the cyclic links: nothing to estimate from)

\* the commands, as the harness names them
Commands == {"warnings", "publish-show", "publish-hide", "publish-placeholder", "publish-show-jobs4"}
            \cup {"publish-" \o g : g \in {"no-individuals", "no-places", "no-families", "no-surnames", "no-sources", "no-statistics", "only-individuals"}}
            \cup {"diff-" \o s \o "-" \o o : s \in {"all", "subset", "only-matches"}, o \in {"written-name", "highest-similarity"}}
            \cup {"diff-base-all-written-name", "diff-jobs4"}
            \cup {"query-" \o ToString(k) : k \in 1..12}

\* what the property allows a command to do: end, with output or an error message, never in a panic / fatal error
Acceptable(r) == /\ ~r.hung
                 /\ ~r.panic /\ ~r.fatal
                 /\ (r.exit = 0 \/ r.errlen > 0)
=============================================================================
