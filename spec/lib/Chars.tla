------------------------------- MODULE Chars -------------------------------
(* Text as sequences of bytes (0..255).  TLC cannot look inside TLA+ strings, *)
(* so every text the specification must look INTO travels as Seq(0..255).     *)
EXTENDS Integers, Sequences

HT == 9
LF == 10
CR == 13
SP == 32
AT == 64
US == 95

IsDigit(c) == c >= 48 /\ c <= 57
IsUpper(c) == c >= 65 /\ c <= 90
IsLower(c) == c >= 97 /\ c <= 122
IsAlpha(c) == IsUpper(c) \/ IsLower(c)
\* \w of Go's regexp (ASCII only)
IsWord(c)  == IsDigit(c) \/ IsAlpha(c) \/ c = US
IsAsciiSpace(c) == c \in {9, 10, 11, 12, 13, 32}

LowerByte(c) == IF IsUpper(c) THEN c + 32 ELSE c
UpperByte(c) == IF IsLower(c) THEN c - 32 ELSE c
Lower(s) == [i \in 1..Len(s) |-> LowerByte(s[i])]
Upper(s) == [i \in 1..Len(s) |-> UpperByte(s[i])]

\* three-byte UTF-8 encodings of the Unicode White_Space characters
\* U+1680, U+2000..U+200A, U+2028, U+2029, U+202F, U+205F, U+3000
IsSpace3(a, b, c) ==
  \/ (a = 225 /\ b = 154 /\ c = 128)
  \/ (a = 226 /\ b = 128 /\ ((c >= 128 /\ c <= 138) \/ c \in {168, 169, 175}))
  \/ (a = 226 /\ b = 129 /\ c = 159)
  \/ (a = 227 /\ b = 128 /\ c = 128)

\* length in bytes of the white-space rune starting at s[i]; 0 = none.
\* (U+0085 = C2 85, U+00A0 = C2 A0.)  Invalid UTF-8 is never white space.
SpaceAt(s, i) ==
  LET n == Len(s) IN
  IF i > n THEN 0
  ELSE IF IsAsciiSpace(s[i]) THEN 1
  ELSE IF s[i] = 194 /\ i + 1 <= n /\ s[i + 1] \in {133, 160} THEN 2
  ELSE IF i + 2 <= n /\ IsSpace3(s[i], s[i + 1], s[i + 2]) THEN 3
  ELSE 0

\* length of the white-space rune ending at s[j] and starting at or after lo
SpaceEndingAt(s, j, lo) ==
  IF j < lo THEN 0
  ELSE IF IsAsciiSpace(s[j]) THEN 1
  ELSE IF j - 1 >= lo /\ s[j - 1] = 194 /\ s[j] \in {133, 160} THEN 2
  ELSE IF j - 2 >= lo /\ IsSpace3(s[j - 2], s[j - 1], s[j]) THEN 3
  ELSE 0

RECURSIVE SkipLeftSpace(_, _), SkipRightSpace(_, _, _)
SkipLeftSpace(s, i) ==
  LET k == SpaceAt(s, i) IN IF k = 0 THEN i ELSE SkipLeftSpace(s, i + k)
SkipRightSpace(s, j, lo) ==
  LET k == SpaceEndingAt(s, j, lo) IN IF k = 0 THEN j ELSE SkipRightSpace(s, j - k, lo)

\* strings.TrimSpace over bytes
TrimSpace(s) ==
  LET i == SkipLeftSpace(s, 1)
      j == SkipRightSpace(s, Len(s), i)
  IN IF i > j THEN <<>> ELSE SubSeq(s, i, j)

RECURSIVE SkipSp(_, _), SkipWord(_, _), SkipDigits(_, _), FindFrom(_, _, _)
SkipSp(s, i)     == IF i <= Len(s) /\ s[i] = SP THEN SkipSp(s, i + 1) ELSE i
SkipWord(s, i)   == IF i <= Len(s) /\ IsWord(s[i]) THEN SkipWord(s, i + 1) ELSE i
SkipDigits(s, i) == IF i <= Len(s) /\ IsDigit(s[i]) THEN SkipDigits(s, i + 1) ELSE i
\* first index >= i holding byte c; 0 = none
FindFrom(s, i, c) == IF i > Len(s) THEN 0 ELSE IF s[i] = c THEN i ELSE FindFrom(s, i + 1, c)

\* decimal value of the digit run s[i..j] (capped so it fits TLC's 32-bit ints)
Huge == 1000000000
RECURSIVE DecValue(_, _, _, _)
DecValue(s, i, j, acc) ==
  IF i > j THEN acc
  ELSE IF acc >= 100000000 THEN Huge
  ELSE DecValue(s, i + 1, j, acc * 10 + (s[i] - 48))

\* decimal printing of a natural number
RECURSIVE DecDigits(_)
DecDigits(n) == IF n < 10 THEN <<48 + n>> ELSE Append(DecDigits(n \div 10), 48 + (n % 10))

Sub(s, i, j) == IF i > j THEN <<>> ELSE SubSeq(s, i, j)

RECURSIVE Flatten(_)
Flatten(ss) == IF ss = <<>> THEN <<>> ELSE Head(ss) \o Flatten(Tail(ss))
=============================================================================
