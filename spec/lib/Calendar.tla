------------------------------ MODULE Calendar ------------------------------
(* The proleptic Gregorian calendar (the calendar Go's time package uses).   *)
EXTENDS Integers

IsLeap(y) == (y % 4 = 0 /\ y % 100 # 0) \/ y % 400 = 0
DaysInYear(y) == IF IsLeap(y) THEN 366 ELSE 365
DaysInMonth(y, m) ==
  IF m \in {1, 3, 5, 7, 8, 10, 12} THEN 31
  ELSE IF m \in {4, 6, 9, 11} THEN 30
  ELSE IF IsLeap(y) THEN 29 ELSE 28

\* days from 1 Jan 0001 to 1 Jan y
DaysBeforeYear(y) == 365 * (y - 1) + ((y - 1) \div 4) - ((y - 1) \div 100) + ((y - 1) \div 400)

RECURSIVE DaysBeforeMonth(_, _)
DaysBeforeMonth(y, m) == IF m <= 1 THEN 0 ELSE DaysBeforeMonth(y, m - 1) + DaysInMonth(y, m - 1)

\* 0 = 1 Jan 0001
DayNumber(y, m, d) == DaysBeforeYear(y) + DaysBeforeMonth(y, m) + (d - 1)
\* 1 = 1 Jan
DayOfYear(y, m, d) == DaysBeforeMonth(y, m) + d

ValidDay(y, m, d) == y >= 1 /\ m \in 1..12 /\ d >= 1 /\ d <= DaysInMonth(y, m)
=============================================================================
