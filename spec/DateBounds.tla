----------------------------- MODULE DateBounds -----------------------------
(***************************************************************************)
(* C05.  Bounds of every valid date and the fractional-year scale, over    *)
(* the explicit Gregorian calendar of lib/Calendar.tla.  The machine is a  *)
(* set of behaviours, one per year, each stepping through its 12 months;    *)
(* each invariant quantifies over the days of the current month.           *)
(* An instant is <<day number, 0>> (00:00:00.000000000) or <<day number, 1>> *)
(* (23:59:59.999999999): nanoseconds themselves are never represented.     *)
(***************************************************************************)
EXTENDS Calendar, TLC

CONSTANTS FirstYear, LastYear
VARIABLES y, m
bvars == <<y, m>>

\* Wide, not deep (TLC explores a 120,000-step chain very slowly): m = 0 marks a
\* "century" node that fans out into its years; each year steps through its 12 months.
BInit == m = 0 /\ y \in {c \in FirstYear..LastYear : (c - FirstYear) % 100 = 0}
PickYear == /\ m = 0 /\ m' = 1
            /\ y' \in y..(IF y + 99 > LastYear THEN LastYear ELSE y + 99)
NextMonth == m \in 1..11 /\ m' = m + 1 /\ y' = y
BSpec == BInit /\ [][PickYear \/ NextMonth]_bvars

Dim   == DaysInMonth(y, m)
First == DayNumber(y, m, 1)
Diy   == DaysInYear(y)
Doy1  == DayOfYear(y, m, 1)

\* bounds (first = day number of the 1st of the month, ystart = day number of 1 Jan)
DayStart(first, d) == <<first + d - 1, 0>>
DayEnd(first, d)   == <<first + d - 1, 1>>
MonthStart(first)  == <<first, 0>>
MonthEnd(first, dim) == <<first + dim - 1, 1>>
YearStart(ystart)  == <<ystart, 0>>
YearEnd(ystart, diy) == <<ystart + diy - 1, 1>>
Le(a, b) == a[1] < b[1] \/ (a[1] = b[1] /\ a[2] <= b[2])
\* length of [a, b] in whole days (b is a last-nanosecond instant, a a first one)
LengthDays(a, b) == b[1] - a[1] + 1

\* The Years scale:  year + n/d  with 0 <= n/d < 1  (kept apart so that the
\* cross-multiplications stay far below TLC's 32-bit integers)
\*   a day:            year + dayOfYear / (daysInYear + 1)
\*   a month-year:     the documented midpoint of its first and last day
\*   a year:           year + 1/2
YearsOfDay(yy, doy, diy) == [y |-> yy, n |-> doy, d |-> diy + 1]
YearsOfMonth(yy, doy1, dim, diy) == [y |-> yy, n |-> doy1 + (doy1 + dim - 1), d |-> 2 * (diy + 1)]
YearsOfYear(yy) == [y |-> yy, n |-> 1, d |-> 2]
Lt(a, b)  == a.y < b.y \/ (a.y = b.y /\ a.n * b.d < b.n * a.d)
Leq(a, b) == a.y < b.y \/ (a.y = b.y /\ a.n * b.d <= b.n * a.d)
IsFraction(a) == a.n >= 0 /\ a.n < a.d

StartLeEndP(dim, first, diy) ==
  /\ \A d \in 1..dim : Le(DayStart(first, d), DayEnd(first, d))
  /\ Le(MonthStart(first), MonthEnd(first, dim))
  /\ (m = 1 => Le(YearStart(first), YearEnd(first, diy)))

\* the calendar's true length (ties the month table to the closed-form day number)
TrueLengthP(dim, first, diy) ==
  /\ \A d \in 1..dim : LengthDays(DayStart(first, d), DayEnd(first, d)) = 1
  /\ LengthDays(MonthStart(first), MonthEnd(first, dim)) = dim
  /\ (IF m = 12 THEN DayNumber(y + 1, 1, 1) ELSE DayNumber(y, m + 1, 1)) = first + dim
  /\ (m = 1 => LengthDays(YearStart(first), YearEnd(first, diy)) = diy /\ DayNumber(y + 1, 1, 1) = first + diy)

YearsStrictlyIncreasingP(dim, diy, doy1) ==
  /\ \A d \in 1..(dim - 1) : Lt(YearsOfDay(y, doy1 + d - 1, diy), YearsOfDay(y, doy1 + d, diy))
  /\ (IF m = 12 THEN Lt(YearsOfDay(y, diy, diy), YearsOfDay(y + 1, 1, DaysInYear(y + 1)))
      ELSE Lt(YearsOfDay(y, doy1 + dim - 1, diy), YearsOfDay(y, doy1 + dim, diy)))

YearsInsidePeriodP(dim, diy, doy1) ==
  /\ Leq(YearsOfDay(y, doy1, diy), YearsOfMonth(y, doy1, dim, diy))
  /\ Leq(YearsOfMonth(y, doy1, dim, diy), YearsOfDay(y, doy1 + dim - 1, diy))
  /\ (m = 1 => Leq(YearsOfDay(y, 1, diy), YearsOfYear(y)) /\ Leq(YearsOfYear(y), YearsOfDay(y, diy, diy)))

\* calendar order = order of day numbers = order on the Years scale
OrderAgreesP(dim, diy, doy1) ==
  \A d1, d2 \in 1..dim : (d1 < d2) <=> Lt(YearsOfDay(y, doy1 + d1 - 1, diy), YearsOfDay(y, doy1 + d2 - 1, diy))

FractionsProperP(dim, diy, doy1) ==
  /\ \A d \in 1..dim : IsFraction(YearsOfDay(y, doy1 + d - 1, diy))
  /\ IsFraction(YearsOfMonth(y, doy1, dim, diy)) /\ IsFraction(YearsOfYear(y))

\* the invariants proper: the four numbers of the month are computed once per state
StartLeEnd == m = 0 \/ LET dim == Dim first == First diy == Diy IN StartLeEndP(dim, first, diy)
TrueLength == m = 0 \/ LET dim == Dim first == First diy == Diy IN TrueLengthP(dim, first, diy)
YearsStrictlyIncreasing == m = 0 \/ LET dim == Dim diy == Diy doy1 == Doy1 IN YearsStrictlyIncreasingP(dim, diy, doy1)
YearsInsidePeriod == m = 0 \/ LET dim == Dim diy == Diy doy1 == Doy1 IN YearsInsidePeriodP(dim, diy, doy1)
OrderAgrees == m = 0 \/ LET dim == Dim diy == Diy doy1 == Doy1 IN OrderAgreesP(dim, diy, doy1)
FractionsProper == m = 0 \/ LET dim == Dim diy == Diy doy1 == Doy1 IN FractionsProperP(dim, diy, doy1)
=============================================================================
