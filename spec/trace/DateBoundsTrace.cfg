SPECIFICATION TSpec
INVARIANT Ok
