----------------------------- MODULE MatchingTrace -----------------------------
(* C11: results of real IndividualNodes.Compare runs (every degree of         *)
(* parallelism, perturbed schedules) judged by MatchingOps.tla with the       *)
(* inputs and the measured similarities of that very run.                     *)
EXTENDS MatchingOps, MatchingLogOps, Json

Trace == ndJsonDeserialize("matching_obs.ndjson")
VARIABLES i, res
tvars == <<i, res>>

Clauses(e) ==
  <<  <<"compare-returns", ~e.timeout>>,
      <<"no-panic", e.panic = "">>,
      <<"every-left-individual-in-exactly-one-result", EveryLeftOnceP(e.I, e.final)>>,
      <<"every-right-individual-in-exactly-one-result", EveryRightOnceP(e.I, e.final)>>,
      <<"no-result-empty-on-both-sides", NoEmptyResultP(e.final)>>,
      <<"pairs-reach-threshold-or-share-id-or-trusted-pointer", PairsJustifiedP(e.I, e.final)>>,
      <<"same-as-sequential-result-when-nothing-ties", NoTiesI(e.I) => PairsOf(e.final) = PairsOf(e.seq)>>  >>
Failed(e) == SelectSeq(Clauses(e), LAMBDA c : ~c[2])
\* the sequential run refines the sequential semantics of the specification
Model(e) == NoTiesI(e.I) => PairsOf(e.seq) = SeqPairsI(e.I)

\* the recorded per-goroutine logs are walks of the processes of Matching.tla (only for runs that returned)
LogDrift(e) == IF e.timeout \/ e.panic # "" \/ ~e.haslogs THEN <<>> ELSE LogFailed(e)

TInit == i \in 1..Len(Trace) /\ res = "pending"
TNext == /\ res = "pending"
         /\ LET e == Trace[i]  f == Failed(e) IN
            /\ res' = IF f # <<>> THEN "no" ELSE IF ~Model(e) \/ LogDrift(e) # <<>> THEN "drift" ELSE "yes"
            /\ (res' = "no" => \A q \in 1..Len(f) : PrintT(<<"BAD", i, "prop", f[q][1]>>))
            /\ ((res' = "drift" /\ ~Model(e)) => PrintT(<<"BAD", i, "model", "sequential-semantics">>))
            /\ (res' = "drift" => \A q \in 1..Len(LogDrift(e)) : PrintT(<<"BAD", i, "model", LogDrift(e)[q][1]>>))
         /\ UNCHANGED i
TSpec == TInit /\ [][TNext]_tvars
Ok == res \notin {"no", "drift"}
=============================================================================
