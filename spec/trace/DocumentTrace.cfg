SPECIFICATION TSpec
INVARIANT Ok
