----------------------------- MODULE NodeHeapTrace -----------------------------
(***************************************************************************)
(* Judges observations recorded from DeepEqual / DeepCopy / CompareNodes / *)
(* MergeNodes / MergeNodeSlices (harness/nodeheap) with NodeHeapOps.tla.   *)
(* Two verdicts per observation:                                           *)
(*   prop  - a clause of C07 / C08 / C09 fails on what the code did        *)
(*   model - the code's result differs from the transcribed algorithm      *)
(*           (diagnostic "drift": not a property violation by itself)      *)
(* For a prop failure the spec also names the as-is deviation that         *)
(* explains it, if one does (the basis of the known-finding signatures).   *)
(***************************************************************************)
EXTENDS NodeHeapOps, Json

Trace == ndJsonDeserialize("nodeheap_obs.ndjson")
VARIABLES i, res
tvars == <<i, res>>

AsIs == [dateFuzzy |-> TRUE, uidBadNeverEq |-> FALSE, kidsInEquals |-> TRUE]
\* the code's rules, except that RESI / EVEN equality does not look at children
ShallowKinds == [AsIs EXCEPT !.kidsInEquals = FALSE]     \* what the code does today

\* strip identity labels from projected result nodes
RECURSIVE Plain(_)
Plain(n) == [t |-> n.t, v |-> n.v, p |-> n.p, x |-> n.x, kids |-> [k \in 1..Len(n.kids) |-> Plain(n.kids[k])]]
PlainSeq(s) == [k \in 1..Len(s) |-> Plain(s[k])]

\* ---------------------------------------------------------------- C07
C07Clauses(e) ==
  LET dm == C07Demand(e.A, e.op) IN
  <<  <<"no-panic", e.panic = "">>,
      <<"copy-or-reordering-is-deep-equal", dm = "equal" => e.deq12 /\ e.deq21 /\ e.deq12f /\ e.deq21f>>,
      <<"plain-edit-is-not-deep-equal", dm = "different" => ~e.deq12 /\ ~e.deq21 /\ ~e.deq12f /\ ~e.deq21f>>,
      <<"symmetric", e.deq12 = e.deq21 /\ e.deq12f = e.deq21f>>,
      <<"self-equal", e.selfeq>>,
      <<"copy-deep-equal", e.copy.deq12 /\ e.copy.deq21>>,
      <<"copy-identical-gedcom", e.copy.strsame>>,
      <<"copy-shares-no-node", e.copy.shared = 0>>,
      <<"copy-leaves-source-untouched", e.copy.srcsame>>,
      <<"copy-independent", e.copy.indep1 /\ e.copy.indep2>>  >>
\* Filter with the stock functions follows NodeHeapOps!FilterM: the result, that it is made of fresh nodes, that the input is untouched
FiltersOK(e) == \A k \in 1..Len(e.filters) :
  LET o == e.filters[k] IN o.panic = "" /\ PlainSeq(o.res) = FilterM(o.f, e.A) /\ o.shared = 0 /\ o.pure
C07Model(e) ==
  LET t2 == ApplyOp(e.A, e.op) IN
  e.panic = "" => /\ e.deq12 = DeepEq(AsIs, e.A, t2) /\ e.deq21 = DeepEq(AsIs, t2, e.A)
                  /\ e.deq12f = e.deq12 /\ e.deq21f = e.deq21
\* would every clause hold if DATE equality were an equivalence (and does the as-is model explain what was seen)
C07Mechanism(e) ==
  LET t2 == ApplyOp(e.A, e.op)  dm == C07Demand(e.A, e.op)
      i12 == DeepEq(Ideal, e.A, t2)  i21 == DeepEq(Ideal, t2, e.A) IN
  IF C07Model(e) /\ e.panic = "" /\ (dm = "equal" => i12 /\ i21) /\ (dm = "different" => ~i12 /\ ~i21) /\ i12 = i21
       /\ e.copy.shared = 0 /\ e.copy.strsame /\ e.copy.srcsame /\ e.copy.indep1 /\ e.copy.indep2 /\ e.selfeq
  THEN "asis:dateFuzzy" ELSE "unexplained"

\* ---------------------------------------------------------------- C08
AllTrue(f) == \A k \in DOMAIN f : f[k]
C08Clauses(e) ==
  <<  <<"no-panic", e.panic = "">>,
      <<"provenance", Provenance(e.A, e.B, e.diff)>>,
      <<"coverage", Coverage(AsIs, e.A, e.B, e.diff)>>,
      <<"one-sided-if-unique", OneSidedIfUnique(AsIs, e.A, e.B, e.diff)>>,
      <<"deep-equal-inputs-all-two-sided", e.deq => (DiffAllTwoSided(e.diff) /\ e.isdeq)>>,
      <<"isdeepequal-means-all-two-sided", e.isdeq = DiffAllTwoSided(e.diff)>>,
      <<"compare-leaves-inputs-alone", e.pure.compare>>,
      <<"string-leaves-inputs-alone", e.pure.string>>,
      <<"isdeepequal-leaves-inputs-alone", e.pure.isdeepequal>>,
      <<"sort-leaves-inputs-alone", e.pure.sort>>,
      <<"tag-leaves-inputs-alone", e.pure.tag>>,
      <<"provenance-after-operations", Provenance(e.A, e.B, e.diff2)>>,
      <<"coverage-after-operations", Coverage(AsIs, e.A, e.B, e.diff2)>>  >>
C08Model(e) == e.panic = "" => /\ DiffShape(e.diff) = CompareNodes(AsIs, e.A, e.B)
                               /\ e.deq = DeepEq(AsIs, e.A, e.B)
\* explained by the fuzzy date rule when the code follows the transcription and the ideal rule gives a conforming diff
C08Mechanism(e) ==
  IF C08Model(e) /\ e.panic = "" /\ AllTrue(e.pure)
     /\ LET D == CompareNodes(Ideal, e.A, e.B) IN
        DeepEq(Ideal, e.A, e.B) => (LET RECURSIVE T2(_) T2(x) == x.l.has /\ x.r.has /\ \A k \in 1..Len(x.kids) : T2(x.kids[k]) IN T2(D))
  THEN "asis:dateFuzzy" ELSE "unexplained"

\* ---------------------------------------------------------------- C09
IsNodes(e) == e.mode = "c09n"
C09ClausesF(G, e) ==
  LET out == PlainSeq(e.res) IN
  <<  <<"no-panic", e.panic = "">>,
      <<"no-error-for-same-root-tag", IsNodes(e) => ~e.err>>,
      <<"nothing-lost", IF IsNodes(e) THEN (e.err \/ NothingLostNodes(G, e.A[1], e.B[1], out[1]))
                        ELSE (e.fn = "always" \/ NothingLostSlices(G, e.A, e.B, out))>>,
      <<"nothing-invented", IF IsNodes(e) THEN (e.err \/ NothingInventedNodes(G, e.A[1], e.B[1], out[1]))
                            ELSE (e.fn = "always" \/ NothingInventedSlices(G, e.A, e.B, out))>>,
      <<"list-length-bounds", IsNodes(e) \/ SliceBounds(e.A, e.B, out)>>,
      <<"self-merge-adds-nothing", (IsNodes(e) /\ ~e.err /\ e.A = e.B) => SelfMergeAddsNothing(G, e.A[1], out[1])>>,
      <<"result-is-fresh", e.shared = 0>>,
      <<"inputs-untouched", e.pure>>,
      <<"result-independent-of-inputs", e.indep>>  >>
C09Clauses(e) == C09ClausesF(AsIs, e)
C09Model(e) ==
  e.panic = "" =>
    IF IsNodes(e) THEN (e.err \/ PlainSeq(e.res) = <<MergeNodesM(AsIs, e.A[1], e.B[1])>>)
    ELSE PlainSeq(e.res) = MergeSlices(AsIs, e.A, e.B, e.fn)

\* ----------------------------------------------------------------
Clauses(e) == CASE e.mode = "c07" -> C07Clauses(e) [] e.mode = "c08" -> C08Clauses(e) [] OTHER -> C09Clauses(e)
ModelOK(e) == CASE e.mode = "c07" -> (C07Model(e) /\ FiltersOK(e)) [] e.mode = "c08" -> C08Model(e) [] OTHER -> C09Model(e)
\* a lost node is explained by the child-dependent equality of RESI / EVEN when the code follows the
\* transcription and every clause holds once that equality is shallow
C09Mechanism(e) ==
  IF C09Model(e) /\ \A k \in 1..Len(C09ClausesF(ShallowKinds, e)) : C09ClausesF(ShallowKinds, e)[k][2]
  THEN "asis:kidsInEquals" ELSE "unexplained"
Mechanism(e) == CASE e.mode = "c07" -> C07Mechanism(e) [] e.mode = "c08" -> C08Mechanism(e) [] OTHER -> C09Mechanism(e)
Failed(e) == LET cs == Clauses(e) IN SelectSeq(cs, LAMBDA c : ~c[2])
\* a named deviation explains only the clauses it can be about
DeviationClauses == {"copy-or-reordering-is-deep-equal", "symmetric", "deep-equal-inputs-all-two-sided", "nothing-lost", "nothing-invented"}
MechanismFor(e, clause) == IF clause \in DeviationClauses THEN Mechanism(e) ELSE "unexplained"
FirstFailed(e) == LET f == Failed(e) IN IF f = <<>> THEN "" ELSE f[1][1]

TInit == i \in 1..Len(Trace) /\ res = "pending"
TNext == /\ res = "pending"
         /\ LET e == Trace[i]  fs == Failed(e) IN
            /\ res' = IF fs # <<>> THEN "no" ELSE IF ~ModelOK(e) THEN "drift" ELSE "yes"
            /\ (res' = "no" => \A q \in 1..Len(fs) : PrintT(<<"BAD", i, "prop", fs[q][1], MechanismFor(e, fs[q][1])>>))
            /\ (res' = "drift" => PrintT(<<"BAD", i, "model", "", "">>))
         /\ UNCHANGED i
TSpec == TInit /\ [][TNext]_tvars
Ok == res \notin {"no", "drift"}
=============================================================================
