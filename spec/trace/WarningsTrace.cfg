SPECIFICATION TSpec
INVARIANT Ok
