------------------------------ MODULE NamesTrace ------------------------------
(* Recorded NameNode observations (seeded values with Unicode white space,     *)
(* several slashes, several and repeated sub-tags, custom formats) judged by   *)
(* NamesOps.tla.  All clauses are conformance clauses (no listed property is   *)
(* about name parsing itself; C12 and C17 rely on these pieces).               *)
EXTENDS NamesOps, TLC, Json

Trace == ndJsonDeserialize("names_obs.ndjson")
VARIABLES i, res
tvars == <<i, res>>

NameOf(e) == [value |-> e.value, has |-> e.has, sub |-> e.sub]
\* strings.ToUpper is Unicode-aware, NamesOps!Upper is ASCII only: an upper-casing directive applied to a name that
\* holds bytes outside ASCII is left unconstrained
AllAscii(e) == /\ \A k \in 1..Len(e.value) : e.value[k] < 128
               /\ \A p \in 1..6 : \A k \in 1..Len(e.sub[p]) : e.sub[p][k] < 128
UsesUpper(f) == \E k \in 1..(Len(f) - 1) : f[k] = PCT /\ f[k + 1] \in {70, 76, 77, 80, 83, 84}
Determinate(e, f) == AllAscii(e) \/ ~UsesUpper(f)
Expected(e) == LET n == NameOf(e) IN
  <<Given(n), Surname(n), Prefix(n), Suffix(n), SurnamePrefix(n), Title(n), Written(n), GedcomName(n), IndexName(n)>>
    \o [k \in 1..Len(e.formats) |-> IF Determinate(e, e.formats[k]) THEN Format(n, e.formats[k]) ELSE e.out[9 + k]]
Labels == <<"given-name", "surname", "prefix", "suffix", "surname-prefix", "title", "written-name", "gedcom-name", "index-name">>
Label(k) == IF k <= 9 THEN Labels[k] ELSE "custom-format"
Drift(e) == LET x == Expected(e) IN
  IF Len(x) # Len(e.out) THEN <<"number-of-outputs">>
  ELSE [k \in 1..Cardinality({j \in 1..Len(x) : x[j] # e.out[j]}) |->
          Label((CHOOSE f \in [1..Cardinality({j \in 1..Len(x) : x[j] # e.out[j]}) -> {j \in 1..Len(x) : x[j] # e.out[j]}] :
                   \A a, b \in DOMAIN f : a < b => f[a] < f[b])[k])]

TInit == i \in 1..Len(Trace) /\ res = "pending"
TNext == /\ res = "pending"
         /\ LET e == Trace[i]  d == Drift(e) IN
            /\ res' = IF d # <<>> THEN "drift" ELSE "yes"
            /\ (res' = "drift" => \A q \in 1..Len(d) : PrintT(<<"BAD", i, "model", d[q]>>))
         /\ UNCHANGED i
TSpec == TInit /\ [][TNext]_tvars
Ok == res \notin {"no", "drift"}
=============================================================================
