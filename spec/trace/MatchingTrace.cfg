SPECIFICATION TSpec
INVARIANT Ok
