SPECIFICATION TSpec
INVARIANT Ok
