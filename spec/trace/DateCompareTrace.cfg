SPECIFICATION TSpec
INVARIANT Ok
