----------------------------- MODULE DatesTrace -----------------------------
(* Direction B for C04: recorded parses/prints of the real code are judged   *)
(* by the reference parser ParseValue and the canonical printer Canon.       *)
EXTENDS DatesOps, Json

Trace == ndJsonDeserialize("dates_obs.ndjson")
VARIABLES i, res
tvars == <<i, res>>

Same(o, p) == o.valid = p.valid /\ (p.valid => o.s = p.s /\ o.e = p.e)

Check(e) ==
  LET p == ParseValue(e.text) IN
  /\ e.panic = ""
  /\ Same(e.parsed, p)                       \* the written day, month, year and constraint, or invalid
  /\ Same(e.node, p)
  /\ (p.valid => /\ e.str = Canon(p)         \* canonical spelling
                 /\ e.nstr = Canon(p)
                 /\ Same(e.re, p)            \* and parsing it gives back the same dates
                 /\ Same(e.nre, p))

TInit == i \in 1..Len(Trace) /\ res = "pending"
TNext == /\ res = "pending"
         /\ res' = IF Check(Trace[i]) THEN "yes" ELSE "no"
         /\ (res' = "no" => PrintT(<<"BAD", i, IF ParseValue(Trace[i].text).valid THEN "valid" ELSE "invalid">>))
         /\ UNCHANGED i
TSpec == TInit /\ [][TNext]_tvars
Ok == res # "no"
=============================================================================
