--------------------------- MODULE DateCompareTrace ---------------------------
(* Direction B for C06: recorded verdicts of DateRange.Compare (both operand  *)
(* orders) for random ranges of any granularity over years 1..9999.           *)
EXTENDS DateCompareOps, Json

Trace == ndJsonDeserialize("datecompare_obs.ndjson")
VARIABLES i, res
tvars == <<i, res>>

Check(e) ==
  LET x == FirstDayOf(e.A)  y == LastDayOf(e.B)  u == FirstDayOf(e.C)  v == LastDayOf(e.D) IN
  \* the property speaks about ranges that run forwards
  (x <= y /\ u <= v) =>
    /\ <<e.r1, e.r2>> \in AllowedPairs(x, y, u, v)          \* drawn relation, both ways, converse
    /\ e.s1 = Simplified(e.r1) /\ e.s2 = Simplified(e.r2)   \* exactly one simplified verdict, the documented one
    /\ ((x = u /\ y = v) => e.r1 = "Equal")

TInit == i \in 1..Len(Trace) /\ res = "pending"
TNext == /\ res = "pending"
         /\ res' = IF Check(Trace[i]) THEN "yes" ELSE "no"
         /\ (res' = "no" => PrintT(<<"BAD", i>>))
         /\ UNCHANGED i
TSpec == TInit /\ [][TNext]_tvars
Ok == res # "no"
=============================================================================
