------------------------------- MODULE QueryTrace -------------------------------
(* C16: results of the real query engine against the structural semantics of    *)
(* QueryOps.tla (facts by direct reflection), the laws of the comparison        *)
(* operators, algebraic equivalences and determinism.                           *)
EXTENDS QueryOps, Json

Trace == ndJsonDeserialize("query_obs.ndjson")
VARIABLES i, res
tvars == <<i, res>>

IsList(x) == x.t = "list"
RECURSIVE Partitions(_, _, _)
\* c is an order-preserving interleaving of a and b
Partitions(c, a, b) ==
  IF c = <<>> THEN a = <<>> /\ b = <<>>
  ELSE \/ (a # <<>> /\ Head(a) = Head(c) /\ Partitions(Tail(c), Tail(a), b))
       \/ (b # <<>> /\ Head(b) = Head(c) /\ Partitions(Tail(c), a, Tail(b)))
Min2(x, y) == IF x < y THEN x ELSE y

QueryClauses(e) ==
  LET spec == Engine(e.stmts, e.facts, e.doc) IN
  <<  <<"engine-does-not-panic", e.res.t # "panic">>,
      <<"well-formed-query-parses", e.res.t # "parse-error">>,
      <<"same-query-same-result", e.again>>,
      <<"result-is-what-the-go-api-gives", (~e.big /\ e.res.t \notin {"panic", "parse-error"} /\ Decided(spec)) => e.res = spec>>  >>
OpsClauses(e) ==
  LET c3 == Compare3(e.l, e.r)
      Ops == {"=", "!=", "<", ">", "<=", ">="} IN
  <<  <<"operators-return-booleans", ~e.opserr>>,
      <<"not-equal-is-negation-of-equal", e.ops["!="] = ~e.ops["="]>>,
      <<"exactly-one-of-less-equal-greater", Cardinality({o \in {"<", "=", ">"} : e.ops[o]}) = 1>>,
      <<"less-or-equal-greater-or-equal", (e.ops["<="] = (e.ops["<"] \/ e.ops["="])) /\ (e.ops[">="] = (e.ops[">"] \/ e.ops["="]))>>,
      <<"numeric-when-both-numeric-else-text", c3 # "free" => \A o \in Ops : e.ops[o] = OpHolds(o, c3)>>  >>
EquivClauses(e) ==
  <<  <<"variable-interchangeable-with-definition", e.law = "inline" => e.a = e.b>>,
      <<"same-query-same-result-when-the-compiled-query-is-used-again", e.law = "engine-reuse" => e.a = e.b>>,
      <<"combine-doubles-length", e.law = "combine-length" => ((e.a.t = "int" /\ e.b.t = "int" /\ e.a.n = 2 * e.b.n) \/ (e.a.t = "err" /\ e.b.t = "err"))>>,
      <<"only-and-its-negation-partition", e.law = "only-partition" =>
            (IF IsList(e.a) /\ IsList(e.b) /\ IsList(e.c) THEN Partitions(e.c.v, e.a.v, e.b.v)
             ELSE (e.a.t = e.b.t /\ e.a.t \in {"err", "nil"}))>>,
      <<"first-and-last-are-prefix-and-suffix", e.law = "first-last" =>
            (IF IsList(e.c) THEN
               LET n == Len(e.c.v)  k == Min2(e.l[1], Len(e.c.v)) IN
               /\ IsList(e.a) /\ e.a.v = SubSeq(e.c.v, 1, k)
               /\ IsList(e.b) /\ e.b.v = SubSeq(e.c.v, n - k + 1, n)
             ELSE TRUE)>>  >>
Clauses(e) == CASE e.kind = "query" -> QueryClauses(e) [] e.kind = "ops" -> OpsClauses(e) [] OTHER -> EquivClauses(e)
Failed(e) == SelectSeq(Clauses(e), LAMBDA c : ~c[2])

TInit == i \in 1..Len(Trace) /\ res = "pending"
TNext == /\ res = "pending"
         /\ LET e == Trace[i]  f == Failed(e) IN
            /\ res' = IF f # <<>> THEN "no" ELSE "yes"
            /\ (res' = "no" => \A q \in 1..Len(f) : PrintT(<<"BAD", i, "prop", f[q][1], e.kind>>))
         /\ UNCHANGED i
TSpec == TInit /\ [][TNext]_tvars
Ok == res # "no"
=============================================================================
