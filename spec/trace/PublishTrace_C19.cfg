SPECIFICATION TSpec
CONSTANT Prop = "C19"
INVARIANT Ok
