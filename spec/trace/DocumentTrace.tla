----------------------------- MODULE DocumentTrace -----------------------------
(***************************************************************************)
(* C13: every STEP of every executed history is one observation            *)
(*   [pre, op, post, live views, views of a fresh decode, read-only op]    *)
(* judged independently (the pre-state is the logged post-state of the     *)
(* previous step).  prop: a clause of C13 fails; model: the code's edit or  *)
(* the decode-based views differ from DocumentOps (diagnostic drift).      *)
(* Panics inside an edit or inside a read-only operation are the subject of *)
(* C14 / C15; here such a step is still judged on everything it did.       *)
(***************************************************************************)
EXTENDS DocumentOps, Json

Trace == ndJsonDeserialize("document_obs.ndjson")
VARIABLES i, res
tvars == <<i, res>>

\* which view differs between the live document and the fresh decode
IndiDiff(a, b) ==
  IF Len(a) # Len(b) THEN "individuals" ELSE
  LET D == {k \in 1..Len(a) : a[k] # b[k]} IN
  IF D = {} THEN "" ELSE
  LET k == CHOOSE k \in D : TRUE IN
  IF a[k].names # b[k].names \/ a[k].fams # b[k].fams \/ a[k].famc # b[k].famc THEN "children-by-tag"
  ELSE IF a[k].families # b[k].families THEN "individual.Families"
  ELSE IF a[k].spouses # b[k].spouses THEN "individual.Spouses"
  ELSE IF a[k].parents # b[k].parents THEN "individual.Parents"
  ELSE "individual.Children"
FamDiff(a, b) ==
  IF Len(a) # Len(b) THEN "families" ELSE
  LET D == {k \in 1..Len(a) : a[k] # b[k]} IN
  IF D = {} THEN "" ELSE
  LET k == CHOOSE k \in D : TRUE IN
  IF a[k].husb # b[k].husb THEN "family.Husband" ELSE IF a[k].wife # b[k].wife THEN "family.Wife" ELSE "family.Children"
WhichView(e) ==
  IF e.live.individuals # e.fresh.individuals THEN "Individuals"
  ELSE IF e.live.families # e.fresh.families THEN "Families"
  ELSE IF FamDiff(e.live.fam, e.fresh.fam) # "" THEN FamDiff(e.live.fam, e.fresh.fam)
  ELSE IF IndiDiff(e.live.indi, e.fresh.indi) # "" THEN IndiDiff(e.live.indi, e.fresh.indi)
  ELSE IF e.livef.byptr # e.freshf.byptr THEN "NodeByPointer"
  ELSE IF e.livef.ghosts # 0 THEN "returns-removed-node"
  ELSE ""

Clauses(e) ==
  <<  <<"reading-views-does-not-panic", e.livef.panic = "" \/ e.freshf.panic # "">>,     \* live fails where the fresh decode works
      <<"text-decodes-to-same-document", e.textok>>,
      <<"views-equal-fresh-decode", e.live = e.fresh /\ e.livef.byptr = e.freshf.byptr /\ e.livef.ghosts = 0>>,
      <<"read-leaves-text-unchanged", e.readok.text /\ e.readok.forest>>,
      <<"read-leaves-views-unchanged", e.readok.views>>  >>
Failed(e) == SelectSeq(Clauses(e), LAMBDA c : ~c[2])
Detail(e, clause) ==
  IF clause = "views-equal-fresh-decode" THEN WhichView(e)
  ELSE IF clause \in {"read-leaves-text-unchanged", "read-leaves-views-unchanged", "read-does-not-panic"} THEN e.read
  ELSE ""

ModelOK(e) ==
  /\ Enabled(e.pre, e.op)
  /\ e.post = Apply(e.pre, e.op)
  /\ (UniquePointers(e.post) /\ e.freshf.panic = "" => e.fresh = Views(e.post))

TInit == i \in 1..Len(Trace) /\ res = "pending"
TNext == /\ res = "pending"
         /\ LET e == Trace[i] IN
            IF e.driver # "" THEN res' = "skip"
            ELSE LET f == Failed(e) IN
              /\ res' = IF f # <<>> THEN "no" ELSE IF ~ModelOK(e) THEN "drift" ELSE "yes"
              /\ (res' = "no" => \A q \in 1..Len(f) : PrintT(<<"BAD", i, "prop", f[q][1], Detail(e, f[q][1]), e.op.k>>))
              /\ (res' = "drift" => PrintT(<<"BAD", i, "model", IF ~Enabled(e.pre, e.op) THEN "not-enabled"
                                             ELSE IF e.post # Apply(e.pre, e.op) THEN "edit-effect" ELSE "views", "", e.op.k>>))
         /\ UNCHANGED i
TSpec == TInit /\ [][TNext]_tvars
Ok == res \notin {"no", "drift"}
=============================================================================
