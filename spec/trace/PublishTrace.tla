----------------------------- MODULE PublishTrace -----------------------------
(* Judges observed publishing runs (harness/publish) against PublishOps: every observation is independent.      *)
(* Prop selects the clauses: "C17" (non-disclosure) or "C19" (file set, determinism, races, fail-stop).         *)
EXTENDS PublishOps, Json
CONSTANT Prop

Trace == ndJsonDeserialize("publish_obs.ndjson")
VARIABLES i, res
tvars == <<i, res>>

HasRun(e, v) == \E k \in 1..Len(e.runs) : e.runs[k].variant = v
Run(e, v) == e.runs[CHOOSE k \in 1..Len(e.runs) : e.runs[k].variant = v]
Ref(e) == e.runs[1]
Others(e, vs) == {k \in 2..Len(e.runs) : e.runs[k].variant \in vs}
JobVariants == {"jobs2", "jobs3", "jobs4", "jobs8", "jobs16"}
SameAsRef(e, k) == Completed(e.runs[k]) /\ e.runs[k].err = "" /\ FileMap(e.runs[k]) = FileMap(Ref(e))

\* races: a report is the list of repository functions on its two stacks
LazyFuncs == {"(*IndividualNode).validateCache", "(*IndividualNode).resetCache", "(*FamilyNode).validateCache", "(*FamilyNode).resetCache",
              "(*IndividualNode).Families", "(*IndividualNode).Spouses", "(*IndividualNode).UniqueIdentifiers", "(*FamilyNode).Husband",
              "(*FamilyNode).Wife", "(*Document).Families"}
RaceClass(r) == IF \E k \in 1..Len(r) : r[k] \in LazyFuncs THEN "lazy-cache" ELSE "other"

C17Clauses(e) ==
  LET c == e.case  r == Ref(e) IN
  <<  <<"publishing-completes", Completed(r) /\ r.err = "">>,
      <<"no-name-of-a-living-person-in-any-file", (Completed(r) /\ Hidden(c.opts)) => NoLivingName(c.doc, r)>>,
      <<"no-name-of-a-living-person-after-publishing-with-show",
          (Hidden(c.opts) /\ HasRun(e, "aftershow")) => (Completed(Run(e, "aftershow")) /\ NoLivingName(c.doc, Run(e, "aftershow")))>>,
      <<"no-name-of-a-living-person-when-a-complete-site-is-made-from-the-same-document",
          (Hidden(c.opts) /\ HasRun(e, "bothfirst")) => (Completed(Run(e, "bothfirst")) /\ NoLivingName(c.doc, Run(e, "bothfirst")))>>,
      <<"no-name-of-a-living-person-after-an-edit-made-them-living",
          (Hidden(c.opts) /\ HasRun(e, "afteredit")) => (Completed(Run(e, "afteredit")) /\ NoLivingName(c.doc, Run(e, "afteredit")))>>,
      <<"hide-site-does-not-depend-on-living-data",
          (Completed(r) /\ c.opts.living = "hide" /\ HasRun(e, "twin")) => (Completed(Run(e, "twin")) /\ FileMap(Run(e, "twin")) = FileMap(r))>>,
      <<"people-who-are-not-living-fully-published", Completed(r) => FullyPublished(c.doc, c.opts, r)>>  >>

C19Site(e) ==
  LET c == e.case  r == Ref(e) IN
  <<  <<"publishing-completes", \A k \in 1..Len(e.runs) : Completed(e.runs[k]) /\ e.runs[k].err = "">>,
      <<"file-names-are-plain", NamesPlain(r)>>,
      <<"no-two-pages-share-a-name", NoCollision(r)>>,
      <<"every-link-resolves", Completed(r) => LinksClosed(r)>>,
      <<"same-files-again", \A k \in Others(e, {"again"}) : Completed(r) => SameAsRef(e, k)>>,
      <<"same-files-for-every-number-of-jobs", \A k \in Others(e, JobVariants) : Completed(r) => SameAsRef(e, k)>>,
      <<"same-files-after-an-earlier-publish", \A k \in Others(e, {"prior", "aftershow", "afteredit", "bothfirst"}) : Completed(r) => SameAsRef(e, k)>>,
      <<"same-files-under-the-race-detector", \A k \in Others(e, {"race"}) : Completed(r) => SameAsRef(e, k)>>,
      <<"no-data-race", \A k \in Others(e, {"race"}) : e.runs[k].races = <<>>>>  >>

C19FailStop(e) ==
  LET c == e.case  ok == Run(e, "ok")  f == Run(e, "fail")  n == ok.writes  N == c.jobs[1] IN
  <<  <<"publishing-completes", Completed(ok) /\ f.died = "">>,
      <<"no-error-without-a-failure", Completed(ok) => ok.err = "">>,
      <<"publish-returns-when-the-writer-fails", ~f.hung>>,
      <<"a-failed-write-is-reported", (Completed(ok) /\ Completed(f)) => ((f.err # "") <=> ExpectedErr(n, c.failk))>>,
      <<"writer-calls-as-the-pipeline-model-says", (Completed(ok) /\ Completed(f)) => f.writes = ExpectedCalls(n, N, c.failk, c.failm)>>  >>

Clauses(e) == IF Prop = "C17" THEN C17Clauses(e) ELSE IF e.case.kind = "failstop" THEN C19FailStop(e) ELSE C19Site(e)
Failed(e) == SelectSeq(Clauses(e), LAMBDA c : ~c[2])
ModelOK(e) == e.case.kind = "site" /\ e.case.twin.people # <<>> => SamePublicPart(e.case.doc, e.case.twin)

\* ---- what went wrong, for the signature of a finding
Tick(b, s) == IF b THEN s ELSE ""
Groups(S) == Tick("fixed" \in S, "fixed ") \o Tick("index" \in S, "index ") \o Tick("page" \in S, "page ")
DiffGroups(e, v) == LET a == Ref(e)  b == Run(e, v) IN
  {a.files[k].group : k \in {x \in 1..Len(a.files) : <<a.files[x].name, a.files[x].sha>> \notin FileMap(b)}}
  \cup {b.files[k].group : k \in {x \in 1..Len(b.files) : <<b.files[x].name, b.files[x].sha>> \notin FileMap(a)}}
LeakKinds(e) == LET d == e.case.doc  r == Ref(e)  F == UNION {SeqSet(r.files[k].found) : k \in 1..Len(r.files)} \cap PrivateNames(d)
                    L == {p \in People(d) : Living(p)} IN
  Tick(\E p \in L : p.sur \in F, "surname ") \o Tick(\E p \in L : p.given \in F, "given ") \o Tick(\E p \in L : p.nick \in F, "nick ")
  \o Tick(\E p \in L : (SeqSet(p.altg) \cup SeqSet(p.alts)) \cap F # {}, "alternative ")
FirstBad(e) == LET S == {k \in 1..Len(e.runs) : ~Completed(e.runs[k]) \/ e.runs[k].err # ""} IN
  IF S = {} THEN "" ELSE LET k == CHOOSE x \in S : \A y \in S : x <= y IN IF e.runs[k].hung THEN "hung" ELSE IF e.runs[k].died # "" THEN e.runs[k].died ELSE e.runs[k].err
RaceClasses(e) == LET R == UNION {{RaceClass(e.runs[k].races[q]) : q \in 1..Len(e.runs[k].races)} : k \in 1..Len(e.runs)} IN
  Tick("lazy-cache" \in R, "lazy-cache ") \o Tick("other" \in R, "other ")
DeadGroups(e) == LET r == Ref(e) IN
  Tick(\E x \in DeadLinks(r) : x[1] = "fixed", "from-fixed ") \o Tick(\E x \in DeadLinks(r) : x[1] = "index", "from-index ")
  \o Tick(\E x \in DeadLinks(r) : x[1] = "page", "from-page ")
Detail(e, clause) ==
  CASE clause = "publishing-completes" -> FirstBad(e)
    [] clause = "no-name-of-a-living-person-in-any-file" -> LeakKinds(e) \o "in " \o Groups(LeakedIn(e.case.doc, Ref(e)))
    [] clause = "hide-site-does-not-depend-on-living-data" -> IF Completed(Run(e, "twin")) THEN Groups(DiffGroups(e, "twin")) ELSE "twin run failed"
    [] clause = "same-files-after-an-earlier-publish" ->
         IF HasRun(e, "prior") /\ ~SameAsRef(e, CHOOSE k \in Others(e, {"prior"}) : TRUE) THEN Groups(DiffGroups(e, "prior")) ELSE "aftershow " \o Groups(DiffGroups(e, "aftershow"))
    [] clause = "no-data-race" -> RaceClasses(e)
    [] clause = "same-files-under-the-race-detector" ->
         \* the run that differs reported races, all of them on the lazily filled caches of the shared document (known finding):
         \* what a worker read from a half-filled cache can end up on a page; a difference without such a report is not explained
         IF RaceClasses(e) = "lazy-cache " THEN "asis:LazyCacheRaces" ELSE RaceClasses(e)
    [] clause = "every-link-resolves" ->
         \* a link into a page group that was switched off: the target exists when every group is published
         \* (the groups the known finding is about: pages of individuals, their index pages, pages of sources; "linkgroups" is this
         \* very site with those two groups switched on as well - a link to a page of any other group is not explained)
         IF HasRun(e, "linkgroups") /\ \A x \in DeadLinks(Ref(e)) : x[2] \in Names(Run(e, "linkgroups"))
         THEN "asis:LinksIntoDisabledGroups"
         ELSE DeadGroups(e)
    [] OTHER -> ""

TInit == i \in 1..Len(Trace) /\ res = "pending"
TNext == /\ res = "pending"
         /\ LET e == Trace[i]  fs == Failed(e) IN
            /\ res' = IF fs # <<>> THEN "no" ELSE IF ~ModelOK(e) THEN "drift" ELSE "yes"
            /\ (res' = "no" => \A q \in 1..Len(fs) : PrintT(<<"BAD", i, "prop", fs[q][1], Detail(e, fs[q][1])>>))
            /\ (res' = "drift" => PrintT(<<"BAD", i, "model", "twin-is-a-twin", "">>))
         /\ UNCHANGED i
TSpec == TInit /\ [][TNext]_tvars
Ok == res \notin {"no", "drift"}
=============================================================================
