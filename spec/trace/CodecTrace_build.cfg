SPECIFICATION TSpec
CONSTANTS
  AsIsSingleDigit = FALSE
  AsIsRolePanics = FALSE
  AsIsClampEmptyPanics = FALSE
  Mode = "build"
INVARIANT Ok
