SPECIFICATION TSpec
INVARIANT Ok
