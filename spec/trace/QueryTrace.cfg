SPECIFICATION TSpec
INVARIANT Ok
