--------------------------- MODULE DateBoundsTrace ---------------------------
(* Direction B for C05: recorded bounds, Years values and order verdicts of   *)
(* the real code for random dates (through the parser) are judged by the      *)
(* calendar of lib/Calendar.tla.  Years travels as year + frac6 / 10^6.       *)
EXTENDS Calendar, Sequences, Json, TLC

Trace == ndJsonDeserialize("datebounds_obs.ndjson")
VARIABLES i, res
tvars == <<i, res>>

Abs(x) == IF x < 0 THEN -x ELSE x
\* frac6 / 10^6 = n / d  up to the rounding of the recording
FracIs(frac6, n, d) == Abs(frac6 * d - n * 1000000) <= d

Check(e) ==
  LET y == e.y  diy == DaysInYear(e.y) IN
  /\ e.yint = y
  /\ IF e.d # 0 THEN
       /\ ValidDay(y, e.m, e.d)
       /\ e.sday = DayNumber(y, e.m, e.d) /\ e.sns = 0
       /\ e.eday = DayNumber(y, e.m, e.d) /\ e.ens = 1
       /\ FracIs(e.frac6, DayOfYear(y, e.m, e.d), diy + 1)
     ELSE IF e.m # 0 THEN
       LET dim == DaysInMonth(y, e.m)  doy1 == DayOfYear(y, e.m, 1) IN
       /\ e.sday = DayNumber(y, e.m, 1) /\ e.sns = 0
       /\ e.eday = DayNumber(y, e.m, 1) + dim - 1 /\ e.ens = 1
       /\ FracIs(e.frac6, doy1 + (doy1 + dim - 1), 2 * (diy + 1))
     ELSE
       /\ e.sday = DayNumber(y, 1, 1) /\ e.sns = 0
       /\ e.eday = DayNumber(y, 1, 1) + diy - 1 /\ e.ens = 1
       /\ e.frac6 = 500000
  /\ (e.prev # <<>> =>
        LET p == DayNumber(e.prev[1], e.prev[2], e.prev[3])  c == DayNumber(y, e.m, e.d) IN
        /\ (e.prev[4] = 1) <=> (p < c)          \* IsBefore agrees with calendar order
        /\ (e.prev[5] = 1) <=> (p > c))         \* IsAfter agrees with calendar order

TInit == i \in 1..Len(Trace) /\ res = "pending"
TNext == /\ res = "pending"
         /\ res' = IF Check(Trace[i]) THEN "yes" ELSE "no"
         /\ (res' = "no" => PrintT(<<"BAD", i>>))
         /\ UNCHANGED i
TSpec == TInit /\ [][TNext]_tvars
Ok == res # "no"
=============================================================================
