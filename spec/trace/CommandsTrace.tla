----------------------------- MODULE CommandsTrace -----------------------------
(* Judges recorded executions of the gedcom binary (harness/commands): one observation per file.                *)
EXTENDS CommandsOps, Json

Trace == ndJsonDeserialize("commands_obs.ndjson")
VARIABLES i, res
tvars == <<i, res>>

BadRuns(e) == {k \in 1..Len(e.runs) : ~Acceptable(e.runs[k])}
Clauses(e) ==
  <<  <<"no-command-panics", e.decodable => \A k \in 1..Len(e.runs) : ~e.runs[k].panic /\ ~e.runs[k].fatal>>,
      <<"every-command-terminates", e.decodable => \A k \in 1..Len(e.runs) : ~e.runs[k].hung>>,
      <<"failure-comes-with-a-message", e.decodable => \A k \in 1..Len(e.runs) : (e.runs[k].exit # 0 /\ ~e.runs[k].panic /\ ~e.runs[k].fatal /\ ~e.runs[k].hung) => e.runs[k].errlen > 0>>  >>
Failed(e) == SelectSeq(Clauses(e), LAMBDA c : ~c[2])
\* the model says every fault keeps the file decodable, and the harness ran the commands the model lists
ModelOK(e) == e.decodable /\ \A k \in 1..Len(e.runs) : e.runs[k].cmd \in Commands /\ \A q \in 1..Len(e.faults) : e.faults[q] \in FaultKinds

First(e) == LET B == BadRuns(e) IN IF B = {} THEN <<"", "">> ELSE LET k == CHOOSE x \in B : \A y \in B : x <= y IN <<e.runs[k].cmd, e.runs[k].msg>>

TInit == i \in 1..Len(Trace) /\ res = "pending"
TNext == /\ res = "pending"
         /\ LET e == Trace[i]  fs == Failed(e) IN
            /\ res' = IF fs # <<>> THEN "no" ELSE IF ~ModelOK(e) THEN "drift" ELSE "yes"
            /\ (res' = "no" => \A q \in 1..Len(fs) : PrintT(<<"BAD", i, "prop", fs[q][1], First(e)[1], First(e)[2]>>))
            /\ (res' = "drift" => PrintT(<<"BAD", i, "model", "file-is-decodable-and-commands-known", "", "">>))
         /\ UNCHANGED i
TSpec == TInit /\ [][TNext]_tvars
Ok == res \notin {"no", "drift"}
=============================================================================
