----------------------------- MODULE WarningsTrace -----------------------------
(* C20: the warnings the real Document.Warnings() reported for a family graph  *)
(* (given order and two permutations of records and children) against the     *)
(* documented conditions of WarningsOps!Expected.                             *)
EXTENDS WarningsOps, Json

Trace == ndJsonDeserialize("warnings_obs.ndjson")
VARIABLES i, res
tvars == <<i, res>>

\* both sides as records [n, a, s]: a = ordered details, s = unordered pair (siblings)
NormE(w) == IF w.n = "SiblingsBornTooClose" THEN [n |-> w.n, a |-> <<>>, s |-> SeqToSet(w.a)] ELSE [n |-> w.n, a |-> w.a, s |-> {}]
NormO(w) == [n |-> w.n, a |-> w.a, s |-> SeqToSet(w.s)]
ExpSet(doc) == {NormE(w) : w \in Expected(doc)}
ObsSet(ws) == {NormO(ws[k]) : k \in 1..Len(ws)}
NoDup(ws) == \A a, b \in 1..Len(ws) : a # b => NormO(ws[a]) # NormO(ws[b])

\* the listed finding: the same (parent, child) in two families of that parent is reported once per family
DupOnlyChildInTwoFamilies(doc, ws) ==
  \A a, b \in 1..Len(ws) : (a # b /\ NormO(ws[a]) = NormO(ws[b])) =>
      /\ ws[a].n = "ChildBornBeforeParent"
      /\ Cardinality({f \in SeqToSet(doc.fams) : ws[a].a[1] \in {f.husb, f.wife} /\ ws[a].a[2] \in SeqToSet(f.chil)}) >= 2

Clauses(e) ==
  <<  <<"no-panic", e.panic = "">>,
      <<"no-unwarranted-warning", ObsSet(e.got) \subseteq ExpSet(e.doc)>>,
      <<"no-missing-warning", ExpSet(e.doc) \subseteq ObsSet(e.got)>>,
      <<"once-per-offending-pair", NoDup(e.got)>>,
      <<"order-of-records-and-children-irrelevant", ObsSet(e.gotp) = ObsSet(e.got) /\ ObsSet(e.gotp2) = ObsSet(e.got)
                                                    /\ Len(e.gotp) = Len(e.got) /\ Len(e.gotp2) = Len(e.got)>>,
      <<"repeatable", e.again>>  >>
Failed(e) == SelectSeq(Clauses(e), LAMBDA c : ~c[2])
Mechanism(e, clause) ==
  IF clause = "once-per-offending-pair" /\ DupOnlyChildInTwoFamilies(e.doc, e.got) THEN "child-in-two-families-of-same-parent"
  ELSE IF clause \in {"no-unwarranted-warning", "no-missing-warning"} THEN
    LET D == IF clause = "no-unwarranted-warning" THEN ObsSet(e.got) \ ExpSet(e.doc) ELSE ExpSet(e.doc) \ ObsSet(e.got) IN
    (CHOOSE w \in D : TRUE).n
  ELSE ""

TInit == i \in 1..Len(Trace) /\ res = "pending"
TNext == /\ res = "pending"
         /\ LET e == Trace[i]  f == Failed(e) IN
            /\ res' = IF f # <<>> THEN "no" ELSE "yes"
            /\ (res' = "no" => \A q \in 1..Len(f) : PrintT(<<"BAD", i, "prop", f[q][1], Mechanism(e, f[q][1])>>))
         /\ UNCHANGED i
TSpec == TInit /\ [][TNext]_tvars
Ok == res # "no"
=============================================================================
