SPECIFICATION TSpec
INVARIANT Ok
