SPECIFICATION TSpec
INVARIANT Ok
