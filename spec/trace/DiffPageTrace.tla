----------------------------- MODULE DiffPageTrace -----------------------------
(* C14 (library traversal behind `gedcom diff`) and conformance to DiffPage.tla: *)
(* every recorded run of html.DiffPage.WriteHTMLTo (-show x -sort x Jobs x       *)
(* GOMAXPROCS) is judged by the closed forms of DiffPageOps.tla on the           *)
(* comparisons, skip set and sort keys of that very run.                         *)
EXTENDS DiffPageOps, TLC, Json

Trace == ndJsonDeserialize("diffpage_obs.ndjson")
VARIABLES i, res
tvars == <<i, res>>

N(e) == Len(e.items)
SkipSet(e) == {k \in 1..N(e) : e.items[k].skip}
KeyFn(e) == [k \in 1..N(e) |-> e.items[k].key]

\* the property: the traversal terminates with a page or an error
Clauses(e) ==
  <<  <<"report-pipeline-terminates", ~e.timeout>>,
      <<"report-pipeline-does-not-panic", e.panic = "">>  >>
Failed(e) == SelectSeq(Clauses(e), LAMBDA c : ~c[2])

\* conformance to the pipeline model: what DiffPage.tla shows to hold on every schedule
ModelClauses(e) ==
  <<  <<"page-lists-exactly-the-comparisons-not-skipped-each-once", IsPermutationOfKept(e.rows, N(e), SkipSet(e))>>,
      <<"page-is-in-key-order", (\A a \in 1..Len(e.rows) : e.rows[a] \in 1..N(e)) => IsSorted(e.rows, KeyFn(e))>>,
      <<"one-worker-gives-the-stable-order", e.jobs = 1 => e.rows = Expected(N(e), SkipSet(e), KeyFn(e))>>,
      <<"no-ties-no-schedule-dependence", NoTies(N(e), SkipSet(e), KeyFn(e)) => e.rows = Expected(N(e), SkipSet(e), KeyFn(e))>>,
      <<"detail-cards-follow-the-index", e.details = e.rows>>  >>
Drift(e) == IF e.timeout \/ e.panic # "" \/ e.err # "" THEN <<>> ELSE SelectSeq(ModelClauses(e), LAMBDA c : ~c[2])

TInit == i \in 1..Len(Trace) /\ res = "pending"
TNext == /\ res = "pending"
         /\ LET e == Trace[i]  f == Failed(e)  d == Drift(e) IN
            /\ res' = IF f # <<>> THEN "no" ELSE IF d # <<>> THEN "drift" ELSE "yes"
            /\ (res' = "no" => \A q \in 1..Len(f) : PrintT(<<"BAD", i, "prop", f[q][1]>>))
            /\ (res' = "drift" => \A q \in 1..Len(d) : PrintT(<<"BAD", i, "model", d[q][1]>>))
         /\ UNCHANGED i
TSpec == TInit /\ [][TNext]_tvars
Ok == res \notin {"no", "drift"}
=============================================================================
