----------------------------- MODULE MergeDocsTrace -----------------------------
(* C10: outputs of MergeDocumentsAndIndividuals (library call and query        *)
(* function) projected onto [people, fams] with provenance marks, judged by    *)
(* MergeDocsOps.tla.                                                           *)
EXTENDS MergeDocsOps, Json

Trace == ndJsonDeserialize("mergedocs_obs.ndjson")
VARIABLES i, res
tvars == <<i, res>>

ToSet(s) == {s[k] : k \in 1..Len(s)}
Norm(o) == [people |-> [k \in Idx(o.people) |-> [p |-> o.people[k].p, src |-> ToSet(o.people[k].src), fams |-> o.people[k].fams, famc |-> o.people[k].famc]],
            fams |-> [k \in Idx(o.fams) |-> [p |-> o.fams[k].p, src |-> ToSet(o.fams[k].src), husb |-> o.fams[k].husb,
                                              wife |-> o.fams[k].wife, chil |-> o.fams[k].chil]]]
D(e) == [left |-> e.left, right |-> e.right]

ClausesOf(e, o, tag) ==
  <<  <<"merge-returns-a-document", o.ok>>,
      <<"output-decodes", o.ok => o.decodes>>,
      <<"everyone-accounted-exactly-once", o.decodes => EveryoneAccountedOnce(D(e), Norm(o))>>,
      <<"nobody-invented", o.decodes => \A k \in Idx(o.people) : o.people[k].src # <<>>>>,
      <<"merged-individual-holds-facts-of-both", o.decodes => \A k \in Idx(o.people) : o.people[k].facts>>,
      <<"every-family-carried-over", o.decodes => EveryFamilyAccounted(D(e), Norm(o))>>,
      <<"references-resolve-to-the-same-person", o.decodes => ReferentialClosurePreserved(D(e), Norm(o))>>,
      <<"family-links-of-individuals-resolve", (o.decodes /\ Closed(e.left) /\ Closed(e.right)) => FamilyLinksPreserved(D(e), Norm(o))>>  >>
Clauses(e) == ClausesOf(e, e.lib, "lib") \o ClausesOf(e, e.query, "query")
Failed(e) == SelectSeq(Clauses(e), LAMBDA c : ~c[2])

\* the code's result as sets (order of records and of children is free)
AsSets(m) == [people |-> {[p |-> x.p, src |-> x.src] : x \in ToSet(m.people)},
              fams |-> {[p |-> f.p, src |-> f.src, husb |-> ToSet(f.husb), wife |-> ToSet(f.wife), chil |-> ToSet(f.chil)] : f \in ToSet(m.fams)}]
\* with clear-cut similarities the code matches exactly the people with the same who: its output is the as-is merge
AsIsAgrees(e, o) == o.decodes /\ AsSets(Norm(o)) = AsSets(Merge(D(e), TRUE))
\* a broken reference is explained by the missing pointer rewriting when the code's output IS the as-is merge of the
\* specification and the ideal merge (with rewriting) satisfies the property on the same inputs
\* a reference that does not resolve to the same person is explained by the missing pointer rewriting when that
\* person IS in the output, only not under the pointer the (verbatim copied) reference names
FailingRefsExplained(d, out) ==
  \A fk \in Idx(out.fams) : \A s \in out.fams[fk].src : \A r \in RefsOfInputFamily(Side(d, s[1]).fams[s[2]]) :
     ~RefOK(d, out, out.fams[fk], s, r) =>
        LET who == WhoOf(Side(d, s[1]), r.v) IN
        /\ \E k \in Idx(out.people) : who \in WhosOf(d, out.people[k])
        /\ \E o \in OutRefs(out.fams[fk]) : o.role = r.role /\ o.v = r.v          \* the reference was copied as it was
Mechanism(e, clause) ==
  IF clause = "references-resolve-to-the-same-person"
     /\ (e.lib.decodes => FailingRefsExplained(D(e), Norm(e.lib))) /\ (e.query.decodes => FailingRefsExplained(D(e), Norm(e.query)))
     /\ ReferentialClosurePreserved(D(e), Merge(D(e), FALSE))
  THEN "asis:NoPointerRewrite" ELSE "unexplained"
Model(e) == (UniquePeople(e.left) /\ UniquePeople(e.right) /\ e.default) => (AsIsAgrees(e, e.lib) /\ AsIsAgrees(e, e.query))

TInit == i \in 1..Len(Trace) /\ res = "pending"
TNext == /\ res = "pending"
         /\ LET e == Trace[i]  f == Failed(e) IN
            /\ res' = IF f # <<>> THEN "no" ELSE IF ~Model(e) THEN "drift" ELSE "yes"
            /\ (res' = "no" => \A q \in 1..Len(f) : PrintT(<<"BAD", i, "prop", f[q][1], Mechanism(e, f[q][1])>>))
            /\ (res' = "drift" => PrintT(<<"BAD", i, "model", "", "">>))
         /\ UNCHANGED i
TSpec == TInit /\ [][TNext]_tvars
Ok == res \notin {"no", "drift"}
=============================================================================
