SPECIFICATION TSpec
INVARIANT Ok
