SPECIFICATION TSpec
CONSTANTS
  AsIsSingleDigit = FALSE
  AsIsRolePanics = FALSE
  AsIsClampEmptyPanics = FALSE
  Mode = "decode"
INVARIANT Ok
