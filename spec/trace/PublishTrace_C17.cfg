SPECIFICATION TSpec
CONSTANT Prop = "C17"
INVARIANT Ok
