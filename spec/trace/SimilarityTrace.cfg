SPECIFICATION TSpec
INVARIANT Ok
