----------------------------- MODULE SimilarityTrace -----------------------------
(* C12: recorded similarity scores of every layer.  The property clauses       *)
(* (bounds, operand order, identity, neutral 0.5) are judged on what the code   *)
(* returned; the refinement clauses compare it with SimilarityOps (drift).      *)
EXTENDS SimilarityOps, Chars, Json

Trace == ndJsonDeserialize("similarity_obs.ndjson")
VARIABLES i, res
tvars == <<i, res>>

\* StringSimilarity's cleaning over bytes: lower case, keep [a-z0-9 ], collapse and trim spaces
Keep(c) == IsLower(c) \/ IsDigit(c) \/ c = SP
RECURSIVE Collapse(_, _, _)
Collapse(s, k, acc) ==
  IF k > Len(s) THEN acc
  ELSE IF s[k] = SP /\ (acc = <<>> \/ acc[Len(acc)] = SP) THEN Collapse(s, k + 1, acc)
  ELSE Collapse(s, k + 1, Append(acc, s[k]))
CleanName(s) ==
  LET t == Collapse(SelectSeq(Lower(s), Keep), 1, <<>>) IN
  IF t # <<>> /\ t[Len(t)] = SP THEN SubSeq(t, 1, Len(t) - 1) ELSE t

Prop(e) ==
  <<  <<"in-unit-interval", e.unit>>,
      <<"independent-of-operand-order", e.sym>>,
      <<"identical-scores-one", e.ident>>,
      <<"missing-information-is-half", (e.kind \in {"date", "indiv"} /\ e.missing) => e.s = Half>>,
      <<"empty-lists", e.kind = "list" => ((e.parts[1] = 0 /\ e.parts[2] = 0 => e.s = Scale)
                                          /\ ((e.parts[1] = 0) # (e.parts[2] = 0) => e.s = Half))>>,
      \* depends only on the distance in years: the documented parabola 1 - (distance / maxYears)^2
      <<"date-similarity-is-a-function-of-the-distance", (e.kind = "date" /\ ~e.missing) =>
             Close(e.s, Max2(0, Scale - (e.dist3 * e.dist3) \div (e.max * e.max * 100)), 40)>>,
      <<"zero-beyond-maximum", (e.kind = "date" /\ ~e.missing /\ e.dist3 > e.max * 1000 + 1) => e.s = 0>>  >>
Failed(e) == SelectSeq(Prop(e), LAMBDA c : ~c[2])

Model(e) ==
  CASE e.kind = "name" ->
         LET a == CleanName(e.a)  b == CleanName(e.b) IN
         (Len(a) <= 12 /\ Len(b) <= 12) =>
           LET j == JW(a, b, e.prefix) IN Abs(e.s * j[2] - j[1] * Scale) <= j[2]
    [] e.kind = "date" -> e.missing \/ Close(e.s, Max2(0, Scale - (e.dist3 * e.dist3) \div (e.max * e.max * 100)), 40)
    [] e.kind = "indiv" -> e.missing \/ Close(e.s, IndividualSim({e.namesims[k] : k \in 1..Len(e.namesims)}, e.birth, e.death, e.ratio), 3)
    [] e.kind = "list" -> (e.parts[1] = 0 \/ e.parts[2] = 0) \/ Close(e.s, ListSim(e.m, e.parts[1], e.parts[2], e.minsim), 3)
    [] e.kind = "weighted" -> Close(e.s, Weighted(e.parts[1], e.parts[2], e.parts[3], e.parts[4], e.w), 3)

TInit == i \in 1..Len(Trace) /\ res = "pending"
TNext == /\ res = "pending"
         /\ LET e == Trace[i]  f == Failed(e) IN
            /\ res' = IF f # <<>> THEN "no" ELSE IF ~Model(e) THEN "drift" ELSE "yes"
            /\ (res' = "no" => \A q \in 1..Len(f) : PrintT(<<"BAD", i, "prop", f[q][1], e.kind>>))
            /\ (res' = "drift" => PrintT(<<"BAD", i, "model", "", e.kind>>))
         /\ UNCHANGED i
TSpec == TInit /\ [][TNext]_tvars
Ok == res \notin {"no", "drift"}
=============================================================================
