--------------------------- MODULE HtmlStructureTrace ---------------------------
(* C18: the pages published from a document whose every value carries a token with < > " ' & are compared with   *)
(* the pages of its benign twin, page by page (paired by the name without the token).                            *)
EXTENDS HtmlStructureOps, Json

Trace == ndJsonDeserialize("htmlstructure_obs.ndjson")
VARIABLES i, res
tvars == <<i, res>>

Run2(e, v) == e.runs[CHOOSE k \in 1..Len(e.runs) : e.runs[k].variant = v]
Files(r) == {r.files[k] : k \in 1..Len(r.files)}
Cids(r) == {r.files[k].cid : k \in 1..Len(r.files)}
Twin(r, f) == CHOOSE g \in Files(r) : g.cid = f.cid
Ok1(r) == r.died = "" /\ ~r.hung /\ r.err = ""
Pairs == <<<<"taint", "benign">>, <<"taint-extras", "benign-extras">>>>
AllTaint(e) == UNION {Files(Run2(e, Pairs[p][1])) : p \in 1..2}

Clauses(e) ==
  <<  <<"pages-are-produced", \A k \in 1..Len(e.runs) : Ok1(e.runs[k])>>,
      <<"same-pages-as-the-benign-twin", \A p \in 1..2 : Cids(Run2(e, Pairs[p][1])) = Cids(Run2(e, Pairs[p][2]))
                                                          /\ Len(Run2(e, Pairs[p][1]).files) = Len(Run2(e, Pairs[p][2]).files)>>,
      <<"every-page-is-well-nested", \A k \in 1..Len(e.runs) : \A f \in Files(e.runs[k]) : WellNested(f.ev)>>,
      <<"values-never-change-the-tag-structure",
          \A p \in 1..2 : \A f \in Files(Run2(e, Pairs[p][1])) : f.cid \in Cids(Run2(e, Pairs[p][2])) => f.ev = Twin(Run2(e, Pairs[p][2]), f).ev>>,
      <<"no-value-is-written-unescaped", \A f \in AllTaint(e) : ~f.raw>>  >>
Failed(e) == SelectSeq(Clauses(e), LAMBDA c : ~c[2])

\* where: the groups of the pages concerned
Tick(b, s) == IF b THEN s ELSE ""
Where(FS) == Tick(\E f \in FS : f.group = "fixed", "fixed ") \o Tick(\E f \in FS : f.group = "index", "index ") \o Tick(\E f \in FS : f.group = "page", "page ")
            \o Tick(\E f \in FS : f.group = "extra", "extra ")
Detail(e, clause) ==
  CASE clause = "every-page-is-well-nested" -> Where(UNION {{f \in Files(e.runs[k]) : ~WellNested(f.ev)} : k \in 1..Len(e.runs)})
    [] clause = "values-never-change-the-tag-structure" ->
         Where(UNION {{f \in Files(Run2(e, Pairs[p][1])) : f.cid \in Cids(Run2(e, Pairs[p][2])) /\ f.ev # Twin(Run2(e, Pairs[p][2]), f).ev} : p \in 1..2})
    [] clause = "no-value-is-written-unescaped" -> Where({f \in AllTaint(e) : f.raw})
    [] clause = "pages-are-produced" -> LET BS == {k \in 1..Len(e.runs) : ~Ok1(e.runs[k])} IN
         LET k == CHOOSE x \in BS : \A y \in BS : x <= y IN IF e.runs[k].hung THEN "hung" ELSE IF e.runs[k].died # "" THEN e.runs[k].died ELSE e.runs[k].err
    [] OTHER -> ""

TInit == i \in 1..Len(Trace) /\ res = "pending"
TNext == /\ res = "pending"
         /\ LET e == Trace[i]  fs == Failed(e) IN
            /\ res' = IF fs # <<>> THEN "no" ELSE "yes"
            /\ (res' = "no" => \A q \in 1..Len(fs) : PrintT(<<"BAD", i, "prop", fs[q][1], Detail(e, fs[q][1])>>))
         /\ UNCHANGED i
TSpec == TInit /\ [][TNext]_tvars
Ok == res # "no"
=============================================================================
