SPECIFICATION TSpec
INVARIANT Ok
