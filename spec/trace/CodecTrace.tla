----------------------------- MODULE CodecTrace -----------------------------
(***************************************************************************)
(* Direction B for C01/C02/C03: observations recorded from the real decoder *)
(* and encoder are judged by the operators of CodecOps.tla.  Each record is *)
(* an independent one-step behaviour (Init picks the index, Next evaluates  *)
(* the specification on it), so TLC checks all of them on all workers.      *)
(***************************************************************************)
EXTENDS CodecOps, Json

CONSTANT Mode          \* "decode" | "build"
Trace == ndJsonDeserialize("codec_obs.ndjson")

VARIABLES i, res
tvars == <<i, res>>

\* ---- decode observations: [inp, opts, obs, big, size, nf]
SameOutcome(o, d) ==
  /\ o.out = d.out
  /\ (d.out = "doc" => o.bom = d.bom /\ o.forest = d.forest)
  /\ (d.out \in {"error", "panic-indent"} => o.line = d.line \/ o.line = d.alt)

ClassOK(e) ==      \* C03 outcome class, for inputs too large to re-decode in TLC
  \/ e.obs.out \in {"doc", "error"}
  \/ (e.obs.out = "panic-indent" /\ ~e.opts.lenient)

CheckDecode(e) ==
  IF e.big THEN ClassOK(e)
  ELSE /\ SameOutcome(e.obs, Decode(e.inp, e.opts))
       /\ ClassOK(e)
       /\ (e.obs.out = "error" => e.obs.line >= 1)      \* the error names the offending line
       /\ e.nf = ""                                     \* normal form observed on the real code

\* ---- build observations: [big, same, bom, built, bytes, decoded, kindsok, encsame]
\* (big: documents too large to re-encode here - 300 kB values, 20,000 children, depth 1,200 -
\*  for which the recorded comparison built = decoded and the outcome are judged)
CheckBuild(e) ==
  IF e.big THEN e.decoded.out = "doc" /\ e.same /\ e.kindsok /\ e.encsame /\ e.again ELSE
  /\ IsForest(e.built)
  /\ e.bytes = Encode(e.bom, e.built)                  \* the documented line format
  /\ e.encsame
  /\ e.decoded.out = "doc"                             \* the decoder accepts the encoder's text
  /\ e.decoded.forest = e.built /\ e.decoded.bom = e.bom
  /\ e.kindsok
  /\ e.again                                           \* written again after BOM flag / SetSex changes: the document as it is now
  /\ SameOutcome(e.decoded, Decode(e.bytes, [multi |-> FALSE, lenient |-> FALSE]))

Check(e) == IF Mode = "decode" THEN CheckDecode(e) ELSE CheckBuild(e)

TInit == i \in 1..Len(Trace) /\ res = "pending"
TNext == /\ res = "pending"
         /\ res' = IF Check(Trace[i]) THEN "yes" ELSE "no"
         /\ (res' = "no" => PrintT(<<"BAD", i, IF Mode = "decode" /\ ~Trace[i].big
                                                THEN Decode(Trace[i].inp, Trace[i].opts).out ELSE "-">>))
         /\ UNCHANGED i
TSpec == TInit /\ [][TNext]_tvars
Ok == res # "no"
=============================================================================
