SPECIFICATION TSpec
INVARIANT Ok
