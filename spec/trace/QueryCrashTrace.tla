----------------------------- MODULE QueryCrashTrace -----------------------------
(* C15: outcome classes of parse / evaluate / format for every query string.     *)
EXTENDS Sequences, Integers, Json, TLC

Trace == ndJsonDeserialize("querycrash_obs.ndjson")
VARIABLES i, res
tvars == <<i, res>>

OkFormat(f) == \E n \in {"csv", "gedcom", "html", "json", "pretty-json"} : f = n \o ":ok" \/ f = n \o ":err"
Clauses(e) ==
  <<  <<"process-survives-the-query", e.died = "">>,
      <<"parse-returns-engine-or-error", e.died # "" \/ e.parse \in {"ok", "err", "skipped"}>>,   \* skipped: not run after 30 hangs
      <<"evaluate-returns-value-or-error", \A k \in 1..Len(e.evals) : e.evals[k] \in {"value", "err"}>>,
      <<"formatters-write-or-return-error", \A k \in 1..Len(e.formats) : OkFormat(e.formats[k])>>,
      <<"every-document-set-evaluated", (e.died = "" /\ e.parse = "ok") => Len(e.evals) = 4>>  >>
Failed(e) == SelectSeq(Clauses(e), LAMBDA c : ~c[2])
Site(e) == IF e.died # "" THEN e.died ELSE IF e.parse = "panic" THEN "parse"
           ELSE IF \E k \in 1..Len(e.evals) : e.evals[k] = "panic" THEN "evaluate" ELSE "format"

TInit == i \in 1..Len(Trace) /\ res = "pending"
TNext == /\ res = "pending"
         /\ LET e == Trace[i]  f == Failed(e) IN
            /\ res' = IF f # <<>> THEN "no" ELSE "yes"
            /\ (res' = "no" => \A q \in 1..Len(f) : PrintT(<<"BAD", i, "prop", f[q][1], Site(e)>>))
         /\ UNCHANGED i
TSpec == TInit /\ [][TNext]_tvars
Ok == res # "no"
=============================================================================
