SPECIFICATION TSpec
INVARIANT Ok
