--------------------------- MODULE HtmlStructureOps ---------------------------
(* A page as a sequence of tag events [k, n, a]: k = "s" start tag, "e" end tag, "v" self-closing tag, "t" text,  *)
(* "c" comment, "d" doctype; n = tag name; a = attribute names.  Nesting is decided by a pushdown machine.       *)
EXTENDS Sequences, Integers, FiniteSets, TLC

Void == {"area", "base", "br", "col", "embed", "hr", "img", "input", "link", "meta", "param", "source", "track", "wbr"}
Bad == <<"!">>

\* the pushdown machine, one event at a time: the stack of open elements, or Bad
Step(stack, e) ==
  IF stack = Bad THEN Bad
  ELSE CASE e.k = "s" /\ e.n \notin Void -> Append(stack, e.n)
         [] e.k = "e" /\ e.n \notin Void -> IF stack # <<>> /\ stack[Len(stack)] = e.n THEN SubSeq(stack, 1, Len(stack) - 1) ELSE Bad
         [] e.k = "e" /\ e.n \in Void -> Bad                \* a void element has no end tag
         [] OTHER -> stack
RECURSIVE Run(_, _, _)
Run(evs, k, stack) == IF k > Len(evs) THEN stack ELSE Run(evs, k + 1, Step(stack, evs[k]))
WellNested(evs) == Run(evs, 1, <<>>) = <<>>

\* an independent characterisation, by rewriting: drop everything that is not a start / end tag of a non-void element,
\* then delete adjacent <x></x> pairs until nothing changes; balanced iff nothing is left
Tags(evs) == SelectSeq(evs, LAMBDA e : e.k \in {"s", "e"} /\ ~(e.k = "s" /\ e.n \in Void))
RECURSIVE Reduce(_)
Reduce(ts) ==
  LET P == {k \in 1..(Len(ts) - 1) : ts[k].k = "s" /\ ts[k + 1].k = "e" /\ ts[k].n = ts[k + 1].n /\ ts[k].n \notin Void} IN
  IF P = {} THEN ts
  ELSE LET k == CHOOSE x \in P : \A y \in P : x <= y IN Reduce(SubSeq(ts, 1, k - 1) \o SubSeq(ts, k + 2, Len(ts)))
Balanced(evs) == Reduce(Tags(evs)) = <<>>

\* ---- rendering a value into a page: the sink either escapes it (one text event) or copies it (its markup becomes events)
\* a value is a sequence of pieces: "x" plain text, "<b>" / "</b>" markup, "\"" an attribute break
Piece == {"x", "<b>", "</b>", "<i>"}
Raw(v) == [k \in 1..Len(v) |-> CASE v[k] = "<b>" -> [k |-> "s", n |-> "b", a |-> <<>>]
                                [] v[k] = "</b>" -> [k |-> "e", n |-> "b", a |-> <<>>]
                                [] v[k] = "<i>" -> [k |-> "s", n |-> "i", a |-> <<>>]
                                [] OTHER -> [k |-> "t", n |-> "", a |-> <<>>]]
\* adjacent text events are one text event (what a tokenizer reports)
RECURSIVE Squash(_)
Squash(evs) == IF Len(evs) < 2 THEN evs
               ELSE IF evs[1].k = "t" /\ evs[2].k = "t" THEN Squash(Tail(evs)) ELSE <<evs[1]>> \o Squash(Tail(evs))
T == [k |-> "t", n |-> "", a |-> <<>>]
S(n) == [k |-> "s", n |-> n, a |-> <<>>]
E(n) == [k |-> "e", n |-> n, a |-> <<>>]
\* <div><p> value </p></div>
Page(v, escapes) == Squash(<<S("div"), S("p")>> \o (IF v = <<>> THEN <<>> ELSE IF escapes THEN <<T>> ELSE Raw(v)) \o <<E("p"), E("div")>>)
=============================================================================
