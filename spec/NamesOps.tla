------------------------------- MODULE NamesOps -------------------------------
(***************************************************************************)
(* Personal names (name_node.go, util.go CleanSpace, name_format.go).      *)
(* A NAME value is "given /surname/ suffix"; the pieces GIVN, SURN, NPFX,  *)
(* NSFX, SPFX, TITL below the NAME line take precedence over what the      *)
(* value says.  Text travels as Seq(0..255) (lib/Chars.tla).               *)
(*                                                                         *)
(* Parts transcribes nameRegexp (name_node.go): the given part is          *)
(* everything before the first slash; the surname part is the first        *)
(* slash-delimited group if a second slash exists; the suffix is the rest. *)
(* A name record is [value, has, sub] where has[k] says whether the k-th   *)
(* sub-tag of Pieces is present and sub[k] is the value of its FIRST node. *)
(***************************************************************************)
EXTENDS Chars, FiniteSets

SLASH == 47
PCT == 37
Pieces == <<"GIVN", "SURN", "NPFX", "NSFX", "SPFX", "TITL">>

\* util.go CleanSpace: runs of U+0020 collapse to one, then strings.TrimSpace
RECURSIVE Collapse(_)
Collapse(s) ==
  IF Len(s) < 2 THEN s
  ELSE IF s[1] = SP /\ s[2] = SP THEN Collapse(Tail(s))
  ELSE <<s[1]>> \o Collapse(Tail(s))
CleanSpace(s) == TrimSpace(Collapse(s))

Parts(v) ==
  LET a == FindFrom(v, 1, SLASH)                       \* first slash, 0 = none
      b == IF a = 0 THEN 0 ELSE FindFrom(v, a + 1, SLASH) \* the slash that closes the surname
  IN IF a = 0 THEN [given |-> v, sur |-> <<>>, rest |-> <<>>]
     ELSE IF b = 0 THEN [given |-> Sub(v, 1, a - 1), sur |-> <<>>, rest |-> Sub(v, a, Len(v))]
     ELSE [given |-> Sub(v, 1, a - 1), sur |-> Sub(v, a, b), rest |-> Sub(v, b + 1, Len(v))]

Given(n)  == IF n.has[1] THEN CleanSpace(n.sub[1]) ELSE CleanSpace(Parts(n.value).given)
Surname(n) ==
  IF n.has[2] THEN CleanSpace(n.sub[2])
  ELSE LET l == CleanSpace(Parts(n.value).sur) IN IF l = <<>> THEN <<>> ELSE Sub(l, 2, Len(l) - 1)
Prefix(n) == IF n.has[3] THEN CleanSpace(n.sub[3]) ELSE <<>>
Suffix(n) == IF n.has[4] THEN CleanSpace(n.sub[4]) ELSE CleanSpace(Parts(n.value).rest)
SurnamePrefix(n) == IF n.has[5] THEN CleanSpace(n.sub[5]) ELSE <<>>
Title(n)  == IF n.has[6] THEN CleanSpace(n.sub[6]) ELSE <<>>

\* NameNode.Format: %f %l %m %p %s %t (upper-case letter = upper-cased piece), %% , anything else verbatim
Directive(n, c) ==
  LET piece == CASE LowerByte(c) = 102 -> Given(n)          \* f
                 [] LowerByte(c) = 108 -> Surname(n)        \* l
                 [] LowerByte(c) = 109 -> SurnamePrefix(n)  \* m
                 [] LowerByte(c) = 112 -> Prefix(n)         \* p
                 [] LowerByte(c) = 115 -> Suffix(n)         \* s
                 [] LowerByte(c) = 116 -> Title(n)          \* t
                 [] OTHER -> <<PCT, c>>
  IN IF c = PCT THEN <<PCT>>
     ELSE IF LowerByte(c) \in {102, 108, 109, 112, 115, 116} /\ IsUpper(c) THEN Upper(piece) ELSE piece
RECURSIVE Expand(_, _, _)
Expand(n, f, i) ==
  IF i > Len(f) THEN <<>>
  ELSE IF f[i] = PCT /\ i < Len(f) THEN Directive(n, f[i + 1]) \o Expand(n, f, i + 2)
  ELSE <<f[i]>> \o Expand(n, f, i + 1)
Format(n, f) == CleanSpace(Expand(n, f, 1))

\* "%t %p %f %m %l %s", "%t %p %f %m /%l/ %s", "%m %l, %t %p %f %s"
FmtWritten == <<37,116,32,37,112,32,37,102,32,37,109,32,37,108,32,37,115>>
FmtGedcom  == <<37,116,32,37,112,32,37,102,32,37,109,32,47,37,108,47,32,37,115>>
FmtIndex   == <<37,109,32,37,108,44,32,37,116,32,37,112,32,37,102,32,37,115>>
Written(n) == Format(n, FmtWritten)
\* GedcomName: the GEDCOM format with empty surname slashes removed
RECURSIVE DropEmptySlashes(_)
DropEmptySlashes(s) ==
  IF Len(s) < 2 THEN s
  ELSE IF s[1] = SLASH /\ s[2] = SLASH THEN DropEmptySlashes(Tail(Tail(s)))
  ELSE <<s[1]>> \o DropEmptySlashes(Tail(s))
GedcomName(n) == CleanSpace(DropEmptySlashes(Format(n, FmtGedcom)))
IndexName(n) == Format(n, FmtIndex)

\* a name as the documentation draws it: clean pieces, no slash inside them
IsCleanPiece(s) == CleanSpace(s) = s /\ FindFrom(s, 1, SLASH) = 0
Compose(g, l, x) == g \o (IF g # <<>> THEN <<SP>> ELSE <<>>) \o <<SLASH>> \o l \o <<SLASH>> \o (IF x # <<>> THEN <<SP>> ELSE <<>>) \o x
NoSub == [k \in 1..6 |-> FALSE]
NoVal == [k \in 1..6 |-> <<>>]
Plain(v) == [value |-> v, has |-> NoSub, sub |-> NoVal]

IsClean(s) == CleanSpace(s) = s
=============================================================================
