------------------------------- MODULE NodeHeap -------------------------------
(***************************************************************************)
(* C07 C08 C09: the machines that enumerate node trees, apply the          *)
(* operations of NodeHeapOps.tla and check the properties on the model.    *)
(* One module, four modes (a constant), so that every config shares the    *)
(* tree generator:                                                         *)
(*   "c07"  tree, then one of Copy / Permute / Insert / Delete / Change    *)
(*   "c08"  pair of trees, CompareNodes                                    *)
(*   "c09n" pair of trees with the same root tag, MergeNodes               *)
(*   "c09s" pair of node lists and a merge function, MergeNodeSlices       *)
(***************************************************************************)
EXTENDS NodeHeapOps

CONSTANTS Mode,
          Flags,          \* the as-is switches this config runs with
          Sigs,           \* set of childless nodes: the alphabet
          RootSigs,       \* alphabet for roots
          EditSigs,       \* nodes that Insert / Change may introduce
          Depth, MaxKids, \* trees of at most Depth levels with at most MaxKids children per node
          MaxList,        \* c09s: lists of at most MaxList trees
          Fns             \* c09s: merge functions

SeqsUpTo(S, k) == UNION {[1..n -> S] : n \in 0..k}
RECURSIVE TreesD(_)
TreesD(d) == IF d <= 1 THEN Sigs
             ELSE {[s EXCEPT !.kids = ks] : s \in Sigs, ks \in SeqsUpTo(TreesD(d - 1), MaxKids)}
RootedTrees == IF Depth <= 1 THEN RootSigs
               ELSE {[s EXCEPT !.kids = ks] : s \in RootSigs, ks \in SeqsUpTo(TreesD(Depth - 1), MaxKids)}

Perms(n) == {p \in [1..n -> 1..n] : {p[i] : i \in 1..n} = 1..n}

VARIABLES A, B, op, out
hvars == <<A, B, op, out>>
NoneOp == [k |-> "none"]

HInit ==
  /\ op = NoneOp /\ out = <<>>
  /\ CASE Mode = "c07"  -> A \in RootedTrees /\ B = <<>>
       [] Mode \in {"c08", "c09n"} -> A \in RootedTrees /\ B \in RootedTrees /\ A.t = B.t
       [] Mode = "c09s" -> A \in SeqsUpTo(TreesD(Depth), MaxList) /\ B \in SeqsUpTo(TreesD(Depth), MaxList)

\* ---- c07
DoCopy    == Mode = "c07" /\ op = NoneOp /\ op' = [k |-> "copy"] /\ out' = A /\ UNCHANGED <<A, B>>
DoPermute == /\ Mode = "c07" /\ op = NoneOp
           /\ \E path \in AllPaths(A, <<>>) : \E perm \in Perms(Len(At(A, path).kids)) :
                /\ Len(At(A, path).kids) >= 2 /\ perm # [i \in 1..Len(perm) |-> i]
                /\ op' = [k |-> "perm", path |-> path, perm |-> perm] /\ out' = Permute(A, path, perm)
           /\ UNCHANGED <<A, B>>
DoInsert  == /\ Mode = "c07" /\ op = NoneOp
           /\ \E path \in AllPaths(A, <<>>), node \in EditSigs : \E pos \in 1..(Len(At(A, path).kids) + 1) :
                /\ op' = [k |-> "ins", path |-> path, pos |-> pos, node |-> node] /\ out' = InsertKid(A, path, pos, node)
           /\ UNCHANGED <<A, B>>
DoDelete  == /\ Mode = "c07" /\ op = NoneOp
           /\ \E path \in AllPaths(A, <<>>) : \E pos \in 1..Len(At(A, path).kids) :
                /\ op' = [k |-> "del", path |-> path, pos |-> pos] /\ out' = DeleteKid(A, path, pos)
           /\ UNCHANGED <<A, B>>
DoChange  == /\ Mode = "c07" /\ op = NoneOp
           /\ \E path \in AllPaths(A, <<>>), node \in EditSigs : \E pos \in 1..Len(At(A, path).kids) :
                /\ At(A, path).kids[pos].kids = <<>>
                /\ op' = [k |-> "chg", path |-> path, pos |-> pos, node |-> node] /\ out' = ChangeKid(A, path, pos, node)
           /\ UNCHANGED <<A, B>>
\* ---- c08 / c09
DoCompare == Mode = "c08" /\ op = NoneOp /\ op' = [k |-> "compare"] /\ out' = CompareNodes(Flags, A, B) /\ UNCHANGED <<A, B>>
DoMergeN  == Mode = "c09n" /\ op = NoneOp /\ op' = [k |-> "mergenodes"] /\ out' = MergeNodesM(Flags, A, B) /\ UNCHANGED <<A, B>>
DoMergeS  == /\ Mode = "c09s" /\ op = NoneOp
           /\ \E fn \in Fns : op' = [k |-> "mergeslices", fn |-> fn] /\ out' = MergeSlices(Flags, A, B, fn)
           /\ UNCHANGED <<A, B>>

HNext == DoCopy \/ DoPermute \/ DoInsert \/ DoDelete \/ DoChange \/ DoCompare \/ DoMergeN \/ DoMergeS
HSpec == HInit /\ [][HNext]_hvars

---------------------------------------------------------------------------
(* C07 on the model                                                         *)
C07Holds ==
  (Mode = "c07" /\ op # NoneOp) =>
    LET dm == C07Demand(A, op)  e12 == DeepEq(Flags, A, out)  e21 == DeepEq(Flags, out, A) IN
    /\ (dm = "equal" => e12 /\ e21)
    /\ (dm = "different" => ~e12 /\ ~e21)
    /\ e12 = e21                                   \* symmetric
SelfEqual == Mode = "c07" => DeepEqS(Flags, A, A, TRUE) /\ DeepEq(Flags, A, A)

(* C08 on the model                                                         *)
TagSides(e) ==
  LET RECURSIVE T(_) T(x) == [l |-> [has |-> x.l.has, s |-> "L", path |-> x.l.path],
                              r |-> [has |-> x.r.has, s |-> "R", path |-> x.r.path],
                              kids |-> [i \in 1..Len(x.kids) |-> T(x.kids[i])]] IN T(e)
C08Holds ==
  (Mode = "c08" /\ op # NoneOp) =>
    LET D == TagSides(out) IN
    /\ Provenance(A, B, D)
    /\ Coverage(Flags, A, B, D)
    /\ OneSidedIfUnique(Flags, A, B, D)
    /\ (DeepEq(Flags, A, B) => DiffAllTwoSided(D))

(* C09 on the model                                                         *)
C09NodesHolds ==
  (Mode = "c09n" /\ op # NoneOp) =>
    /\ NothingLostNodes(Flags, A, B, out)
    /\ NothingInventedNodes(Flags, A, B, out)
    /\ (A = B => SelfMergeAddsNothing(Flags, A, out))
C09SlicesHolds ==
  (Mode = "c09s" /\ op # NoneOp) =>
    /\ SliceBounds(A, B, out)
    /\ (op.fn # "always" => NothingLostSlices(Flags, A, B, out))
    /\ (op.fn # "always" => NothingInventedSlices(Flags, A, B, out))   \* "always" merges unequal nodes by design
=============================================================================
