------------------------------- MODULE Codec -------------------------------
(***************************************************************************)
(* The decoder of elliotchance/gedcom as an explicit state machine: phase  *)
(* "build" grows an input, phase "decode" consumes it line by line through *)
(* one named action per branch of Decoder.Decode.  Properties C02, C03.    *)
(* The pure operators live in CodecOps.tla (shared with the trace spec).   *)
(***************************************************************************)
EXTENDS CodecOps

---------------------------------------------------------------------------
(* The exhaustive machine.  Phase "build" grows the input from chunks (a    *)
(* chunk is a byte, or a whole line: see the MC modules); phase "decode"    *)
(* consumes one line per step through the named branch actions; "done".     *)
CONSTANTS Chunks, MaxChunks, OptionSets

VARIABLES phase, inp, nchunks, opts, rest, st
vars == <<phase, inp, nchunks, opts, rest, st>>

Init ==
  /\ phase = "build" /\ inp = <<>> /\ nchunks = 0
  /\ opts \in OptionSets
  /\ rest = <<>> /\ st = S0

AppendChunk ==
  /\ phase = "build" /\ nchunks < MaxChunks
  /\ \E c \in Chunks : inp' = inp \o c
  /\ nchunks' = nchunks + 1
  /\ UNCHANGED <<phase, opts, rest, st>>

StartDecode ==
  /\ phase = "build"
  /\ phase' = "decode"
  /\ rest' = Lines(Body(inp), 1, <<>>)
  /\ UNCHANGED <<inp, nchunks, opts, st>>

Take(b) ==
  /\ phase = "decode" /\ rest # <<>> /\ st.out = "run"
  /\ Branch([st EXCEPT !.line = @ + 1], Head(rest), opts) = b
  /\ st' = StepLine(st, Head(rest), opts)
  /\ rest' = Tail(rest)
  /\ UNCHANGED <<phase, inp, nchunks, opts>>

BlankSkip == Take("BlankSkip")
BlankAppend == Take("BlankAppend")
Continue == Take("Continue")
Reject == Take("Reject")
RoleWithoutFamily == Take("RoleWithoutFamily")
AttachRoot == Take("AttachRoot")
PanicIndent == Take("PanicIndent")
ClampEmpty == Take("ClampEmpty")
ClampIndent == Take("ClampIndent")
Descend == Take("Descend")
Dedent == Take("Dedent")
Stay == Take("Stay")

Finish ==
  /\ phase = "decode" /\ (rest = <<>> \/ st.out # "run")
  /\ phase' = "done"
  /\ UNCHANGED <<inp, nchunks, opts, rest, st>>

Next ==
  \/ AppendChunk \/ StartDecode
  \/ BlankSkip \/ BlankAppend \/ Continue \/ Reject \/ RoleWithoutFamily \/ AttachRoot
  \/ PanicIndent \/ ClampEmpty \/ ClampIndent \/ Descend \/ Dedent \/ Stay
  \/ Finish

Spec == Init /\ [][Next]_vars

---------------------------------------------------------------------------
(* C02: every line is attached exactly where its level says                 *)
ForestShape == IsForest(st.forest)

\* open is the spine: the ancestors-or-self of the last node, by depth
OpenIsSpine ==
  LET f == st.forest IN
  f # <<>> =>
    /\ Len(st.open) = f[Len(f)].lvl + 1
    /\ st.open[Len(st.open)] = Len(f)
    /\ \A k \in 1..Len(st.open) : f[st.open[k]].lvl = k - 1
    /\ \A k \in 2..Len(st.open) : ParentOf(f, st.open[k]) = st.open[k - 1]

\* depth = written level (strict), or clamped to one below the previous node (lenient)
DepthIsLevel ==
  LET f == st.forest IN
  \A i \in 1..Len(f) :
    IF st.wl[i] = 0 THEN f[i].lvl = 0
    ELSE IF opts.lenient THEN f[i].lvl = (IF i > 1 /\ st.wl[i] > f[i - 1].lvl + 1 THEN f[i - 1].lvl + 1 ELSE st.wl[i])
    ELSE f[i].lvl = st.wl[i]

ValuesTrimmed ==
  \A i \in 1..Len(st.forest) : i # st.prev => st.forest[i].val = TrimSpace(st.forest[i].val)

RecordLinesCarryNoValue ==
  ~opts.multi => \A i \in 1..Len(st.forest) : st.forest[i].tag \in RecordTags => st.forest[i].val = <<>>

\* no line is dropped, duplicated or re-parented: the forest only grows at the end
\* and only the value of the node that receives continuation text may change
PrefixStable ==
  [][ /\ Len(st'.forest) >= Len(st.forest)
      /\ Len(st'.forest) <= Len(st.forest) + 1
      /\ \A i \in 1..Len(st.forest) :
           /\ st'.forest[i].lvl = st.forest[i].lvl /\ st'.forest[i].ptr = st.forest[i].ptr
           /\ st'.forest[i].tag = st.forest[i].tag
           /\ (st'.forest[i].val # st.forest[i].val => i = st.prev) ]_vars

\* at the end: re-encoding gives a normal form that decodes to the same tree
\* and re-encodes to the same bytes
NormalForm ==
  (phase = "done" /\ st.out = "run") =>
    LET d == Decode(inp, opts) IN
    Clean(d.forest) =>
      LET e  == Encode(d.bom, d.forest)
          d2 == Decode(e, opts) IN
      /\ d2.out = "doc" /\ d2.forest = d.forest /\ d2.bom = d.bom
      /\ Encode(d2.bom, d2.forest) = e

\* the step machine and the Decode function agree (single source of truth)
MachineIsDecode ==
  phase = "done" => Result(st, inp) = Decode(inp, opts)

(* C03: totality and outcome classes                                        *)
OutcomeClass == st.out \in {"run", "error", "panic-indent", "crash"}
PanicOnlyWhenStrict == st.out = "panic-indent" => ~opts.lenient
ErrorNamesLine == st.out \in {"error", "panic-indent"} => st.line >= 1
NoCrash == st.out # "crash"        \* holds in the ideal machine only

=============================================================================
