------------------------------- MODULE Similarity -------------------------------
(***************************************************************************)
(* C12: machines that enumerate operands for each layer and check bounds,  *)
(* symmetry and identity on the model.                                     *)
(*   "strings": all pairs of strings up to MaxLen over Alphabet            *)
(*   "dates":   all pairs of distances / years                             *)
(*   "lists":   all score matrices up to MaxN x MaxN over Scores           *)
(***************************************************************************)
EXTENDS SimilarityOps

CONSTANTS Mode, Alphabet, MaxLen, Prefixes, Scores, MaxN, MinSims, Distances, MaxYearsSet

StringsUpTo(n) == UNION {[1..k -> Alphabet] : k \in 0..n}

VARIABLES x, y, p, ph
svars == <<x, y, p, ph>>

\* two steps so that the second operand is chosen (and the invariants evaluated) by TLC's workers
SInit ==
  /\ ph = 0
  /\ CASE Mode = "strings" -> x \in StringsUpTo(MaxLen) /\ y = <<>> /\ p \in Prefixes
       [] Mode = "dates"   -> x \in Distances /\ y = <<0, 1>> /\ p \in MaxYearsSet
       [] Mode = "lists"   -> x \in {<<na, nb>> : na \in 1..MaxN, nb \in 1..MaxN} /\ y = 0 /\ p \in MinSims
PickSecond ==
  /\ ph = 0 /\ ph' = 1 /\ UNCHANGED p
  /\ CASE Mode = "strings" -> y' \in StringsUpTo(MaxLen) /\ UNCHANGED x
       [] Mode = "dates"   -> y' \in Distances /\ UNCHANGED x
       [] Mode = "lists"   -> x' \in [1..x[1] -> [1..x[2] -> Scores]] /\ UNCHANGED y
SSpec == SInit /\ [][PickSecond]_svars
Ready == ph = 1

\* ---- strings
StringInUnit == (Mode = "strings" /\ Ready) => InUnitR(Jaro(x, y)) /\ InUnitR(JW(x, y, p))
StringSymmetric == (Mode = "strings" /\ Ready) => REq(Jaro(x, y), Jaro(y, x)) /\ REq(JW(x, y, p), JW(y, x, p))
StringIdentity == (Mode = "strings" /\ Ready /\ x # <<>>) => REq(JW(x, x, p), <<1, 1>>)

\* ---- dates: x, y are distances <<num, den>>
DateInUnit == (Mode = "dates" /\ Ready) => InUnitR(DateSim(x, p))
\* never increases as the distance grows (distances with the same denominator, so that the similarities
\* have the same denominator too and 32-bit products are avoided)
DateMonotone == (Mode = "dates" /\ Ready /\ x[2] = y[2]) => (x[1] <= y[1] => (DateSim(y, p)[1] = 0 \/ (DateSim(y, p)[2] = DateSim(x, p)[2] /\ DateSim(y, p)[1] <= DateSim(x, p)[1])))
DateIdentity == (Mode = "dates" /\ Ready) => (x[1] = 0 => REq(DateSim(x, p), <<1, 1>>))
DateZeroBeyond == (Mode = "dates" /\ Ready) => (RLe(<<p, 1>>, x) /\ ~REq(<<p, 1>>, x) => DateSim(x, p)[1] = 0)

\* ---- lists: x is a matrix
Rows == Len(x)
Cols == Len(x[1])
ListInUnit == (Mode = "lists" /\ Ready) => InUnitS(ListSim(x, Rows, Cols, p))
ListSymmetric == (Mode = "lists" /\ Ready) => ListSim(x, Rows, Cols, p) = ListSim(Transpose(x, Rows, Cols), Cols, Rows, p)
ListIdentity == (Mode = "lists" /\ Ready) => ((Rows = Cols /\ \A a \in 1..Rows : x[a][a] = Scale) => ListSim(x, Rows, Cols, p) = Scale)
=============================================================================
