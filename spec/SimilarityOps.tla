----------------------------- MODULE SimilarityOps -----------------------------
(***************************************************************************)
(* C12.  The similarity layers as exact arithmetic:                        *)
(*  - Jaro / Jaro-Winkler over rationals <<num, den>> (greedy first-free   *)
(*    matching in a window, half-transpositions, prefix boost)             *)
(*  - the date parabola on a distance in years                             *)
(*  - the name/date mix of two individuals, the greedy assignment of two   *)
(*    lists with 0.5 padding, the weighted surrounding similarity - over   *)
(*    integers scaled by Scale (recorded floats are rounded to that scale) *)
(***************************************************************************)
EXTENDS Integers, Sequences, FiniteSets, TLC

Min2(a, b) == IF a < b THEN a ELSE b
Max2(a, b) == IF a > b THEN a ELSE b

\* ---- rationals
RLe(a, b) == a[1] * b[2] <= b[1] * a[2]
REq(a, b) == a[1] * b[2] = b[1] * a[2]
InUnitR(a) == a[1] >= 0 /\ a[2] > 0 /\ a[1] <= a[2]

\* ---- Jaro.  x, y: sequences of symbols.  The match range is floor(max(len)/2) - 2, at least 0.
FirstFree(x, y, i, used, mr) ==
  LET S == {j \in Max2(1, i - mr)..Min2(Len(y), i + mr) : j \notin used /\ x[i] = y[j]} IN
  IF S = {} THEN 0 ELSE CHOOSE j \in S : \A j2 \in S : j <= j2
RECURSIVE Scan(_, _, _, _, _, _, _)
Scan(x, y, i, used, m, halfs, mr) ==
  IF i > Len(x) THEN [m |-> m, halfs |-> halfs]
  ELSE LET j == FirstFree(x, y, i, used, mr) IN
       IF j = 0 THEN Scan(x, y, i + 1, used, m, halfs, mr)
       ELSE Scan(x, y, i + 1, used \cup {j}, m + 1, halfs + (IF i # j THEN 1 ELSE 0), mr)
Jaro(x, y) ==
  LET la == Len(x)  lb == Len(y)
      mr == Max2(0, (Max2(la, lb) \div 2) - 2)
      r == Scan(x, y, 1, {}, 0, 0, mr)
      m == r.m  t == r.halfs \div 2 IN
  IF m = 0 THEN <<0, 1>>
  ELSE <<m * m * lb + m * m * la + (m - t) * la * lb, 3 * la * lb * m>>      \* (m/la + m/lb + (m-t)/m) / 3
PrefixHits(x, y, prefix) == Cardinality({i \in 1..Min2(prefix, Min2(Len(x), Len(y))) : x[i] = y[i]})
\* boost threshold 0 (the default): any positive score is boosted by the common prefix
JW(x, y, prefix) ==
  LET j == Jaro(x, y)  p == PrefixHits(x, y, prefix) IN
  IF j[1] = 0 THEN j ELSE <<10 * j[1] + p * (j[2] - j[1]), 10 * j[2]>>

\* ---- the date parabola: distance d = <<num, den>> years, maxYears an integer
\* similarity = 1 - (d / maxYears)^2, and 0 beyond maxYears
DateSim(d, maxYears) ==
  IF d[1] * d[1] > maxYears * maxYears * d[2] * d[2] THEN <<0, 1>>
  ELSE <<maxYears * maxYears * d[2] * d[2] - d[1] * d[1], maxYears * maxYears * d[2] * d[2]>>

\* ---- scaled integers (Scale = 10^4: products stay far below 2^31)
Scale == 10000
Half == 5000
Abs(x) == IF x < 0 THEN -x ELSE x
Close(a, b, tol) == Abs(a - b) <= tol
InUnitS(s) == s >= 0 /\ s <= Scale

MaxOf(S) == IF S = {} THEN 0 ELSE CHOOSE m \in S : \A n \in S : n <= m
\* individual: best name pair * ratio + average of birth and death similarity * (1 - ratio)
IndividualSim(nameSims, birth, death, ratio) ==
  (MaxOf(nameSims) * ratio + ((birth + death) \div 2) * (Scale - ratio)) \div Scale

\* lists: all pairs sorted by similarity (descending, stable in row-major order), greedy one-to-one
\* assignment down to minSim, unmatched individuals of the longer list count 0.5
RECURSIVE Pick(_, _, _, _, _)
\* cells: sequence of [a, b, s] already in the order the code visits them
Pick(cells, k, usedA, usedB, minSim) ==
  IF k > Len(cells) \/ cells[k].s < minSim THEN [total |-> 0, n |-> 0]
  ELSE IF cells[k].a \in usedA \/ cells[k].b \in usedB THEN Pick(cells, k + 1, usedA, usedB, minSim)
  ELSE LET r == Pick(cells, k + 1, usedA \cup {cells[k].a}, usedB \cup {cells[k].b}, minSim) IN
       [total |-> r.total + cells[k].s, n |-> r.n + 1]
\* stable descending sort of the row-major cells of matrix m (na x nb)
RowMajor(m, na, nb) == [k \in 1..(na * nb) |-> [a |-> ((k - 1) \div nb) + 1, b |-> ((k - 1) % nb) + 1, s |-> m[((k - 1) \div nb) + 1][((k - 1) % nb) + 1]]]
RECURSIVE InsertSorted(_, _), SortDesc(_, _)
InsertSorted(sorted, c) ==     \* after every element with s >= c.s  (stable)
  LET P == {k \in 0..Len(sorted) : \A q \in 1..k : sorted[q].s >= c.s} IN
  LET k == CHOOSE k \in P : \A k2 \in P : k2 <= k IN
  SubSeq(sorted, 1, k) \o <<c>> \o SubSeq(sorted, k + 1, Len(sorted))
SortDesc(cells, k) == IF k > Len(cells) THEN <<>> ELSE
  LET RECURSIVE F(_, _) F(acc, q) == IF q > Len(cells) THEN acc ELSE F(InsertSorted(acc, cells[q]), q + 1) IN F(<<>>, 1)
ListSim(m, na, nb, minSim) ==
  IF na = 0 /\ nb = 0 THEN Scale
  ELSE IF na = 0 \/ nb = 0 THEN Half
  ELSE LET r == Pick(SortDesc(RowMajor(m, na, nb), 1), 1, {}, {}, minSim)
           n == Max2(na, nb) IN
       (r.total + Half * (n - r.n)) \div n
Transpose(m, na, nb) == [b \in 1..nb |-> [a \in 1..na |-> m[a][b]]]

\* weighted surrounding similarity (weights scaled, summing to Scale)
Weighted(ind, par, sp, ch, w) == (ind * w.ind + par * w.par + sp * w.sp + ch * w.ch) \div Scale
=============================================================================
