----------------------------- MODULE HtmlStructure -----------------------------
(* Two small machines around HtmlStructureOps.                                                                   *)
(* Mode "events": every event sequence up to MaxLen over a small alphabet is built one event at a time, with the *)
(*   pushdown stack carried along: the machine's verdict equals the independent rewriting characterisation.      *)
(* Mode "values": a tainted and a benign value of the same length are built piece by piece and rendered into a   *)
(*   page: with an escaping sink the two pages have the same skeleton and are well nested whatever the values    *)
(*   are (EscapingSinkIsSafe); a copying sink (the as-is table-head / anchor components) is not.                  *)
EXTENDS HtmlStructureOps
CONSTANTS Mode, MaxLen, Escapes

VARIABLES evs, stack, taint, benign
hvars == <<evs, stack, taint, benign>>

Alphabet == {[k |-> "s", n |-> "a", a |-> <<>>], [k |-> "e", n |-> "a", a |-> <<>>], [k |-> "s", n |-> "b", a |-> <<>>],
             [k |-> "e", n |-> "b", a |-> <<>>], [k |-> "s", n |-> "br", a |-> <<>>], [k |-> "e", n |-> "br", a |-> <<>>],
             [k |-> "v", n |-> "a", a |-> <<>>], [k |-> "t", n |-> "", a |-> <<>>]}

HInit == evs = <<>> /\ stack = <<>> /\ taint = <<>> /\ benign = <<>>
AddEvent == /\ Mode = "events" /\ Len(evs) < MaxLen
            /\ \E e \in Alphabet : evs' = Append(evs, e) /\ stack' = Step(stack, e)
            /\ UNCHANGED <<taint, benign>>
AddPiece == /\ Mode = "values" /\ Len(taint) < MaxLen
            /\ \E p \in Piece : taint' = Append(taint, p)
            /\ benign' = Append(benign, "x")
            /\ UNCHANGED <<evs, stack>>
HNext == AddEvent \/ AddPiece
HSpec == HInit /\ [][HNext]_hvars

\* the carried stack is what running the machine from scratch gives; the machine agrees with the rewriting definition
StackIsRun       == stack = Run(evs, 1, <<>>)
MachineIsBalance == WellNested(evs) <=> Balanced(evs)
\* a prefix that went bad stays bad
BadIsFinal       == stack = Bad => ~WellNested(evs)
\* non-interference of the page structure
SinkIsSafe == Mode = "values" => (Page(taint, Escapes) = Page(benign, Escapes) /\ WellNested(Page(taint, Escapes)))
=============================================================================
