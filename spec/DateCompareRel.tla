----------------------------- MODULE DateCompareRel ----------------------------
(***************************************************************************)
(* C06.  The thirteen relations drawn in the documentation of              *)
(* DateRangeComparison, over integer day intervals: the part of            *)
(* DateCompareOps that needs nothing but integers and finite sets, so that *)
(* TLC (bounded window, DateCompare.tla) and Apalache (all integers,       *)
(* apalache/DateCompareInd.tla) check the same text.                       *)
(* Receiver [x,y] is compared against base [u,v].                          *)
(***************************************************************************)
EXTENDS Integers, FiniteSets, Sequences

Rels == {"Equal", "Inside", "InsideStart", "InsideEnd", "Outside", "OutsideStart", "OutsideEnd",
         "PartiallyBefore", "PartiallyAfter", "Before", "After", "EntirelyBefore", "EntirelyAfter"}

Holds(r, x, y, u, v) ==
  CASE r = "Equal"           -> x = u /\ y = v
    [] r = "Inside"          -> u < x /\ y < v
    [] r = "InsideStart"     -> x = u /\ y < v
    [] r = "InsideEnd"       -> u < x /\ y = v
    [] r = "Outside"         -> x < u /\ v < y
    [] r = "OutsideStart"    -> x = u /\ v < y
    [] r = "OutsideEnd"      -> x < u /\ y = v
    [] r = "PartiallyBefore" -> x < u /\ u < y /\ y < v
    [] r = "PartiallyAfter"  -> u < x /\ x < v /\ v < y
    [] r = "Before"          -> x < u /\ y = u
    [] r = "After"           -> x = v /\ v < y
    [] r = "EntirelyBefore"  -> y < u
    [] r = "EntirelyAfter"   -> v < x
Allowed(x, y, u, v) == {r \in Rels : Holds(r, x, y, u, v)}

Converse(r) ==
  CASE r = "Equal" -> "Equal" [] r = "Inside" -> "Outside" [] r = "Outside" -> "Inside"
    [] r = "InsideStart" -> "OutsideStart" [] r = "OutsideStart" -> "InsideStart"
    [] r = "InsideEnd" -> "OutsideEnd" [] r = "OutsideEnd" -> "InsideEnd"
    [] r = "PartiallyBefore" -> "PartiallyAfter" [] r = "PartiallyAfter" -> "PartiallyBefore"
    [] r = "Before" -> "After" [] r = "After" -> "Before"
    [] r = "EntirelyBefore" -> "EntirelyAfter" [] r = "EntirelyAfter" -> "EntirelyBefore"

\* the three simplified verdicts of the documentation table
Simplified(r) ==
  IF r = "Equal" THEN "Equal"
  ELSE IF r \in {"Before", "After", "EntirelyBefore", "EntirelyAfter"} THEN "NotEqual"
  ELSE "PartiallyEqual"

\* the ideal machine's choice when several drawn relations hold: containment beats touching
\* @type: Seq(Str);
Pref == <<"Equal", "InsideStart", "InsideEnd", "OutsideStart", "OutsideEnd", "Inside", "Outside",
          "PartiallyBefore", "PartiallyAfter", "Before", "After", "EntirelyBefore", "EntirelyAfter">>
Pick(x, y, u, v) ==
  LET A == Allowed(x, y, u, v)
      first == CHOOSE k \in 1..13 : Pref[k] \in A /\ \A j \in 1..13 : j < k => Pref[j] \notin A
  IN Pref[first]

\* what the two calls receiver.Compare(base), base.Compare(receiver) may return together
AllowedPairs(x, y, u, v) ==
  {<<r1, r2>> \in Allowed(x, y, u, v) \X Allowed(u, v, x, y) : r2 = Converse(r1)}

=============================================================================
