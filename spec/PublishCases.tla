----------------------------- MODULE PublishCases -----------------------------
(* The documents the publishing checks run on, as a machine: people are added one at a time (every kind of      *)
(* living / not living, own or shared surname and birth place), then a family shape is chosen, so that living   *)
(* people occur in every role: child, spouse, parent, unconnected, sharing a surname or a place with a dead     *)
(* person, living only by the age rule, living with a burial but no death.  Every reachable state is emitted    *)
(* as one case per option set (page groups x visibility), with its twin: the same graph with other data for the *)
(* living people.                                                                                               *)
EXTENDS PublishOps, Json
CONSTANTS MaxPeople, OptMasks, Visibilities, JobsList

VARIABLES people, shape
cvars == <<people, shape>>

D(i) == "0" \o ToString(i)
NewPerson(i, kind, surOf, placeOf) ==
  [p |-> "I" \o ToString(i), kind |-> kind, given |-> "Gqg" \o D(i),
   sur |-> IF surOf = 0 THEN "Sqs" \o D(i) ELSE people[surOf].sur,
   altg |-> <<"Hqa" \o D(i)>>, alts |-> <<"Kqb" \o D(i)>>, nick |-> "Nqn" \o D(i), sex |-> IF i % 2 = 1 THEN "M" ELSE "F",
   bplac |-> IF placeOf = 0 THEN "Pqp" \o D(i) ELSE people[placeOf].bplac,
   rplac |-> "Rqr" \o D(i), dplac |-> IF kind \in {"deat", "burialonly"} THEN "Dqd" \o D(i) ELSE "",
   note |-> "Tqt" \o D(i), occu |-> "Oqo" \o D(i), day |-> 0, lines |-> <<>>]

\* family shapes by number of people: <<husband, wife, children>>
Shapes(n) == CASE n = 1 -> {<<0, 0, <<>>>>}
               [] n = 2 -> {<<0, 0, <<>>>>, <<1, 2, <<>>>>, <<1, 0, <<2>>>>, <<2, 0, <<1>>>>, <<0, 2, <<1>>>>}
               [] n = 3 -> {<<0, 0, <<>>>>, <<1, 2, <<3>>>>, <<2, 3, <<1>>>>, <<1, 0, <<2, 3>>>>, <<3, 1, <<>>>>}
               [] OTHER -> {<<0, 0, <<>>>>, <<1, 2, <<3, 4>>>>, <<3, 4, <<1>>>>}

CInit == people = <<>> /\ shape = <<0, 0, <<>>>>
AddPerson == /\ Len(people) < MaxPeople /\ shape = <<0, 0, <<>>>>
             /\ \E kind \in Kinds, surOf \in 0..Len(people), placeOf \in 0..Len(people) :
                  people' = Append(people, NewPerson(Len(people) + 1, kind, surOf, placeOf))
             /\ UNCHANGED shape
ChooseShape == /\ people # <<>> /\ shape = <<0, 0, <<>>>>
               /\ \E s \in Shapes(Len(people)) \ {<<0, 0, <<>>>>} : shape' = s
               /\ UNCHANGED people
CNext == AddPerson \/ ChooseShape
CSpec == CInit /\ [][CNext]_cvars

Doc == [people |-> people,
        families |-> IF shape = <<0, 0, <<>>>> THEN <<>>
                     ELSE <<[p |-> "F1", husb |-> shape[1], wife |-> shape[2], kids |-> shape[3], mplac |-> "Wqw01", myear |-> 1860]>>,
        sources |-> <<[p |-> "S1", title |-> "Uqu01", auth |-> "Vqv01"]>>]
Y(s) == IF s = "" THEN "" ELSE "Y" \o s
TwinPerson(p) == IF ~Living(p) THEN p
                 ELSE [p EXCEPT !.given = Y(@), !.sur = Y(@), !.nick = Y(@), !.bplac = Y(@), !.rplac = Y(@), !.dplac = Y(@), !.note = Y(@), !.occu = Y(@),
                                !.altg = [k \in DOMAIN @ |-> Y(@[k])], !.alts = [k \in DOMAIN @ |-> Y(@[k])], !.day = 3]
TwinDoc == [Doc EXCEPT !.people = [k \in DOMAIN people |-> TwinPerson(people[k])]]
NoDoc == [people |-> <<>>, families |-> <<>>, sources |-> <<>>]
Bit(m, b) == (m \div b) % 2 = 1
Opts(m, v) == [individuals |-> Bit(m, 1), places |-> Bit(m, 2), families |-> Bit(m, 4), surnames |-> Bit(m, 8), sources |-> Bit(m, 16),
               statistics |-> Bit(m, 32), living |-> v]
CaseOf(m, v) == [id |-> 0, kind |-> "site", doc |-> Doc, twin |-> TwinDoc, prior |-> NoDoc, opts |-> Opts(m, v), jobs |-> JobsList,
                 failk |-> 0, failm |-> "once", race |-> FALSE]

\* the generator does what it says: the twin differs in living people's data only, and every role occurs
TwinIsATwin == SamePublicPart(Doc, TwinDoc)
Emit == people # <<>> => \A m \in OptMasks, v \in Visibilities : PrintT(<<"CASE", ToJson(CaseOf(m, v))>>)
\* census of roles, for the evidence: a living child / spouse / parent / sharer
LivingAt(k) == k > 0 /\ k <= Len(people) /\ Living(people[k])
Roles == (IF \E k \in 1..Len(shape[3]) : LivingAt(shape[3][k]) THEN {"child"} ELSE {})
         \cup (IF shape[1] > 0 /\ shape[2] > 0 /\ (LivingAt(shape[1]) \/ LivingAt(shape[2])) THEN {"spouse"} ELSE {})
         \cup (IF shape[3] # <<>> /\ (LivingAt(shape[1]) \/ LivingAt(shape[2])) THEN {"parent"} ELSE {})
         \cup (IF \E a, b \in 1..Len(people) : a # b /\ Living(people[a]) /\ ~Living(people[b]) /\ people[a].sur = people[b].sur THEN {"shares-surname"} ELSE {})
         \cup (IF \E a, b \in 1..Len(people) : a # b /\ Living(people[a]) /\ ~Living(people[b]) /\ people[a].bplac = people[b].bplac THEN {"shares-place"} ELSE {})
=============================================================================
