---------------------------- MODULE DateCompareInd ----------------------------
(***************************************************************************)
(* C06, unbounded.  TLC checks the laws of the relation algebra for every  *)
(* pair of ranges inside a window of 10-13 days (DateCompare.tla).  Here   *)
(* the same operators (DateCompareRel.tla) are handed to Apalache with the *)
(* four end points ranging over ALL integers: the initial predicate admits *)
(* every pair of forward ranges, the machine never moves, so checking the  *)
(* invariants at length 0 is a proof (by SMT) that the laws hold for every *)
(* pair of forward integer intervals, not only those of the window.        *)
(*   apalache-mc check --length=0 --init=Init --next=Next --inv=Laws       *)
(***************************************************************************)
EXTENDS DateCompareRel

VARIABLES
  \* @type: Int;
  x,
  \* @type: Int;
  y,
  \* @type: Int;
  u,
  \* @type: Int;
  v

Init == x \in Int /\ y \in Int /\ u \in Int /\ v \in Int /\ x <= y /\ u <= v
Next == UNCHANGED <<x, y, u, v>>

\* never "invalid" when both ranges run forwards: some drawn relation holds
Total == Allowed(x, y, u, v) # {}
\* for proper ranges a drawn relation holds exactly when its converse holds for the swapped operands.  (For a single-day
\* operand this is false as drawn: [0,1] is After [0,0] but [0,0] is not Before [0,1], it is InsideStart; Apalache finds that
\* counterexample at once.  That is why the property is stated through AllowedPairs / PickLaw for such operands.)
ConverseLaw == (x < y /\ u < v) => \A r \in Rels : Holds(r, x, y, u, v) <=> Holds(Converse(r), u, v, x, y)
\* Converse is an involution on the thirteen relations
Involution == \A r \in Rels : Converse(r) \in Rels /\ Converse(Converse(r)) = r
\* for proper ranges exactly one drawn relation holds
ProperUnique == (x < y /\ u < v) => Cardinality(Allowed(x, y, u, v)) = 1
\* a range compared with itself: Equal is drawn, and it is what the machine picks
SelfEqual == (x = u /\ y = v) => (Holds("Equal", x, y, u, v) /\ Pick(x, y, u, v) = "Equal")
\* the machine's pick is a drawn relation, and its picks for the two operand orders are converse
PickLaw == /\ Pick(x, y, u, v) \in Allowed(x, y, u, v)
           /\ Pick(u, v, x, y) = Converse(Pick(x, y, u, v))
\* a lawful pair of answers exists for every pair of ranges
PairsExist == AllowedPairs(x, y, u, v) # {}
\* Equal is drawn only for identical ranges; NotEqual verdicts only for ranges whose interiors are disjoint
VerdictSound == /\ Holds("Equal", x, y, u, v) <=> (x = u /\ y = v)
                /\ \A r \in Allowed(x, y, u, v) : Simplified(r) = "NotEqual" => (y <= u \/ v <= x)
                /\ \A r \in Allowed(x, y, u, v) : Simplified(r) \in {"Equal", "PartiallyEqual", "NotEqual"}

Laws == Total /\ ConverseLaw /\ Involution /\ ProperUnique /\ SelfEqual /\ PickLaw /\ PairsExist /\ VerdictSound
=============================================================================
