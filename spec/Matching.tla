------------------------------- MODULE Matching -------------------------------
(***************************************************************************)
(* C11.  IndividualNodes.Compare as the pipeline of goroutines it is:      *)
(*                                                                         *)
(*   uniq[w]  strided over the left individuals: match by unique id        *)
(*   ptr[w]   (after all uniq workers) match by trusted pointer            *)
(*   matrix   (after all ptr workers) every unsent left x unsent right     *)
(*   proc[w]  computes similarities: jobs -> results                       *)
(*   closer   closes results when every proc worker has finished           *)
(*   coll     collector: results -> similarities (and drains totals)       *)
(*   win      certain matches pass straight through; the rest is sorted    *)
(*            and assigned greedily above the threshold; leftovers         *)
(*   main     gathers the winners                                          *)
(*                                                                         *)
(* One label per channel operation / shared-map access.  Inputs are        *)
(* constants of a run: pointers, unique ids (0 = none) and a score table.  *)
(* FixUniq = FALSE is the named deviation AsIs_UniqPhaseIgnoresSentB: the  *)
(* unique-id phase does not consult the set of right individuals already   *)
(* sent, so two left individuals sharing an id with one right individual   *)
(* both match it.                                                          *)
(***************************************************************************)
EXTENDS MatchingOps

CONSTANTS NL, NR,          \* numbers of left / right individuals
          W, Cap,          \* workers (Jobs) and channel capacity
          PtrL, PtrR,      \* pointer of each individual (Seq of Int)
          UidL, UidR,      \* unique id of each individual (Seq of Int, 0 = none)
          Score,           \* Score[i][j]: weighted similarity of left i and right j (Int)
          Threshold,       \* MinimumWeightedSimilarity
          PreferAbove,     \* PreferPointerAbove
          FixUniq          \* TRUE: the unique-id phase claims the right individual atomically

FirstR(u) == LET S == {j \in 1..NR : UidR[j] = u} IN IF S = {} THEN 0 ELSE CHOOSE j \in S : \A k \in S : j <= k
ByPtr(p) == LET S == {j \in 1..NR : PtrR[j] = p} IN IF S = {} THEN 0 ELSE CHOOSE j \in S : \A k \in S : j <= k

\* sort.SliceStable by similarity, descending: ties keep their order of arrival
RECURSIVE InsertStable(_, _), SortFrom(_, _, _)
InsertStable(sorted, e) ==
  LET P == {q \in 0..Len(sorted) : \A z \in 1..q : Score[sorted[z].l][sorted[z].r] >= Score[e.l][e.r]}
      q == CHOOSE q \in P : \A q2 \in P : q2 <= q
  IN SubSeq(sorted, 1, q) \o <<e>> \o SubSeq(sorted, q + 1, Len(sorted))
SortFrom(pl, acc, q) == IF q > Len(pl) THEN acc ELSE SortFrom(pl, InsertStable(acc, pl[q]), q + 1)
SortDesc(pl) == SortFrom(pl, <<>>, 1)

(* --fair algorithm Compare
variables
  jobs = <<>>, jobsClosed = FALSE,
  results = <<>>, resultsClosed = FALSE,
  sims = <<>>, simsClosed = FALSE,
  winners = <<>>, winnersClosed = FALSE,
  totals = 1, totalsClosed = FALSE,       \* number of values waiting in the totals channel (capacity 1)
  mutex = FALSE,
  sentA = {}, sentB = {},
  uniqDone = 0, ptrDone = 0, procDone = 0,
  final = <<>>, done = FALSE;

define
  Job(l, r, c) == [l |-> l, r |-> r, certain |-> c]
end define;

process uniq \in 1..W
variables ui = self, ub = 0;
begin
U0: while ui <= NL /\ NR > 0 do
      ub := IF UidL[ui] # 0 THEN FirstR(UidL[ui]) ELSE 0;
      if ub # 0 then
        if FixUniq then
Uc:       if PtrR[ub] \in sentB then
            ub := 0;
          else
            sentB := sentB \cup {PtrR[ub]};       \* LoadOrStore: claim the right individual
          end if;
        end if;
      end if;
Ub:   if ub # 0 then
Ul:     await ~mutex; mutex := TRUE;                          \* adjustTotal
Ut:     await totals < 1; totals := totals + 1; mutex := FALSE;
U1:     await Len(jobs) < Cap; jobs := Append(jobs, Job(ui, ub, TRUE));
U2:     sentA := sentA \cup {PtrL[ui]};
U3:     sentB := sentB \cup {PtrR[ub]};
      end if;
U4:   ui := ui + W;
    end while;
U5: uniqDone := uniqDone + 1;
end process;

process ptr \in (W + 1)..(2 * W)
variables pi = self - W, pb = 0;
begin
P0: await uniqDone = W;                                       \* WorkerPool.Wait of the unique-id phase
P1: while pi <= NL /\ NR > 0 do
      if PtrL[pi] \in sentA then
        pb := 0;
      else
        pb := ByPtr(PtrL[pi]);
      end if;
P2:   if pb # 0 /\ PtrR[pb] \in sentB then
        pb := 0;
      end if;
P3:   if pb # 0 /\ Score[pi][pb] >= PreferAbove then
Pl:     await ~mutex; mutex := TRUE;
Pt:     await totals < 1; totals := totals + 1; mutex := FALSE;
P4:     await Len(jobs) < Cap; jobs := Append(jobs, Job(pi, pb, TRUE));
P5:     sentA := sentA \cup {PtrL[pi]};
P6:     sentB := sentB \cup {PtrR[pb]};
      end if;
P7:   pi := pi + W;
    end while;
P8: ptrDone := ptrDone + 1;
end process;

process matrix = 2 * W + 1
variables ma = 1, mc = 1;
begin
M0: await ptrDone = W;
    totalsClosed := TRUE;
M1: while ma <= NL do
      if PtrL[ma] \in sentA then
        ma := ma + 1;
      else
        mc := 1;
M2:     while mc <= NR do
          if PtrR[mc] \notin sentB then
M3:         await Len(jobs) < Cap; jobs := Append(jobs, Job(ma, mc, FALSE));
          end if;
M4:       mc := mc + 1;
        end while;
        ma := ma + 1;
      end if;
    end while;
M5: jobsClosed := TRUE;
end process;

process proc \in (2 * W + 2)..(3 * W + 1)
variables pj = Job(0, 0, FALSE);
begin
K0: while TRUE do
      await jobs # <<>> \/ jobsClosed;
      if jobs = <<>> then
        goto K2;
      else
        pj := Head(jobs); jobs := Tail(jobs);
K1:     await Len(results) < Cap; results := Append(results, pj);
      end if;
    end while;
K2: procDone := procDone + 1;
end process;

process closer = 3 * W + 2
begin
Z0: await procDone = W;
    resultsClosed := TRUE;
end process;

process coll = 3 * W + 3
variables cnx = Job(0, 0, FALSE);
begin
C0: while ~(results = <<>> /\ resultsClosed /\ totals = 0 /\ totalsClosed) do
      either
        await totals > 0; totals := totals - 1;
      or
        await results # <<>>;
        cnx := Head(results); results := Tail(results);
C1:     await Len(sims) < Cap; sims := Append(sims, cnx);
      end either;
    end while;
C2: simsClosed := TRUE;
end process;

process win = 3 * W + 4
variables ws = Job(0, 0, FALSE), wpool = <<>>, wfL = {}, wfR = {}, wk = 1;
begin
W0: while ~(sims = <<>> /\ simsClosed) do
      await sims # <<>> \/ simsClosed;
      if sims # <<>> then
        ws := Head(sims); sims := Tail(sims);
        if ws.certain then
W1:       await Len(winners) < Cap; winners := Append(winners, [l |-> ws.l, r |-> ws.r]);
          wfL := wfL \cup {ws.l}; wfR := wfR \cup {ws.r};
        else
          wpool := Append(wpool, ws);
        end if;
      end if;
    end while;
    \* sort.SliceStable by similarity, descending: ties keep their order of arrival
W2: wpool := SortDesc(wpool);
    wk := 1;
W3: while wk <= Len(wpool) /\ Score[wpool[wk].l][wpool[wk].r] >= Threshold do
      if wpool[wk].l \notin wfL /\ wpool[wk].r \notin wfR then
W4:     await Len(winners) < Cap; winners := Append(winners, [l |-> wpool[wk].l, r |-> wpool[wk].r]);
        wfL := wfL \cup {wpool[wk].l}; wfR := wfR \cup {wpool[wk].r};
      end if;
W5:   wk := wk + 1;
    end while;
    wk := 1;
W6: while wk <= NL do
      if wk \notin wfL then
W7:     await Len(winners) < Cap; winners := Append(winners, [l |-> wk, r |-> None]);
      end if;
W8:   wk := wk + 1;
    end while;
    wk := 1;
W9: while wk <= NR do
      if wk \notin wfR then
Wa:     await Len(winners) < Cap; winners := Append(winners, [l |-> None, r |-> wk]);
      end if;
Wb:   wk := wk + 1;
    end while;
Wc: winnersClosed := TRUE;
end process;

process main = 3 * W + 5
begin
X0: while ~(winners = <<>> /\ winnersClosed) do
      await winners # <<>> \/ winnersClosed;
      if winners # <<>> then
        final := Append(final, Head(winners)); winners := Tail(winners);
      end if;
    end while;
X1: done := TRUE;
end process;
end algorithm; *)
\* BEGIN TRANSLATION
VARIABLES pc, jobs, jobsClosed, results, resultsClosed, sims, simsClosed, 
          winners, winnersClosed, totals, totalsClosed, mutex, sentA, sentB, 
          uniqDone, ptrDone, procDone, final, done

(* define statement *)
Job(l, r, c) == [l |-> l, r |-> r, certain |-> c]

VARIABLES ui, ub, pi, pb, ma, mc, pj, cnx, ws, wpool, wfL, wfR, wk

vars == << pc, jobs, jobsClosed, results, resultsClosed, sims, simsClosed, 
           winners, winnersClosed, totals, totalsClosed, mutex, sentA, sentB, 
           uniqDone, ptrDone, procDone, final, done, ui, ub, pi, pb, ma, mc, 
           pj, cnx, ws, wpool, wfL, wfR, wk >>

ProcSet == (1..W) \cup ((W + 1)..(2 * W)) \cup {2 * W + 1} \cup ((2 * W + 2)..(3 * W + 1)) \cup {3 * W + 2} \cup {3 * W + 3} \cup {3 * W + 4} \cup {3 * W + 5}

Init == (* Global variables *)
        /\ jobs = <<>>
        /\ jobsClosed = FALSE
        /\ results = <<>>
        /\ resultsClosed = FALSE
        /\ sims = <<>>
        /\ simsClosed = FALSE
        /\ winners = <<>>
        /\ winnersClosed = FALSE
        /\ totals = 1
        /\ totalsClosed = FALSE
        /\ mutex = FALSE
        /\ sentA = {}
        /\ sentB = {}
        /\ uniqDone = 0
        /\ ptrDone = 0
        /\ procDone = 0
        /\ final = <<>>
        /\ done = FALSE
        (* Process uniq *)
        /\ ui = [self \in 1..W |-> self]
        /\ ub = [self \in 1..W |-> 0]
        (* Process ptr *)
        /\ pi = [self \in (W + 1)..(2 * W) |-> self - W]
        /\ pb = [self \in (W + 1)..(2 * W) |-> 0]
        (* Process matrix *)
        /\ ma = 1
        /\ mc = 1
        (* Process proc *)
        /\ pj = [self \in (2 * W + 2)..(3 * W + 1) |-> Job(0, 0, FALSE)]
        (* Process coll *)
        /\ cnx = Job(0, 0, FALSE)
        (* Process win *)
        /\ ws = Job(0, 0, FALSE)
        /\ wpool = <<>>
        /\ wfL = {}
        /\ wfR = {}
        /\ wk = 1
        /\ pc = [self \in ProcSet |-> CASE self \in 1..W -> "U0"
                                        [] self \in (W + 1)..(2 * W) -> "P0"
                                        [] self = 2 * W + 1 -> "M0"
                                        [] self \in (2 * W + 2)..(3 * W + 1) -> "K0"
                                        [] self = 3 * W + 2 -> "Z0"
                                        [] self = 3 * W + 3 -> "C0"
                                        [] self = 3 * W + 4 -> "W0"
                                        [] self = 3 * W + 5 -> "X0"]

U0(self) == /\ pc[self] = "U0"
            /\ IF ui[self] <= NL /\ NR > 0
                  THEN /\ ub' = [ub EXCEPT ![self] = IF UidL[ui[self]] # 0 THEN FirstR(UidL[ui[self]]) ELSE 0]
                       /\ IF ub'[self] # 0
                             THEN /\ IF FixUniq
                                        THEN /\ pc' = [pc EXCEPT ![self] = "Uc"]
                                        ELSE /\ pc' = [pc EXCEPT ![self] = "Ub"]
                             ELSE /\ pc' = [pc EXCEPT ![self] = "Ub"]
                  ELSE /\ pc' = [pc EXCEPT ![self] = "U5"]
                       /\ ub' = ub
            /\ UNCHANGED << jobs, jobsClosed, results, resultsClosed, sims, 
                            simsClosed, winners, winnersClosed, totals, 
                            totalsClosed, mutex, sentA, sentB, uniqDone, 
                            ptrDone, procDone, final, done, ui, pi, pb, ma, mc, 
                            pj, cnx, ws, wpool, wfL, wfR, wk >>

Ub(self) == /\ pc[self] = "Ub"
            /\ IF ub[self] # 0
                  THEN /\ pc' = [pc EXCEPT ![self] = "Ul"]
                  ELSE /\ pc' = [pc EXCEPT ![self] = "U4"]
            /\ UNCHANGED << jobs, jobsClosed, results, resultsClosed, sims, 
                            simsClosed, winners, winnersClosed, totals, 
                            totalsClosed, mutex, sentA, sentB, uniqDone, 
                            ptrDone, procDone, final, done, ui, ub, pi, pb, ma, 
                            mc, pj, cnx, ws, wpool, wfL, wfR, wk >>

Ul(self) == /\ pc[self] = "Ul"
            /\ ~mutex
            /\ mutex' = TRUE
            /\ pc' = [pc EXCEPT ![self] = "Ut"]
            /\ UNCHANGED << jobs, jobsClosed, results, resultsClosed, sims, 
                            simsClosed, winners, winnersClosed, totals, 
                            totalsClosed, sentA, sentB, uniqDone, ptrDone, 
                            procDone, final, done, ui, ub, pi, pb, ma, mc, pj, 
                            cnx, ws, wpool, wfL, wfR, wk >>

Ut(self) == /\ pc[self] = "Ut"
            /\ totals < 1
            /\ totals' = totals + 1
            /\ mutex' = FALSE
            /\ pc' = [pc EXCEPT ![self] = "U1"]
            /\ UNCHANGED << jobs, jobsClosed, results, resultsClosed, sims, 
                            simsClosed, winners, winnersClosed, totalsClosed, 
                            sentA, sentB, uniqDone, ptrDone, procDone, final, 
                            done, ui, ub, pi, pb, ma, mc, pj, cnx, ws, wpool, 
                            wfL, wfR, wk >>

U1(self) == /\ pc[self] = "U1"
            /\ Len(jobs) < Cap
            /\ jobs' = Append(jobs, Job(ui[self], ub[self], TRUE))
            /\ pc' = [pc EXCEPT ![self] = "U2"]
            /\ UNCHANGED << jobsClosed, results, resultsClosed, sims, 
                            simsClosed, winners, winnersClosed, totals, 
                            totalsClosed, mutex, sentA, sentB, uniqDone, 
                            ptrDone, procDone, final, done, ui, ub, pi, pb, ma, 
                            mc, pj, cnx, ws, wpool, wfL, wfR, wk >>

U2(self) == /\ pc[self] = "U2"
            /\ sentA' = (sentA \cup {PtrL[ui[self]]})
            /\ pc' = [pc EXCEPT ![self] = "U3"]
            /\ UNCHANGED << jobs, jobsClosed, results, resultsClosed, sims, 
                            simsClosed, winners, winnersClosed, totals, 
                            totalsClosed, mutex, sentB, uniqDone, ptrDone, 
                            procDone, final, done, ui, ub, pi, pb, ma, mc, pj, 
                            cnx, ws, wpool, wfL, wfR, wk >>

U3(self) == /\ pc[self] = "U3"
            /\ sentB' = (sentB \cup {PtrR[ub[self]]})
            /\ pc' = [pc EXCEPT ![self] = "U4"]
            /\ UNCHANGED << jobs, jobsClosed, results, resultsClosed, sims, 
                            simsClosed, winners, winnersClosed, totals, 
                            totalsClosed, mutex, sentA, uniqDone, ptrDone, 
                            procDone, final, done, ui, ub, pi, pb, ma, mc, pj, 
                            cnx, ws, wpool, wfL, wfR, wk >>

U4(self) == /\ pc[self] = "U4"
            /\ ui' = [ui EXCEPT ![self] = ui[self] + W]
            /\ pc' = [pc EXCEPT ![self] = "U0"]
            /\ UNCHANGED << jobs, jobsClosed, results, resultsClosed, sims, 
                            simsClosed, winners, winnersClosed, totals, 
                            totalsClosed, mutex, sentA, sentB, uniqDone, 
                            ptrDone, procDone, final, done, ub, pi, pb, ma, mc, 
                            pj, cnx, ws, wpool, wfL, wfR, wk >>

Uc(self) == /\ pc[self] = "Uc"
            /\ IF PtrR[ub[self]] \in sentB
                  THEN /\ ub' = [ub EXCEPT ![self] = 0]
                       /\ sentB' = sentB
                  ELSE /\ sentB' = (sentB \cup {PtrR[ub[self]]})
                       /\ ub' = ub
            /\ pc' = [pc EXCEPT ![self] = "Ub"]
            /\ UNCHANGED << jobs, jobsClosed, results, resultsClosed, sims, 
                            simsClosed, winners, winnersClosed, totals, 
                            totalsClosed, mutex, sentA, uniqDone, ptrDone, 
                            procDone, final, done, ui, pi, pb, ma, mc, pj, cnx, 
                            ws, wpool, wfL, wfR, wk >>

U5(self) == /\ pc[self] = "U5"
            /\ uniqDone' = uniqDone + 1
            /\ pc' = [pc EXCEPT ![self] = "Done"]
            /\ UNCHANGED << jobs, jobsClosed, results, resultsClosed, sims, 
                            simsClosed, winners, winnersClosed, totals, 
                            totalsClosed, mutex, sentA, sentB, ptrDone, 
                            procDone, final, done, ui, ub, pi, pb, ma, mc, pj, 
                            cnx, ws, wpool, wfL, wfR, wk >>

uniq(self) == U0(self) \/ Ub(self) \/ Ul(self) \/ Ut(self) \/ U1(self)
                 \/ U2(self) \/ U3(self) \/ U4(self) \/ Uc(self)
                 \/ U5(self)

P0(self) == /\ pc[self] = "P0"
            /\ uniqDone = W
            /\ pc' = [pc EXCEPT ![self] = "P1"]
            /\ UNCHANGED << jobs, jobsClosed, results, resultsClosed, sims, 
                            simsClosed, winners, winnersClosed, totals, 
                            totalsClosed, mutex, sentA, sentB, uniqDone, 
                            ptrDone, procDone, final, done, ui, ub, pi, pb, ma, 
                            mc, pj, cnx, ws, wpool, wfL, wfR, wk >>

P1(self) == /\ pc[self] = "P1"
            /\ IF pi[self] <= NL /\ NR > 0
                  THEN /\ IF PtrL[pi[self]] \in sentA
                             THEN /\ pb' = [pb EXCEPT ![self] = 0]
                             ELSE /\ pb' = [pb EXCEPT ![self] = ByPtr(PtrL[pi[self]])]
                       /\ pc' = [pc EXCEPT ![self] = "P2"]
                  ELSE /\ pc' = [pc EXCEPT ![self] = "P8"]
                       /\ pb' = pb
            /\ UNCHANGED << jobs, jobsClosed, results, resultsClosed, sims, 
                            simsClosed, winners, winnersClosed, totals, 
                            totalsClosed, mutex, sentA, sentB, uniqDone, 
                            ptrDone, procDone, final, done, ui, ub, pi, ma, mc, 
                            pj, cnx, ws, wpool, wfL, wfR, wk >>

P2(self) == /\ pc[self] = "P2"
            /\ IF pb[self] # 0 /\ PtrR[pb[self]] \in sentB
                  THEN /\ pb' = [pb EXCEPT ![self] = 0]
                  ELSE /\ TRUE
                       /\ pb' = pb
            /\ pc' = [pc EXCEPT ![self] = "P3"]
            /\ UNCHANGED << jobs, jobsClosed, results, resultsClosed, sims, 
                            simsClosed, winners, winnersClosed, totals, 
                            totalsClosed, mutex, sentA, sentB, uniqDone, 
                            ptrDone, procDone, final, done, ui, ub, pi, ma, mc, 
                            pj, cnx, ws, wpool, wfL, wfR, wk >>

P3(self) == /\ pc[self] = "P3"
            /\ IF pb[self] # 0 /\ Score[pi[self]][pb[self]] >= PreferAbove
                  THEN /\ pc' = [pc EXCEPT ![self] = "Pl"]
                  ELSE /\ pc' = [pc EXCEPT ![self] = "P7"]
            /\ UNCHANGED << jobs, jobsClosed, results, resultsClosed, sims, 
                            simsClosed, winners, winnersClosed, totals, 
                            totalsClosed, mutex, sentA, sentB, uniqDone, 
                            ptrDone, procDone, final, done, ui, ub, pi, pb, ma, 
                            mc, pj, cnx, ws, wpool, wfL, wfR, wk >>

Pl(self) == /\ pc[self] = "Pl"
            /\ ~mutex
            /\ mutex' = TRUE
            /\ pc' = [pc EXCEPT ![self] = "Pt"]
            /\ UNCHANGED << jobs, jobsClosed, results, resultsClosed, sims, 
                            simsClosed, winners, winnersClosed, totals, 
                            totalsClosed, sentA, sentB, uniqDone, ptrDone, 
                            procDone, final, done, ui, ub, pi, pb, ma, mc, pj, 
                            cnx, ws, wpool, wfL, wfR, wk >>

Pt(self) == /\ pc[self] = "Pt"
            /\ totals < 1
            /\ totals' = totals + 1
            /\ mutex' = FALSE
            /\ pc' = [pc EXCEPT ![self] = "P4"]
            /\ UNCHANGED << jobs, jobsClosed, results, resultsClosed, sims, 
                            simsClosed, winners, winnersClosed, totalsClosed, 
                            sentA, sentB, uniqDone, ptrDone, procDone, final, 
                            done, ui, ub, pi, pb, ma, mc, pj, cnx, ws, wpool, 
                            wfL, wfR, wk >>

P4(self) == /\ pc[self] = "P4"
            /\ Len(jobs) < Cap
            /\ jobs' = Append(jobs, Job(pi[self], pb[self], TRUE))
            /\ pc' = [pc EXCEPT ![self] = "P5"]
            /\ UNCHANGED << jobsClosed, results, resultsClosed, sims, 
                            simsClosed, winners, winnersClosed, totals, 
                            totalsClosed, mutex, sentA, sentB, uniqDone, 
                            ptrDone, procDone, final, done, ui, ub, pi, pb, ma, 
                            mc, pj, cnx, ws, wpool, wfL, wfR, wk >>

P5(self) == /\ pc[self] = "P5"
            /\ sentA' = (sentA \cup {PtrL[pi[self]]})
            /\ pc' = [pc EXCEPT ![self] = "P6"]
            /\ UNCHANGED << jobs, jobsClosed, results, resultsClosed, sims, 
                            simsClosed, winners, winnersClosed, totals, 
                            totalsClosed, mutex, sentB, uniqDone, ptrDone, 
                            procDone, final, done, ui, ub, pi, pb, ma, mc, pj, 
                            cnx, ws, wpool, wfL, wfR, wk >>

P6(self) == /\ pc[self] = "P6"
            /\ sentB' = (sentB \cup {PtrR[pb[self]]})
            /\ pc' = [pc EXCEPT ![self] = "P7"]
            /\ UNCHANGED << jobs, jobsClosed, results, resultsClosed, sims, 
                            simsClosed, winners, winnersClosed, totals, 
                            totalsClosed, mutex, sentA, uniqDone, ptrDone, 
                            procDone, final, done, ui, ub, pi, pb, ma, mc, pj, 
                            cnx, ws, wpool, wfL, wfR, wk >>

P7(self) == /\ pc[self] = "P7"
            /\ pi' = [pi EXCEPT ![self] = pi[self] + W]
            /\ pc' = [pc EXCEPT ![self] = "P1"]
            /\ UNCHANGED << jobs, jobsClosed, results, resultsClosed, sims, 
                            simsClosed, winners, winnersClosed, totals, 
                            totalsClosed, mutex, sentA, sentB, uniqDone, 
                            ptrDone, procDone, final, done, ui, ub, pb, ma, mc, 
                            pj, cnx, ws, wpool, wfL, wfR, wk >>

P8(self) == /\ pc[self] = "P8"
            /\ ptrDone' = ptrDone + 1
            /\ pc' = [pc EXCEPT ![self] = "Done"]
            /\ UNCHANGED << jobs, jobsClosed, results, resultsClosed, sims, 
                            simsClosed, winners, winnersClosed, totals, 
                            totalsClosed, mutex, sentA, sentB, uniqDone, 
                            procDone, final, done, ui, ub, pi, pb, ma, mc, pj, 
                            cnx, ws, wpool, wfL, wfR, wk >>

ptr(self) == P0(self) \/ P1(self) \/ P2(self) \/ P3(self) \/ Pl(self)
                \/ Pt(self) \/ P4(self) \/ P5(self) \/ P6(self) \/ P7(self)
                \/ P8(self)

M0 == /\ pc[2 * W + 1] = "M0"
      /\ ptrDone = W
      /\ totalsClosed' = TRUE
      /\ pc' = [pc EXCEPT ![2 * W + 1] = "M1"]
      /\ UNCHANGED << jobs, jobsClosed, results, resultsClosed, sims, 
                      simsClosed, winners, winnersClosed, totals, mutex, sentA, 
                      sentB, uniqDone, ptrDone, procDone, final, done, ui, ub, 
                      pi, pb, ma, mc, pj, cnx, ws, wpool, wfL, wfR, wk >>

M1 == /\ pc[2 * W + 1] = "M1"
      /\ IF ma <= NL
            THEN /\ IF PtrL[ma] \in sentA
                       THEN /\ ma' = ma + 1
                            /\ pc' = [pc EXCEPT ![2 * W + 1] = "M1"]
                            /\ mc' = mc
                       ELSE /\ mc' = 1
                            /\ pc' = [pc EXCEPT ![2 * W + 1] = "M2"]
                            /\ ma' = ma
            ELSE /\ pc' = [pc EXCEPT ![2 * W + 1] = "M5"]
                 /\ UNCHANGED << ma, mc >>
      /\ UNCHANGED << jobs, jobsClosed, results, resultsClosed, sims, 
                      simsClosed, winners, winnersClosed, totals, totalsClosed, 
                      mutex, sentA, sentB, uniqDone, ptrDone, procDone, final, 
                      done, ui, ub, pi, pb, pj, cnx, ws, wpool, wfL, wfR, wk >>

M2 == /\ pc[2 * W + 1] = "M2"
      /\ IF mc <= NR
            THEN /\ IF PtrR[mc] \notin sentB
                       THEN /\ pc' = [pc EXCEPT ![2 * W + 1] = "M3"]
                       ELSE /\ pc' = [pc EXCEPT ![2 * W + 1] = "M4"]
                 /\ ma' = ma
            ELSE /\ ma' = ma + 1
                 /\ pc' = [pc EXCEPT ![2 * W + 1] = "M1"]
      /\ UNCHANGED << jobs, jobsClosed, results, resultsClosed, sims, 
                      simsClosed, winners, winnersClosed, totals, totalsClosed, 
                      mutex, sentA, sentB, uniqDone, ptrDone, procDone, final, 
                      done, ui, ub, pi, pb, mc, pj, cnx, ws, wpool, wfL, wfR, 
                      wk >>

M4 == /\ pc[2 * W + 1] = "M4"
      /\ mc' = mc + 1
      /\ pc' = [pc EXCEPT ![2 * W + 1] = "M2"]
      /\ UNCHANGED << jobs, jobsClosed, results, resultsClosed, sims, 
                      simsClosed, winners, winnersClosed, totals, totalsClosed, 
                      mutex, sentA, sentB, uniqDone, ptrDone, procDone, final, 
                      done, ui, ub, pi, pb, ma, pj, cnx, ws, wpool, wfL, wfR, 
                      wk >>

M3 == /\ pc[2 * W + 1] = "M3"
      /\ Len(jobs) < Cap
      /\ jobs' = Append(jobs, Job(ma, mc, FALSE))
      /\ pc' = [pc EXCEPT ![2 * W + 1] = "M4"]
      /\ UNCHANGED << jobsClosed, results, resultsClosed, sims, simsClosed, 
                      winners, winnersClosed, totals, totalsClosed, mutex, 
                      sentA, sentB, uniqDone, ptrDone, procDone, final, done, 
                      ui, ub, pi, pb, ma, mc, pj, cnx, ws, wpool, wfL, wfR, wk >>

M5 == /\ pc[2 * W + 1] = "M5"
      /\ jobsClosed' = TRUE
      /\ pc' = [pc EXCEPT ![2 * W + 1] = "Done"]
      /\ UNCHANGED << jobs, results, resultsClosed, sims, simsClosed, winners, 
                      winnersClosed, totals, totalsClosed, mutex, sentA, sentB, 
                      uniqDone, ptrDone, procDone, final, done, ui, ub, pi, pb, 
                      ma, mc, pj, cnx, ws, wpool, wfL, wfR, wk >>

matrix == M0 \/ M1 \/ M2 \/ M4 \/ M3 \/ M5

K0(self) == /\ pc[self] = "K0"
            /\ jobs # <<>> \/ jobsClosed
            /\ IF jobs = <<>>
                  THEN /\ pc' = [pc EXCEPT ![self] = "K2"]
                       /\ UNCHANGED << jobs, pj >>
                  ELSE /\ pj' = [pj EXCEPT ![self] = Head(jobs)]
                       /\ jobs' = Tail(jobs)
                       /\ pc' = [pc EXCEPT ![self] = "K1"]
            /\ UNCHANGED << jobsClosed, results, resultsClosed, sims, 
                            simsClosed, winners, winnersClosed, totals, 
                            totalsClosed, mutex, sentA, sentB, uniqDone, 
                            ptrDone, procDone, final, done, ui, ub, pi, pb, ma, 
                            mc, cnx, ws, wpool, wfL, wfR, wk >>

K1(self) == /\ pc[self] = "K1"
            /\ Len(results) < Cap
            /\ results' = Append(results, pj[self])
            /\ pc' = [pc EXCEPT ![self] = "K0"]
            /\ UNCHANGED << jobs, jobsClosed, resultsClosed, sims, simsClosed, 
                            winners, winnersClosed, totals, totalsClosed, 
                            mutex, sentA, sentB, uniqDone, ptrDone, procDone, 
                            final, done, ui, ub, pi, pb, ma, mc, pj, cnx, ws, 
                            wpool, wfL, wfR, wk >>

K2(self) == /\ pc[self] = "K2"
            /\ procDone' = procDone + 1
            /\ pc' = [pc EXCEPT ![self] = "Done"]
            /\ UNCHANGED << jobs, jobsClosed, results, resultsClosed, sims, 
                            simsClosed, winners, winnersClosed, totals, 
                            totalsClosed, mutex, sentA, sentB, uniqDone, 
                            ptrDone, final, done, ui, ub, pi, pb, ma, mc, pj, 
                            cnx, ws, wpool, wfL, wfR, wk >>

proc(self) == K0(self) \/ K1(self) \/ K2(self)

Z0 == /\ pc[3 * W + 2] = "Z0"
      /\ procDone = W
      /\ resultsClosed' = TRUE
      /\ pc' = [pc EXCEPT ![3 * W + 2] = "Done"]
      /\ UNCHANGED << jobs, jobsClosed, results, sims, simsClosed, winners, 
                      winnersClosed, totals, totalsClosed, mutex, sentA, sentB, 
                      uniqDone, ptrDone, procDone, final, done, ui, ub, pi, pb, 
                      ma, mc, pj, cnx, ws, wpool, wfL, wfR, wk >>

closer == Z0

C0 == /\ pc[3 * W + 3] = "C0"
      /\ IF ~(results = <<>> /\ resultsClosed /\ totals = 0 /\ totalsClosed)
            THEN /\ \/ /\ totals > 0
                       /\ totals' = totals - 1
                       /\ pc' = [pc EXCEPT ![3 * W + 3] = "C0"]
                       /\ UNCHANGED <<results, cnx>>
                    \/ /\ results # <<>>
                       /\ cnx' = Head(results)
                       /\ results' = Tail(results)
                       /\ pc' = [pc EXCEPT ![3 * W + 3] = "C1"]
                       /\ UNCHANGED totals
            ELSE /\ pc' = [pc EXCEPT ![3 * W + 3] = "C2"]
                 /\ UNCHANGED << results, totals, cnx >>
      /\ UNCHANGED << jobs, jobsClosed, resultsClosed, sims, simsClosed, 
                      winners, winnersClosed, totalsClosed, mutex, sentA, 
                      sentB, uniqDone, ptrDone, procDone, final, done, ui, ub, 
                      pi, pb, ma, mc, pj, ws, wpool, wfL, wfR, wk >>

C1 == /\ pc[3 * W + 3] = "C1"
      /\ Len(sims) < Cap
      /\ sims' = Append(sims, cnx)
      /\ pc' = [pc EXCEPT ![3 * W + 3] = "C0"]
      /\ UNCHANGED << jobs, jobsClosed, results, resultsClosed, simsClosed, 
                      winners, winnersClosed, totals, totalsClosed, mutex, 
                      sentA, sentB, uniqDone, ptrDone, procDone, final, done, 
                      ui, ub, pi, pb, ma, mc, pj, cnx, ws, wpool, wfL, wfR, wk >>

C2 == /\ pc[3 * W + 3] = "C2"
      /\ simsClosed' = TRUE
      /\ pc' = [pc EXCEPT ![3 * W + 3] = "Done"]
      /\ UNCHANGED << jobs, jobsClosed, results, resultsClosed, sims, winners, 
                      winnersClosed, totals, totalsClosed, mutex, sentA, sentB, 
                      uniqDone, ptrDone, procDone, final, done, ui, ub, pi, pb, 
                      ma, mc, pj, cnx, ws, wpool, wfL, wfR, wk >>

coll == C0 \/ C1 \/ C2

W0 == /\ pc[3 * W + 4] = "W0"
      /\ IF ~(sims = <<>> /\ simsClosed)
            THEN /\ sims # <<>> \/ simsClosed
                 /\ IF sims # <<>>
                       THEN /\ ws' = Head(sims)
                            /\ sims' = Tail(sims)
                            /\ IF ws'.certain
                                  THEN /\ pc' = [pc EXCEPT ![3 * W + 4] = "W1"]
                                       /\ wpool' = wpool
                                  ELSE /\ wpool' = Append(wpool, ws')
                                       /\ pc' = [pc EXCEPT ![3 * W + 4] = "W0"]
                       ELSE /\ pc' = [pc EXCEPT ![3 * W + 4] = "W0"]
                            /\ UNCHANGED << sims, ws, wpool >>
            ELSE /\ pc' = [pc EXCEPT ![3 * W + 4] = "W2"]
                 /\ UNCHANGED << sims, ws, wpool >>
      /\ UNCHANGED << jobs, jobsClosed, results, resultsClosed, simsClosed, 
                      winners, winnersClosed, totals, totalsClosed, mutex, 
                      sentA, sentB, uniqDone, ptrDone, procDone, final, done, 
                      ui, ub, pi, pb, ma, mc, pj, cnx, wfL, wfR, wk >>

W1 == /\ pc[3 * W + 4] = "W1"
      /\ Len(winners) < Cap
      /\ winners' = Append(winners, [l |-> ws.l, r |-> ws.r])
      /\ wfL' = (wfL \cup {ws.l})
      /\ wfR' = (wfR \cup {ws.r})
      /\ pc' = [pc EXCEPT ![3 * W + 4] = "W0"]
      /\ UNCHANGED << jobs, jobsClosed, results, resultsClosed, sims, 
                      simsClosed, winnersClosed, totals, totalsClosed, mutex, 
                      sentA, sentB, uniqDone, ptrDone, procDone, final, done, 
                      ui, ub, pi, pb, ma, mc, pj, cnx, ws, wpool, wk >>

W2 == /\ pc[3 * W + 4] = "W2"
      /\ wpool' = SortDesc(wpool)
      /\ wk' = 1
      /\ pc' = [pc EXCEPT ![3 * W + 4] = "W3"]
      /\ UNCHANGED << jobs, jobsClosed, results, resultsClosed, sims, 
                      simsClosed, winners, winnersClosed, totals, totalsClosed, 
                      mutex, sentA, sentB, uniqDone, ptrDone, procDone, final, 
                      done, ui, ub, pi, pb, ma, mc, pj, cnx, ws, wfL, wfR >>

W3 == /\ pc[3 * W + 4] = "W3"
      /\ IF wk <= Len(wpool) /\ Score[wpool[wk].l][wpool[wk].r] >= Threshold
            THEN /\ IF wpool[wk].l \notin wfL /\ wpool[wk].r \notin wfR
                       THEN /\ pc' = [pc EXCEPT ![3 * W + 4] = "W4"]
                       ELSE /\ pc' = [pc EXCEPT ![3 * W + 4] = "W5"]
                 /\ wk' = wk
            ELSE /\ wk' = 1
                 /\ pc' = [pc EXCEPT ![3 * W + 4] = "W6"]
      /\ UNCHANGED << jobs, jobsClosed, results, resultsClosed, sims, 
                      simsClosed, winners, winnersClosed, totals, totalsClosed, 
                      mutex, sentA, sentB, uniqDone, ptrDone, procDone, final, 
                      done, ui, ub, pi, pb, ma, mc, pj, cnx, ws, wpool, wfL, 
                      wfR >>

W5 == /\ pc[3 * W + 4] = "W5"
      /\ wk' = wk + 1
      /\ pc' = [pc EXCEPT ![3 * W + 4] = "W3"]
      /\ UNCHANGED << jobs, jobsClosed, results, resultsClosed, sims, 
                      simsClosed, winners, winnersClosed, totals, totalsClosed, 
                      mutex, sentA, sentB, uniqDone, ptrDone, procDone, final, 
                      done, ui, ub, pi, pb, ma, mc, pj, cnx, ws, wpool, wfL, 
                      wfR >>

W4 == /\ pc[3 * W + 4] = "W4"
      /\ Len(winners) < Cap
      /\ winners' = Append(winners, [l |-> wpool[wk].l, r |-> wpool[wk].r])
      /\ wfL' = (wfL \cup {wpool[wk].l})
      /\ wfR' = (wfR \cup {wpool[wk].r})
      /\ pc' = [pc EXCEPT ![3 * W + 4] = "W5"]
      /\ UNCHANGED << jobs, jobsClosed, results, resultsClosed, sims, 
                      simsClosed, winnersClosed, totals, totalsClosed, mutex, 
                      sentA, sentB, uniqDone, ptrDone, procDone, final, done, 
                      ui, ub, pi, pb, ma, mc, pj, cnx, ws, wpool, wk >>

W6 == /\ pc[3 * W + 4] = "W6"
      /\ IF wk <= NL
            THEN /\ IF wk \notin wfL
                       THEN /\ pc' = [pc EXCEPT ![3 * W + 4] = "W7"]
                       ELSE /\ pc' = [pc EXCEPT ![3 * W + 4] = "W8"]
                 /\ wk' = wk
            ELSE /\ wk' = 1
                 /\ pc' = [pc EXCEPT ![3 * W + 4] = "W9"]
      /\ UNCHANGED << jobs, jobsClosed, results, resultsClosed, sims, 
                      simsClosed, winners, winnersClosed, totals, totalsClosed, 
                      mutex, sentA, sentB, uniqDone, ptrDone, procDone, final, 
                      done, ui, ub, pi, pb, ma, mc, pj, cnx, ws, wpool, wfL, 
                      wfR >>

W8 == /\ pc[3 * W + 4] = "W8"
      /\ wk' = wk + 1
      /\ pc' = [pc EXCEPT ![3 * W + 4] = "W6"]
      /\ UNCHANGED << jobs, jobsClosed, results, resultsClosed, sims, 
                      simsClosed, winners, winnersClosed, totals, totalsClosed, 
                      mutex, sentA, sentB, uniqDone, ptrDone, procDone, final, 
                      done, ui, ub, pi, pb, ma, mc, pj, cnx, ws, wpool, wfL, 
                      wfR >>

W7 == /\ pc[3 * W + 4] = "W7"
      /\ Len(winners) < Cap
      /\ winners' = Append(winners, [l |-> wk, r |-> None])
      /\ pc' = [pc EXCEPT ![3 * W + 4] = "W8"]
      /\ UNCHANGED << jobs, jobsClosed, results, resultsClosed, sims, 
                      simsClosed, winnersClosed, totals, totalsClosed, mutex, 
                      sentA, sentB, uniqDone, ptrDone, procDone, final, done, 
                      ui, ub, pi, pb, ma, mc, pj, cnx, ws, wpool, wfL, wfR, wk >>

W9 == /\ pc[3 * W + 4] = "W9"
      /\ IF wk <= NR
            THEN /\ IF wk \notin wfR
                       THEN /\ pc' = [pc EXCEPT ![3 * W + 4] = "Wa"]
                       ELSE /\ pc' = [pc EXCEPT ![3 * W + 4] = "Wb"]
            ELSE /\ pc' = [pc EXCEPT ![3 * W + 4] = "Wc"]
      /\ UNCHANGED << jobs, jobsClosed, results, resultsClosed, sims, 
                      simsClosed, winners, winnersClosed, totals, totalsClosed, 
                      mutex, sentA, sentB, uniqDone, ptrDone, procDone, final, 
                      done, ui, ub, pi, pb, ma, mc, pj, cnx, ws, wpool, wfL, 
                      wfR, wk >>

Wb == /\ pc[3 * W + 4] = "Wb"
      /\ wk' = wk + 1
      /\ pc' = [pc EXCEPT ![3 * W + 4] = "W9"]
      /\ UNCHANGED << jobs, jobsClosed, results, resultsClosed, sims, 
                      simsClosed, winners, winnersClosed, totals, totalsClosed, 
                      mutex, sentA, sentB, uniqDone, ptrDone, procDone, final, 
                      done, ui, ub, pi, pb, ma, mc, pj, cnx, ws, wpool, wfL, 
                      wfR >>

Wa == /\ pc[3 * W + 4] = "Wa"
      /\ Len(winners) < Cap
      /\ winners' = Append(winners, [l |-> None, r |-> wk])
      /\ pc' = [pc EXCEPT ![3 * W + 4] = "Wb"]
      /\ UNCHANGED << jobs, jobsClosed, results, resultsClosed, sims, 
                      simsClosed, winnersClosed, totals, totalsClosed, mutex, 
                      sentA, sentB, uniqDone, ptrDone, procDone, final, done, 
                      ui, ub, pi, pb, ma, mc, pj, cnx, ws, wpool, wfL, wfR, wk >>

Wc == /\ pc[3 * W + 4] = "Wc"
      /\ winnersClosed' = TRUE
      /\ pc' = [pc EXCEPT ![3 * W + 4] = "Done"]
      /\ UNCHANGED << jobs, jobsClosed, results, resultsClosed, sims, 
                      simsClosed, winners, totals, totalsClosed, mutex, sentA, 
                      sentB, uniqDone, ptrDone, procDone, final, done, ui, ub, 
                      pi, pb, ma, mc, pj, cnx, ws, wpool, wfL, wfR, wk >>

win == W0 \/ W1 \/ W2 \/ W3 \/ W5 \/ W4 \/ W6 \/ W8 \/ W7 \/ W9 \/ Wb \/ Wa
          \/ Wc

X0 == /\ pc[3 * W + 5] = "X0"
      /\ IF ~(winners = <<>> /\ winnersClosed)
            THEN /\ winners # <<>> \/ winnersClosed
                 /\ IF winners # <<>>
                       THEN /\ final' = Append(final, Head(winners))
                            /\ winners' = Tail(winners)
                       ELSE /\ TRUE
                            /\ UNCHANGED << winners, final >>
                 /\ pc' = [pc EXCEPT ![3 * W + 5] = "X0"]
            ELSE /\ pc' = [pc EXCEPT ![3 * W + 5] = "X1"]
                 /\ UNCHANGED << winners, final >>
      /\ UNCHANGED << jobs, jobsClosed, results, resultsClosed, sims, 
                      simsClosed, winnersClosed, totals, totalsClosed, mutex, 
                      sentA, sentB, uniqDone, ptrDone, procDone, done, ui, ub, 
                      pi, pb, ma, mc, pj, cnx, ws, wpool, wfL, wfR, wk >>

X1 == /\ pc[3 * W + 5] = "X1"
      /\ done' = TRUE
      /\ pc' = [pc EXCEPT ![3 * W + 5] = "Done"]
      /\ UNCHANGED << jobs, jobsClosed, results, resultsClosed, sims, 
                      simsClosed, winners, winnersClosed, totals, totalsClosed, 
                      mutex, sentA, sentB, uniqDone, ptrDone, procDone, final, 
                      ui, ub, pi, pb, ma, mc, pj, cnx, ws, wpool, wfL, wfR, wk >>

main == X0 \/ X1

(* Allow infinite stuttering to prevent deadlock on termination. *)
Terminating == /\ \A self \in ProcSet: pc[self] = "Done"
               /\ UNCHANGED vars

Next == matrix \/ closer \/ coll \/ win \/ main
           \/ (\E self \in 1..W: uniq(self))
           \/ (\E self \in (W + 1)..(2 * W): ptr(self))
           \/ (\E self \in (2 * W + 2)..(3 * W + 1): proc(self))
           \/ Terminating

Spec == /\ Init /\ [][Next]_vars
        /\ WF_vars(Next)

Termination == <>(\A self \in ProcSet: pc[self] = "Done")

\* END TRANSLATION

---------------------------------------------------------------------------
(* The properties, on the list of results `final` once Compare has returned *)
In == [NL |-> NL, NR |-> NR, PtrL |-> PtrL, PtrR |-> PtrR, UidL |-> UidL, UidR |-> UidR, Full |-> Score, Pool |-> Score,
       Threshold |-> Threshold, PreferAbove |-> PreferAbove, FixUniq |-> FixUniq]
EveryLeftOnce  == done => EveryLeftOnceP(In, final)
EveryRightOnce == done => EveryRightOnceP(In, final)
NoEmptyResult  == NoEmptyResultP(final)
PairsJustified == PairsJustifiedP(In, final)
\* capacity of every channel is respected (the model's own sanity)
Bounded == Len(jobs) <= Cap /\ Len(results) <= Cap /\ Len(sims) <= Cap /\ Len(winners) <= Cap /\ totals \in 0..1
\* when nothing ties the result is the sequential one, whatever the schedule and the number of workers
ScheduleIndependent == (done /\ NoTiesI(In)) => PairsOf(final) = SeqPairsI(In)
Terminates == <>done
=============================================================================
