---------------------------- MODULE MatchingLogOps ----------------------------
(* The per-goroutine logs of a real IndividualNodes.Compare run (hooks of build tag verif) against the processes *)
(* of Matching.tla.  Given the hit / miss outcomes a goroutine logged for its loads of the shared maps, the rest  *)
(* of its log is determined by the process it implements:                                                       *)
(*   uniq w   : for ui = w+1, w+1+W, ... with a right individual sharing the unique id:                          *)
(*                claimB(b, hit) | claimB(b, miss) send(a, b) storeA(a) storeB(b)          (labels Uc U1 U2 U3)   *)
(*   ptr w    : loadA(a, hit) | loadA(a, miss) [ loadB(b, hit) | loadB(b, miss) [ send storeA storeB ] ]  (P1..P6)*)
(*   matrix   : closeTotals, then per a: loadA, per b: loadB, send for every pair not stored, closeJobs  (M0..M5) *)
(*   proc w   : recv(j) send(j) pairs                                                                  (K0 K1)   *)
(* and across goroutines: a right individual is claimed by one uniq worker only; a ptr worker never misses what *)
(* a uniq worker stored (the barrier P0), the matrix sees everything stored (M0); jobs are conserved.           *)
EXTENDS Sequences, Integers, FiniteSets, TLC

P(n) == "P" \o ToString(n)
LogOf(e, role, w) == LET k == role \o ":" \o ToString(w) IN IF k \in DOMAIN e.logs THEN e.logs[k] ELSE <<>>
FirstRI(I, u) == LET S == {r \in 1..I.NR : I.UidR[r] = u} IN IF u = 0 \/ S = {} THEN 0 ELSE CHOOSE r \in S : \A r2 \in S : r <= r2
ByPtrI(I, p) == LET S == {r \in 1..I.NR : I.PtrR[r] = p} IN IF S = {} THEN 0 ELSE CHOOSE r \in S : \A r2 \in S : r <= r2
SeqSetL(s) == {s[k] : k \in 1..Len(s)}

\* everything stored in the shared maps, by phase
NWorkers(e) == IF e.jobs < 1 THEN 1 ELSE e.jobs      \* ConcurrentJobs(): at least one
Workers(e) == 0..(NWorkers(e) - 1)
EventsOf(e, role) == UNION {SeqSetL(LogOf(e, role, w)) : w \in Workers(e)}
StoredA(e, roles) == {ev[2] : ev \in {x \in UNION {EventsOf(e, r) : r \in roles} : x[1] = "storeA"}}
StoredB(e, roles) == {ev[2] : ev \in {x \in UNION {EventsOf(e, r) : r \in roles} : x[1] = "storeB" \/ (x[1] = "claimB" /\ x[3] = "miss")}}
Sends(e, roles) == {<<ev[2], ev[3]>> : ev \in {x \in UNION {EventsOf(e, r) : r \in roles} : x[1] = "send"}}

RECURSIVE UniqWalk(_, _, _, _)
UniqWalk(I, W, ui, log) ==
  IF ui > I.NL \/ I.NR = 0 THEN log = <<>>
  ELSE LET ub == FirstRI(I, I.UidL[ui]) IN
       IF ub = 0 THEN UniqWalk(I, W, ui + W, log)
       ELSE /\ Len(log) >= 1 /\ Len(log[1]) = 3 /\ log[1][1] = "claimB" /\ log[1][2] = P(I.PtrR[ub]) /\ log[1][3] \in {"hit", "miss"}
            /\ IF log[1][3] = "hit" THEN UniqWalk(I, W, ui + W, Tail(log))
               ELSE /\ Len(log) >= 4
                    /\ log[2] = <<"send", P(I.PtrL[ui]), P(I.PtrR[ub])>> /\ log[3] = <<"storeA", P(I.PtrL[ui])>> /\ log[4] = <<"storeB", P(I.PtrR[ub])>>
                    /\ UniqWalk(I, W, ui + W, SubSeq(log, 5, Len(log)))

RECURSIVE PtrWalk(_, _, _, _)
PtrWalk(I, W, pi, log) ==
  IF pi > I.NL \/ I.NR = 0 THEN log = <<>>
  ELSE /\ Len(log) >= 1 /\ Len(log[1]) = 3 /\ log[1][1] = "loadA" /\ log[1][2] = P(I.PtrL[pi]) /\ log[1][3] \in {"hit", "miss"}
       /\ IF log[1][3] = "hit" THEN PtrWalk(I, W, pi + W, Tail(log))
          ELSE LET pb == ByPtrI(I, I.PtrL[pi]) IN
               IF pb = 0 THEN PtrWalk(I, W, pi + W, Tail(log))
               ELSE /\ Len(log) >= 2 /\ Len(log[2]) = 3 /\ log[2][1] = "loadB" /\ log[2][2] = P(I.PtrR[pb]) /\ log[2][3] \in {"hit", "miss"}
                    /\ IF log[2][3] = "hit" \/ I.Full[pi][pb] < I.PreferAbove THEN PtrWalk(I, W, pi + W, SubSeq(log, 3, Len(log)))
                       ELSE /\ Len(log) >= 5
                            /\ log[3] = <<"send", P(I.PtrL[pi]), P(I.PtrR[pb])>> /\ log[4] = <<"storeA", P(I.PtrL[pi])>> /\ log[5] = <<"storeB", P(I.PtrR[pb])>>
                            /\ PtrWalk(I, W, pi + W, SubSeq(log, 6, Len(log)))

\* the matrix runs after both phases: its log is a function of what was stored
RECURSIVE MatrixRow(_, _, _, _, _)
MatrixRow(I, a, c, sB, acc) ==
  IF c > I.NR THEN acc
  ELSE IF P(I.PtrR[c]) \in sB THEN MatrixRow(I, a, c + 1, sB, Append(acc, <<"loadB", P(I.PtrR[c]), "hit">>))
       ELSE MatrixRow(I, a, c + 1, sB, acc \o <<<<"loadB", P(I.PtrR[c]), "miss">>, <<"send", P(I.PtrL[a]), P(I.PtrR[c])>>>>)
RECURSIVE MatrixLog(_, _, _, _, _)
MatrixLog(I, a, sA, sB, acc) ==
  IF a > I.NL THEN Append(acc, <<"closeJobs">>)
  ELSE IF P(I.PtrL[a]) \in sA THEN MatrixLog(I, a + 1, sA, sB, Append(acc, <<"loadA", P(I.PtrL[a]), "hit">>))
       ELSE MatrixLog(I, a + 1, sA, sB, MatrixRow(I, a, 1, sB, Append(acc, <<"loadA", P(I.PtrL[a]), "miss">>)))

ProcWalk(log) == /\ Len(log) % 2 = 0
                 /\ \A k \in 1..(Len(log) \div 2) : log[2 * k - 1][1] = "recv" /\ log[2 * k][1] = "send" /\ Tail(log[2 * k - 1]) = Tail(log[2 * k])
Count(e, roles, point) == LET RECURSIVE Sum(_) Sum(S) == IF S = {} THEN 0 ELSE LET x == CHOOSE y \in S : TRUE IN
                                   Cardinality({k \in 1..Len(LogOf(e, x[1], x[2])) : LogOf(e, x[1], x[2])[k][1] = point}) + Sum(S \ {x})
                          IN Sum(roles \X Workers(e))

LogClauses(e) ==
  LET I == e.I  W == NWorkers(e) IN
  <<  <<"uniq-workers-follow-the-process", \A w \in Workers(e) : UniqWalk(I, W, w + 1, LogOf(e, "uniq", w))>>,
      <<"ptr-workers-follow-the-process", \A w \in Workers(e) : PtrWalk(I, W, w + 1, LogOf(e, "ptr", w))>>,
      <<"a-right-individual-is-claimed-once",
          \A b \in {ev[2] : ev \in {x \in EventsOf(e, "uniq") : x[1] = "claimB"}} :
             Cardinality({w \in Workers(e) : \E k \in 1..Len(LogOf(e, "uniq", w)) : LogOf(e, "uniq", w)[k] = <<"claimB", b, "miss">>}) = 1
             /\ \A w \in Workers(e) : Cardinality({k \in 1..Len(LogOf(e, "uniq", w)) : LogOf(e, "uniq", w)[k] = <<"claimB", b, "miss">>}) <= 1>>,
      <<"ptr-phase-starts-after-the-uniq-phase",       \* barrier P0: nothing a uniq worker stored is missed by a ptr worker
          \A ev \in EventsOf(e, "ptr") : /\ (ev[1] = "loadA" /\ ev[3] = "miss") => ev[2] \notin StoredA(e, {"uniq"})
                                         /\ (ev[1] = "loadB" /\ ev[3] = "miss") => ev[2] \notin StoredB(e, {"uniq"})
                                         /\ (ev[1] = "loadA" /\ ev[3] = "hit") => ev[2] \in StoredA(e, {"uniq", "ptr"})
                                         /\ (ev[1] = "loadB" /\ ev[3] = "hit") => ev[2] \in StoredB(e, {"uniq", "ptr"})>>,
      <<"matrix-runs-after-both-phases",               \* M0: its whole log is determined by what was stored
          LogOf(e, "matrix", 0) = MatrixLog(I, 1, StoredA(e, {"uniq", "ptr"}), StoredB(e, {"uniq", "ptr"}), <<<<"closeTotals">>>>)>>,
      <<"proc-workers-forward-what-they-receive", \A w \in Workers(e) : ProcWalk(LogOf(e, "proc", w))>>,
      <<"jobs-are-conserved",
          /\ {<<ev[2], ev[3]>> : ev \in {x \in EventsOf(e, "proc") : x[1] = "recv"}} = Sends(e, {"uniq", "ptr"}) \cup {<<ev[2], ev[3]>> : ev \in {x \in SeqSetL(LogOf(e, "matrix", 0)) : x[1] = "send"}}
          /\ Count(e, {"proc"}, "recv") = Count(e, {"uniq", "ptr"}, "send") + Cardinality({k \in 1..Len(LogOf(e, "matrix", 0)) : LogOf(e, "matrix", 0)[k][1] = "send"})>>,
      <<"certain-matches-are-the-jobs-of-the-two-phases",
          {<<ev[2], ev[3]>> : ev \in {x \in SeqSetL(LogOf(e, "win", 0)) : x[1] = "emit" /\ x[4] = "certain"}} = Sends(e, {"uniq", "ptr"})>>,
      <<"results-are-the-emitted-winners",
          {<<ev[2], ev[3]>> : ev \in {x \in SeqSetL(LogOf(e, "win", 0)) : x[1] = "emit"}}
            = {<<P(I.PtrL[e.final[k].l]), P(I.PtrR[e.final[k].r])>> : k \in {x \in 1..Len(e.final) : e.final[x].l > 0 /\ e.final[x].r > 0}}>>  >>
LogFailed(e) == SelectSeq(LogClauses(e), LAMBDA c : ~c[2])
=============================================================================
