------------------------------- MODULE CodecOps -------------------------------
(***************************************************************************)
(* The GEDCOM line codec of elliotchance/gedcom: the line writer, the line *)
(* reader and the decoder as the state machine it is (one named action per *)
(* branch of Decoder.Decode).  Properties C01, C02, C03.                   *)
(*                                                                         *)
(* Text is Seq(0..255).  A document is a forest in preorder: a sequence of *)
(* records [lvl, ptr, tag, val] where lvl is the depth of the node.        *)
(*                                                                         *)
(* The pure operators (ParseLine, StepLine, Decode, Encode) are shared by  *)
(*   - the exhaustive machine below (MC_Codec_*.cfg),                      *)
(*   - the trace specification trace/CodecTrace.tla, which judges          *)
(*     observations recorded from the real decoder/encoder.                *)
(***************************************************************************)
EXTENDS Chars, FiniteSets, TLC

CONSTANTS
  AsIsSingleDigit,       \* deviation: the level is ONE digit (lineRegexp `^(\d) +`)
  AsIsRolePanics,        \* deviation: HUSB/WIFE/CHIL before any FAM crashes (needsFamily)
  AsIsClampEmptyPanics   \* deviation: over-deep first line under AllowInvalidIndents crashes

T_HUSB == <<72, 85, 83, 66>>
T_WIFE == <<87, 73, 70, 69>>
T_CHIL == <<67, 72, 73, 76>>
T_FAM  == <<70, 65, 77>>
T_INDI == <<73, 78, 68, 73>>
RoleTags   == {T_HUSB, T_WIFE, T_CHIL}
RecordTags == {T_INDI, T_FAM}          \* record lines carry no value

BOM == <<239, 187, 191>>
HasBOM(b) == Len(b) >= 3 /\ SubSeq(b, 1, 3) = BOM

---------------------------------------------------------------------------
(* The line grammar:   level SP+ [ '@' non-@+ '@' SP ] word+ [SP] rest      *)
Bad == [ok |-> FALSE]

ParseLine(s) ==
  LET p0 == IF AsIsSingleDigit
            THEN (IF Len(s) >= 1 /\ IsDigit(s[1]) THEN 2 ELSE 1)
            ELSE SkipDigits(s, 1)
  IN
  IF p0 = 1 THEN Bad ELSE
  LET p1 == SkipSp(s, p0) IN
  IF p1 = p0 THEN Bad ELSE
  LET hasAt == p1 <= Len(s) /\ s[p1] = AT
      close == IF hasAt THEN FindFrom(s, p1 + 1, AT) ELSE 0
      ptrOk == hasAt /\ close > p1 + 1 /\ close + 1 <= Len(s) /\ s[close + 1] = SP
  IN
  IF hasAt /\ ~ptrOk THEN Bad ELSE         \* the tag cannot start with '@'
  LET p2 == IF ptrOk THEN close + 2 ELSE p1
      p3 == SkipWord(s, p2)
  IN
  IF p3 = p2 THEN Bad ELSE
  LET p4 == IF p3 <= Len(s) /\ s[p3] = SP THEN p3 + 1 ELSE p3 IN
  [ok    |-> TRUE,
   level |-> DecValue(s, 1, p0 - 1, 0),
   ptr   |-> IF ptrOk THEN Sub(s, p1 + 1, close - 1) ELSE <<>>,
   tag   |-> Sub(s, p2, p3 - 1),
   val   |-> Sub(s, p4, Len(s))]

---------------------------------------------------------------------------
(* Decoder state.  open[k] = position (in forest) of the open node at depth *)
(* k-1; fam = a family line has been seen; prev = position of the node that *)
(* receives continuation text (0 = none).                                   *)
S0 == [forest |-> <<>>, open |-> <<>>, fam |-> FALSE, prev |-> 0,
       out |-> "run", line |-> 0, wl |-> <<>>]

TrimPrev(st) ==
  IF st.prev = 0 THEN st ELSE [st EXCEPT !.forest[st.prev].val = TrimSpace(@)]

Fail(st, what) == [st EXCEPT !.out = what]

\* attach the parsed line r at depth `depth` (0 = new root)
Attach(st, r, depth) ==
  LET pos   == Len(st.forest) + 1
      node  == [lvl |-> depth, ptr |-> r.ptr, tag |-> r.tag,
                val |-> IF r.tag \in RecordTags THEN <<>> ELSE r.val]
      open2 == IF depth = 0 THEN <<pos>>
               ELSE IF depth >= Len(st.open) THEN Append(st.open, pos)        \* descend
               ELSE Append(SubSeq(st.open, 1, depth), pos)                    \* stay / dedent
  IN [TrimPrev(st) EXCEPT !.forest = Append(@, node), !.open = open2, !.prev = pos,
                          !.fam = (st.fam \/ r.tag = T_FAM), !.wl = Append(@, r.level)]

\* Which branch of Decode handles line s in state st (st.line already counted).
Branch(st, s, opts) ==
  IF s = <<>> THEN (IF opts.multi /\ st.prev # 0 THEN "BlankAppend" ELSE "BlankSkip")
  ELSE LET r == ParseLine(s)
           orphan == r.ok /\ r.tag \in RoleTags /\ ~st.fam      \* husband/wife/child line before any family
       IN
  IF orphan /\ AsIsRolePanics THEN "RoleWithoutFamily"
  \* a line that cannot be turned into a node continues the previous value under
  \* AllowMultiLine, and is otherwise an error naming the line
  ELSE IF ~r.ok \/ orphan THEN
         (IF opts.multi /\ st.prev # 0 THEN "Continue" ELSE IF orphan THEN "RoleWithoutFamily" ELSE "Reject")
  ELSE IF r.level = 0 THEN "AttachRoot"
  ELSE IF r.level - 1 >= Len(st.open) THEN
         (IF ~opts.lenient THEN "PanicIndent"
          ELSE IF Len(st.open) = 0 THEN "ClampEmpty" ELSE "ClampIndent")
  ELSE IF r.level >= Len(st.open) THEN "Descend"
  ELSE IF r.level < Len(st.open) - 1 THEN "Dedent"
  ELSE "Stay"

Branches == {"BlankAppend", "BlankSkip", "Continue", "Reject", "RoleWithoutFamily", "AttachRoot",
             "PanicIndent", "ClampEmpty", "ClampIndent", "Descend", "Dedent", "Stay"}

StepLine(st, s, opts) ==
  LET st0 == [st EXCEPT !.line = @ + 1]           \* every CR and every LF ends a line
      b   == Branch(st0, s, opts)
      r   == ParseLine(s)
  IN CASE b = "BlankSkip"   -> st0
       [] b = "BlankAppend" -> [st0 EXCEPT !.forest[st0.prev].val = Append(@, LF)]
       [] b = "Continue"    -> [st0 EXCEPT !.forest[st0.prev].val = @ \o <<LF>> \o s]
       [] b = "Reject"      -> Fail(st0, "error")
       [] b = "RoleWithoutFamily" -> Fail(st0, IF AsIsRolePanics THEN "crash" ELSE "error")
       [] b = "AttachRoot"  -> Attach(st0, r, 0)
       [] b = "PanicIndent" -> Fail(st0, "panic-indent")
       [] b = "ClampEmpty"  -> Fail(st0, IF AsIsClampEmptyPanics THEN "crash" ELSE "error")
       [] b = "ClampIndent" -> Attach(st0, r, Len(st0.open))      \* one below the deepest open node
       [] OTHER             -> Attach(st0, r, r.level)            \* Descend / Stay / Dedent

\* split at every CR or LF; k terminators give k+1 segments (the last is read at EOF)
RECURSIVE Lines(_, _, _)
Lines(b, i, acc) ==
  IF i > Len(b) THEN <<acc>>
  ELSE IF b[i] = CR \/ b[i] = LF THEN <<acc>> \o Lines(b, i + 1, <<>>)
  ELSE Lines(b, i + 1, Append(acc, b[i]))

RECURSIVE Run(_, _, _, _)
Run(st, ls, k, opts) ==
  IF k > Len(ls) \/ st.out # "run" THEN st ELSE Run(StepLine(st, ls[k], opts), ls, k + 1, opts)

Body(b) == IF HasBOM(b) THEN Sub(b, 4, Len(b)) ELSE b

\* The documentation leaves open whether a CR LF pair counts as one line or two
\* (the decoder counts every CR and every LF).  alt = the line number when each
\* pair among the terminators of lines 1..line-1 is counted once.
RECURSIVE CrlfPairs(_, _, _, _)
CrlfPairs(b, i, seen, lim) ==
  IF i > Len(b) \/ seen >= lim THEN 0
  ELSE IF b[i] = CR /\ i < Len(b) /\ b[i + 1] = LF /\ seen + 2 <= lim
       THEN 1 + CrlfPairs(b, i + 2, seen + 2, lim)
  ELSE IF b[i] = CR \/ b[i] = LF THEN CrlfPairs(b, i + 1, seen + 1, lim)
  ELSE CrlfPairs(b, i + 1, seen, lim)

Result(fin, b) ==
  IF fin.out = "run" THEN [out |-> "doc", bom |-> HasBOM(b), forest |-> TrimPrev(fin).forest]
  ELSE [out |-> fin.out, line |-> fin.line,
        alt |-> fin.line - CrlfPairs(Body(b), 1, 0, fin.line - 1)]

\* The whole decoder as a function of the bytes and the options.
Decode(b, opts) == Result(Run(S0, Lines(Body(b), 1, <<>>), 1, opts), b)

---------------------------------------------------------------------------
(* The encoder: one line per node in preorder, level printed in decimal.    *)
EncodeLine(n) ==
  DecDigits(n.lvl) \o <<SP>>
  \o (IF n.ptr # <<>> THEN <<AT>> \o n.ptr \o <<AT, SP>> ELSE <<>>)
  \o n.tag
  \o (IF n.val # <<>> THEN <<SP>> \o n.val ELSE <<>>)
  \o <<LF>>

RECURSIVE EncodeForest(_, _)
EncodeForest(f, k) == IF k > Len(f) THEN <<>> ELSE EncodeLine(f[k]) \o EncodeForest(f, k + 1)
Encode(bom, f) == (IF bom THEN BOM ELSE <<>>) \o EncodeForest(f, 1)

---------------------------------------------------------------------------
(* Forest predicates                                                        *)
IsForest(f) ==
  /\ (f # <<>> => f[1].lvl = 0)
  /\ \A i \in 2..Len(f) : f[i].lvl >= 0 /\ f[i].lvl <= f[i - 1].lvl + 1

\* position of the parent of node i (0 for roots): nearest preceding node one level up
ParentOf(f, i) ==
  IF f[i].lvl = 0 THEN 0
  ELSE LET S == {j \in 1..(i - 1) : f[j].lvl = f[i].lvl - 1} IN
       IF S = {} THEN -1 ELSE CHOOSE j \in S : \A j2 \in S : j2 <= j

HasBreak(v) == \E i \in 1..Len(v) : v[i] = CR \/ v[i] = LF
\* documents to which the normal-form claim applies: no line break inside a value
\* and no continuation text glued onto a record line (both arise only with AllowMultiLine)
Clean(f) == \A i \in 1..Len(f) : ~HasBreak(f[i].val) /\ (f[i].tag \in RecordTags => f[i].val = <<>>)


\* C01: Encode ; Decode is the identity on documents built from legal parts
RoundTripOf(bom, f) ==
  LET e == Encode(bom, f)
      d == Decode(e, [multi |-> FALSE, lenient |-> FALSE]) IN
  d.out = "doc" /\ d.forest = f /\ d.bom = bom
=============================================================================
