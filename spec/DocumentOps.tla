----------------------------- MODULE DocumentOps -----------------------------
(***************************************************************************)
(* C13.  A document is the sequence of its root records; a node is         *)
(* [t, v, p, kids] (tag, value, pointer, children).  This module gives     *)
(*   - the effect of every public edit operation on that state (Apply),    *)
(*   - every derived view as a FUNCTION OF THE STATE (Views): in the ideal *)
(*     machine there are no caches, which is exactly what C13 says.        *)
(* Pointers are strings; "@P@" is the reference to pointer P.              *)
(***************************************************************************)
EXTENDS Integers, Sequences, FiniteSets, TLC

Ref(p) == "@" \o p \o "@"
N(t, v, p) == [t |-> t, v |-> v, p |-> p, kids |-> <<>>]

SeqToSet(s) == {s[i] : i \in 1..Len(s)}
Min(S) == CHOOSE m \in S : \A n \in S : m <= n
Max(S) == CHOOSE m \in S : \A n \in S : m >= n
RemoveAt(s, i) == SubSeq(s, 1, i - 1) \o SubSeq(s, i + 1, Len(s))
KidsWithTag(n, t) == SelectSeq(n.kids, LAMBDA k : k.t = t)
Vals(s) == [i \in 1..Len(s) |-> s[i].v]

\* root records
RootsWith(doc, t) == SelectSeq(doc, LAMBDA r : r.t = t)
RootIdx(doc, p) == {i \in 1..Len(doc) : doc[i].p = p}
HasRoot(doc, p) == RootIdx(doc, p) # {}
\* lookup by pointer: the record added LAST under that pointer wins
ByPtr(doc, p) == doc[Max(RootIdx(doc, p))]
IsIndi(doc, p) == HasRoot(doc, p) /\ ByPtr(doc, p).t = "INDI"
IsFam(doc, p)  == HasRoot(doc, p) /\ ByPtr(doc, p).t = "FAM"
\* edits address a record by pointer: the FIRST record with that pointer and tag
IdxOf(doc, t, p) == Min({i \in 1..Len(doc) : doc[i].p = p /\ doc[i].t = t})
Exists(doc, t, p) == \E i \in 1..Len(doc) : doc[i].p = p /\ doc[i].t = t

AddKid(doc, i, k) == [doc EXCEPT ![i].kids = Append(@, k)]
\* the pointer a reference value "@P@" names, if a record with that pointer exists ("" otherwise);
\* strings are only compared, never taken apart
PtrOfRefIn(doc, v) ==
  LET S == {i \in 1..Len(doc) : doc[i].p # "" /\ Ref(doc[i].p) = v} IN
  IF S = {} THEN "" ELSE doc[Min(S)].p

---------------------------------------------------------------------------
(* The edit operations.  op is a record [k, ...]; Enabled says when the     *)
(* harness may issue it; Apply is its effect.                               *)
FirstWithTag(n, t) == LET S == {j \in 1..Len(n.kids) : n.kids[j].t = t} IN IF S = {} THEN 0 ELSE Min(S)

\* FamilyNode.SetHusbandPointer / SetWifePointer: an existing first HUSB (WIFE) line gets the new
\* value AND a new line is appended (the documented behaviour is "set"; the code does both)
SetRolePointer(doc, fi, role, ip) ==
  LET f == doc[fi]
      j == FirstWithTag(f, role)
      f1 == IF j = 0 THEN f ELSE [f EXCEPT !.kids[j].v = Ref(ip)]
  IN [doc EXCEPT ![fi] = [f1 EXCEPT !.kids = Append(@, N(role, Ref(ip), ""))]]

\* FamilyNode.SetHusband(individual) / SetWife: FAMS line on the individual, then the pointer
SetRole(doc, fp, role, ip) ==
  LET ii == IdxOf(doc, "INDI", ip)
      d1 == AddKid(doc, ii, N("FAMS", Ref(fp), ""))
  IN SetRolePointer(d1, IdxOf(d1, "FAM", fp), role, ip)

\* FamilyNode.SetHusband(nil) / SetWife(nil): if the current husband resolves to an individual, drop
\* that individual's FAMS lines for this family and every HUSB line of the family
ClearRole(doc, fp, role) ==
  LET fi == IdxOf(doc, "FAM", fp)
      j  == FirstWithTag(doc[fi], role) IN
  IF j = 0 THEN doc ELSE
  LET ip == PtrOfRefIn(doc, doc[fi].kids[j].v) IN
  IF ~IsIndi(doc, ip) THEN doc ELSE
  LET ii == Max(RootIdx(doc, ip))
      d1 == [doc EXCEPT ![ii].kids = SelectSeq(@, LAMBDA k : ~(k.t = "FAMS" /\ k.v = Ref(fp)))]
  IN [d1 EXCEPT ![fi].kids = SelectSeq(@, LAMBDA k : k.t # role)]

\* FamilyNode.AddChild(individual): FAMC line on the individual, CHIL line on the family
AddChildOp(doc, fp, ip) ==
  LET d1 == AddKid(doc, IdxOf(doc, "INDI", ip), N("FAMC", Ref(fp), ""))
  IN AddKid(d1, IdxOf(d1, "FAM", fp), N("CHIL", Ref(ip), ""))

Enabled(doc, op) ==
  CASE op.k = "AddIndividual" -> ~HasRoot(doc, op.p)
    [] op.k = "AddFamily"     -> ~HasRoot(doc, op.p)
    [] op.k = "AddFamilyWithHusbandAndWife" -> ~HasRoot(doc, op.p) /\ Exists(doc, "INDI", op.h) /\ Exists(doc, "INDI", op.w) /\ op.h # op.w
    [] op.k \in {"SetHusband", "SetWife", "AddChild"} -> Exists(doc, "FAM", op.f) /\ Exists(doc, "INDI", op.i)
    [] op.k \in {"ClearHusband", "ClearWife"} -> Exists(doc, "FAM", op.f)
    [] op.k = "AddNode"       -> Exists(doc, op.rt, op.rp)                       \* record.AddNode(NewNode(t, v, ""))
    [] op.k = "DeleteNode"    -> Exists(doc, op.rt, op.rp) /\ FirstWithTag(doc[IdxOf(doc, op.rt, op.rp)], op.t) # 0
    [] op.k = "SetNodes"      -> Exists(doc, op.rt, op.rp)                       \* record.SetNodes(kids)
    [] op.k = "DocAddNode"    -> TRUE                                           \* doc.AddNode(NewNode(t, v, p))
    [] op.k = "DocDeleteNode" -> Exists(doc, op.rt, op.rp)
    [] op.k = "DocDeleteStale" -> TRUE       \* doc.DeleteNode(handle of a record removed earlier): not a node of the document
    [] op.k = "DocDeleteForeign" -> Exists(doc, op.rt, op.rp)   \* doc.DeleteNode(copy of a record, living in another document)
    [] OTHER -> FALSE

Apply(doc, op) ==
  CASE op.k = "AddIndividual" -> Append(doc, N("INDI", "", op.p))
    [] op.k = "AddFamily"     -> Append(doc, N("FAM", "", op.p))
    [] op.k = "AddFamilyWithHusbandAndWife" ->
         SetRole(SetRole(Append(doc, N("FAM", "", op.p)), op.p, "HUSB", op.h), op.p, "WIFE", op.w)
    [] op.k = "SetHusband"    -> SetRole(doc, op.f, "HUSB", op.i)
    [] op.k = "SetWife"       -> SetRole(doc, op.f, "WIFE", op.i)
    [] op.k = "ClearHusband"  -> ClearRole(doc, op.f, "HUSB")
    [] op.k = "ClearWife"     -> ClearRole(doc, op.f, "WIFE")
    [] op.k = "AddChild"      -> AddChildOp(doc, op.f, op.i)
    [] op.k = "AddNode"       -> AddKid(doc, IdxOf(doc, op.rt, op.rp), N(op.t, op.v, ""))
    [] op.k = "DeleteNode"    -> LET i == IdxOf(doc, op.rt, op.rp) IN
                                 [doc EXCEPT ![i].kids = RemoveAt(@, FirstWithTag(doc[i], op.t))]
    [] op.k = "SetNodes"      -> [doc EXCEPT ![IdxOf(doc, op.rt, op.rp)].kids = op.kids]
    [] op.k = "DocAddNode"    -> Append(doc, N(op.t, op.v, op.p))
    [] op.k = "DocDeleteNode" -> RemoveAt(doc, IdxOf(doc, op.rt, op.rp))
    [] op.k = "DocDeleteStale" -> doc
    [] op.k = "DocDeleteForeign" -> doc

---------------------------------------------------------------------------
(* The views - functions of the state.  Individuals and families are named  *)
(* by their pointers; "" stands for "nil".                                  *)
Ptrs(s) == [i \in 1..Len(s) |-> s[i].p]

\* who a HUSB / WIFE / CHIL value resolves to ("" = nobody / not an individual)
Resolve(doc, v) == LET p == PtrOfRefIn(doc, v) IN IF p # "" /\ IsIndi(doc, p) THEN p ELSE ""
RoleOf(doc, f, role) == LET j == FirstWithTag(f, role) IN IF j = 0 THEN "" ELSE f.kids[j].v
RoleIs(doc, f, role, ip) == RoleOf(doc, f, role) # "" /\ Resolve(doc, RoleOf(doc, f, role)) = ip
HasChildV(f, ip) == \E j \in 1..Len(f.kids) : f.kids[j].t = "CHIL" /\ f.kids[j].v = Ref(ip)

FamView(doc, f) ==
  [husb |-> RoleOf(doc, f, "HUSB"), wife |-> RoleOf(doc, f, "WIFE"), chil |-> Vals(KidsWithTag(f, "CHIL"))]

Fams(doc) == RootsWith(doc, "FAM")
FamiliesOf(doc, ip) == SelectSeq(Fams(doc), LAMBDA f : HasChildV(f, ip) \/ RoleIs(doc, f, "HUSB", ip) \/ RoleIs(doc, f, "WIFE", ip))
RECURSIVE SpousesIn(_, _, _, _)
SpousesIn(doc, fs, k, ip) ==
  IF k > Len(fs) THEN <<>>
  ELSE LET f == fs[k]
           both == RoleOf(doc, f, "HUSB") # "" /\ RoleOf(doc, f, "WIFE") # ""
           a == IF both /\ RoleIs(doc, f, "HUSB", ip) THEN <<Resolve(doc, RoleOf(doc, f, "WIFE"))>> ELSE <<>>
           b == IF both /\ RoleIs(doc, f, "WIFE", ip) THEN <<Resolve(doc, RoleOf(doc, f, "HUSB"))>> ELSE <<>>
       IN a \o b \o SpousesIn(doc, fs, k + 1, ip)
RECURSIVE ChildrenIn(_, _, _)
ChildrenIn(fs, k, ip) ==
  IF k > Len(fs) THEN <<>>
  ELSE (IF HasChildV(fs[k], ip) THEN <<>> ELSE Vals(KidsWithTag(fs[k], "CHIL"))) \o ChildrenIn(fs, k + 1, ip)

IndiView(doc, r) ==
  [names |-> Vals(KidsWithTag(r, "NAME")),
   fams |-> Vals(KidsWithTag(r, "FAMS")),
   famc |-> Vals(KidsWithTag(r, "FAMC")),
   families |-> Ptrs(FamiliesOf(doc, r.p)),
   spouses  |-> SpousesIn(doc, Fams(doc), 1, r.p),
   parents  |-> Ptrs(SelectSeq(FamiliesOf(doc, r.p), LAMBDA f : HasChildV(f, r.p))),
   children |-> ChildrenIn(FamiliesOf(doc, r.p), 1, r.p)]

\* all views of a document whose pointers are unique (the domain in which the views are defined
\* without reference to lookup order)
UniquePointers(doc) == \A i, j \in 1..Len(doc) : (i # j /\ doc[i].p # "") => doc[i].p # doc[j].p
Views(doc) ==
  [individuals |-> Ptrs(RootsWith(doc, "INDI")),
   families    |-> Ptrs(Fams(doc)),
   fam  |-> [i \in 1..Len(Fams(doc)) |-> FamView(doc, Fams(doc)[i])],
   indi |-> [i \in 1..Len(RootsWith(doc, "INDI")) |-> IndiView(doc, RootsWith(doc, "INDI")[i])]]
=============================================================================
