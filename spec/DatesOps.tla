------------------------------- MODULE DatesOps ------------------------------
(***************************************************************************)
(* C04.  The DATE grammar documented on gedcom.Date / DateNode:            *)
(*    date  ::=  [prefix] day month year | [prefix] month year | [prefix] year *)
(*    value ::=  date | between date and date                               *)
(* as (i) a generative machine that writes a sentence token by token and    *)
(* knows what it MEANS, and (ii) a reference parser from text to meaning.   *)
(* TLC checks that the two agree and that printing is a right inverse of    *)
(* parsing; the real parser is bound to both (replay of every generated     *)
(* sentence; trace validation of recorded parses with ParseValue).          *)
(***************************************************************************)
EXTENDS Chars, Calendar, FiniteSets, TLC

Keywords == <<
  [t |-> <<97, 98, 116>>, c |-> "About"],
  [t |-> <<97, 98, 116, 46>>, c |-> "About"],
  [t |-> <<97, 98, 111, 117, 116>>, c |-> "About"],
  [t |-> <<99, 46>>, c |-> "About"],
  [t |-> <<99, 97>>, c |-> "About"],
  [t |-> <<99, 97, 46>>, c |-> "About"],
  [t |-> <<99, 99, 97>>, c |-> "About"],
  [t |-> <<99, 99, 97, 46>>, c |-> "About"],
  [t |-> <<99, 105, 114, 99, 97>>, c |-> "About"],
  [t |-> <<97, 102, 116>>, c |-> "After"],
  [t |-> <<97, 102, 116, 46>>, c |-> "After"],
  [t |-> <<97, 102, 116, 101, 114>>, c |-> "After"],
  [t |-> <<98, 101, 102>>, c |-> "Before"],
  [t |-> <<98, 101, 102, 46>>, c |-> "Before"],
  [t |-> <<98, 101, 102, 111, 114, 101>>, c |-> "Before"]
>>
MonthWords == <<
  [t |-> <<106, 97, 110>>, m |-> 1],
  [t |-> <<106, 97, 110, 117, 97, 114, 121>>, m |-> 1],
  [t |-> <<102, 101, 98>>, m |-> 2],
  [t |-> <<102, 101, 98, 114, 117, 97, 114, 121>>, m |-> 2],
  [t |-> <<109, 97, 114>>, m |-> 3],
  [t |-> <<109, 97, 114, 99, 104>>, m |-> 3],
  [t |-> <<97, 112, 114>>, m |-> 4],
  [t |-> <<97, 112, 114, 105, 108>>, m |-> 4],
  [t |-> <<109, 97, 121>>, m |-> 5],
  [t |-> <<106, 117, 110>>, m |-> 6],
  [t |-> <<106, 117, 110, 101>>, m |-> 6],
  [t |-> <<106, 117, 108>>, m |-> 7],
  [t |-> <<106, 117, 108, 121>>, m |-> 7],
  [t |-> <<97, 117, 103>>, m |-> 8],
  [t |-> <<97, 117, 103, 117, 115, 116>>, m |-> 8],
  [t |-> <<115, 101, 112>>, m |-> 9],
  [t |-> <<115, 101, 112, 116, 101, 109, 98, 101, 114>>, m |-> 9],
  [t |-> <<111, 99, 116>>, m |-> 10],
  [t |-> <<111, 99, 116, 111, 98, 101, 114>>, m |-> 10],
  [t |-> <<110, 111, 118>>, m |-> 11],
  [t |-> <<110, 111, 118, 101, 109, 98, 101, 114>>, m |-> 11],
  [t |-> <<100, 101, 99>>, m |-> 12],
  [t |-> <<100, 101, 99, 101, 109, 98, 101, 114>>, m |-> 12]
>>
BetweenWords == <<<<98, 101, 116, 119, 101, 101, 110>>, <<98, 101, 116>>, <<98, 101, 116, 46>>, <<102, 114, 111, 109>>>>
AndWords == <<<<97, 110, 100>>, <<116, 111>>, <<45>>>>
\* near misses for the month position / trailing text
JunkWords == <<<<102, 111, 111>>, <<115, 101, 112, 116>>, <<106, 97, 110, 117>>, <<109, 97, 105>>, <<120>>>>
Mon3 == <<<<74, 97, 110>>, <<70, 101, 98>>, <<77, 97, 114>>, <<65, 112, 114>>, <<77, 97, 121>>, <<74, 117, 110>>,
          <<74, 117, 108>>, <<65, 117, 103>>, <<83, 101, 112>>, <<79, 99, 116>>, <<78, 111, 118>>, <<68, 101, 99>>>>
CanonWord(c) == CASE c = "About" -> <<65, 98, 116, 46>> [] c = "Before" -> <<66, 101, 102, 46>>
                  [] c = "After" -> <<65, 102, 116, 46>> [] OTHER -> <<>>
W_Bet == <<66, 101, 116, 46>>
W_and == <<97, 110, 100>>

Invalid == [valid |-> FALSE]

---------------------------------------------------------------------------
(* The reference parser: text -> meaning, exactly the documented grammar.   *)

\* tokens = maximal runs of non-space bytes (spaces carry no significance)
RECURSIVE Tokens(_, _, _)
Tokens(s, i, cur) ==
  IF i > Len(s) THEN (IF cur = <<>> THEN <<>> ELSE <<cur>>)
  ELSE IF s[i] = SP THEN (IF cur = <<>> THEN Tokens(s, i + 1, <<>>) ELSE <<cur>> \o Tokens(s, i + 1, <<>>))
  ELSE Tokens(s, i + 1, Append(cur, s[i]))

AllDigits(t) == t # <<>> /\ \A i \in 1..Len(t) : IsDigit(t[i])
KwIndex(t) == LET S == {k \in 1..Len(Keywords) : Keywords[k].t = Lower(t)} IN IF S = {} THEN 0 ELSE CHOOSE k \in S : TRUE
MonIndex(t) == LET S == {k \in 1..Len(MonthWords) : MonthWords[k].t = Lower(t)} IN IF S = {} THEN 0 ELSE CHOOSE k \in S : TRUE
IsBetween(t) == \E k \in 1..Len(BetweenWords) : BetweenWords[k] = Lower(t)
IsAnd(t) == \E k \in 1..Len(AndWords) : AndWords[k] = Lower(t)

BadDate == [ok |-> FALSE]
\* year: 1 to 4 digits, always the absolute year;  day: 1..31 with at most one leading zero
YearOf(t) == IF AllDigits(t) /\ Len(t) <= 4 THEN DecValue(t, 1, Len(t), 0) ELSE 0
DayOf(t)  == IF AllDigits(t) /\ Len(t) <= 2 THEN DecValue(t, 1, Len(t), 0) ELSE 0

ParseDate(toks) ==
  LET k    == IF toks # <<>> THEN KwIndex(toks[1]) ELSE 0
      rest == IF k # 0 THEN Tail(toks) ELSE toks
      c    == IF k # 0 THEN Keywords[k].c ELSE "Exact"
      n    == Len(rest)
  IN
  IF n = 1 THEN
    LET y == YearOf(rest[1]) IN
    IF y >= 1 THEN [ok |-> TRUE, d |-> 0, m |-> 0, y |-> y, c |-> c] ELSE BadDate
  ELSE IF n = 2 THEN
    LET mi == MonIndex(rest[1])  y == YearOf(rest[2]) IN
    IF mi # 0 /\ y >= 1 THEN [ok |-> TRUE, d |-> 0, m |-> MonthWords[mi].m, y |-> y, c |-> c] ELSE BadDate
  ELSE IF n = 3 THEN
    LET d == DayOf(rest[1])  mi == MonIndex(rest[2])  y == YearOf(rest[3]) IN
    IF mi # 0 /\ y >= 1 /\ ValidDay(y, MonthWords[mi].m, d)
    THEN [ok |-> TRUE, d |-> d, m |-> MonthWords[mi].m, y |-> y, c |-> c] ELSE BadDate
  ELSE BadDate

DM(x) == [d |-> x.d, m |-> x.m, y |-> x.y, c |-> x.c]

ParseValue(s) ==
  LET toks == Tokens(s, 1, <<>>) IN
  IF toks # <<>> /\ IsBetween(toks[1]) THEN
    LET A == {k \in 3..(Len(toks) - 1) : IsAnd(toks[k])} IN
    IF A = {} THEN Invalid ELSE
    LET k  == CHOOSE k \in A : \A k2 \in A : k2 <= k
        d1 == ParseDate(SubSeq(toks, 2, k - 1))
        d2 == ParseDate(SubSeq(toks, k + 1, Len(toks))) IN
    IF d1.ok /\ d2.ok THEN [valid |-> TRUE, s |-> DM(d1), e |-> DM(d2)] ELSE Invalid
  ELSE LET d == ParseDate(toks) IN
       IF d.ok THEN [valid |-> TRUE, s |-> DM(d), e |-> DM(d)] ELSE Invalid

---------------------------------------------------------------------------
(* Canonical printing                                                       *)
Join(a, b) == IF a = <<>> THEN b ELSE IF b = <<>> THEN a ELSE a \o <<SP>> \o b
DateStr(x) ==
  Join(Join(Join(CanonWord(x.c), IF x.d # 0 THEN DecDigits(x.d) ELSE <<>>),
            IF x.m # 0 THEN Mon3[x.m] ELSE <<>>),
       DecDigits(x.y))
Canon(mn) == IF mn.s = mn.e THEN DateStr(mn.s)
             ELSE Join(Join(Join(W_Bet, DateStr(mn.s)), W_and), DateStr(mn.e))

=============================================================================
