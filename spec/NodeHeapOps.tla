----------------------------- MODULE NodeHeapOps -----------------------------
(***************************************************************************)
(* C07 C08 C09.  Node trees as values, the kind-specific shallow equality, *)
(* the code's deep-equality algorithm (greedy first-fit matching), copies, *)
(* child permutations and single-node edits, the diff traversal and the    *)
(* merge algorithm - transcribed - and the properties stated over them.    *)
(*                                                                         *)
(* A node is  [t, v, p, x, kids]:  tag, value, pointer (strings that are   *)
(* only compared), x = how the VALUE is to be read by the kind rules       *)
(*    [k |-> "plain"]                                                      *)
(*    [k |-> "date", c |-> "Exact"|"About"|"Before"|"After", y |-> year]   *)
(*    [k |-> "phrase"] | [k |-> "baddate"]                                 *)
(*    [k |-> "uid", u |-> n] | [k |-> "baduid"]                            *)
(* and kids a sequence of nodes.  Object identity is a PATH from the root  *)
(* of an input (<<>> = the root, <<2,1>> = first child of second child);   *)
(* projections of real results carry labels  [s |-> "L"|"R"|"n", path]     *)
(* ("n" = a node allocated by the operation).                              *)
(*                                                                         *)
(* F = record of as-is switches (named deviations of the code):            *)
(*   F.dateFuzzy - DATE equality is the documented fuzzy matrix of         *)
(*                 Date.Equals, which is neither symmetric nor transitive  *)
(*   F.uidBadNeverEq - a malformed _UID equals nothing, not even itself    *)
(*   F.kidsInEquals - the shallow equality of a dateless RESI / EVEN looks  *)
(*                 at its children (places, resp. all children, deeply),   *)
(*                 so a merge that adds to those children makes the merged *)
(*                 node unequal to both originals                          *)
(***************************************************************************)
EXTENDS Integers, Sequences, FiniteSets, TLC

AlwaysEqualTags == {"BIRT", "DEAT", "BURI", "BAPM"}

Min(S) == CHOOSE m \in S : \A n \in S : m <= n
SeqToSet(s) == {s[i] : i \in 1..Len(s)}

KidsWithTag(n, t) == SelectSeq(n.kids, LAMBDA k : k.t = t)

\* --- DATE values (year-only dates: Years() = year + 1/2) --------------------
DSame(l, r) == l.y = r.y
DGt(l, r)   == l.y > r.y
DLt(l, r)   == l.y < r.y
\* F.dateFuzzy (as-is): the documented matrix of Date.Equals - row = right constraint, column = left
\* constraint; "Bef. 1950" equals "1900", and Before/Before, After/After hold in one direction only.
\* It is not an equivalence (not symmetric, not transitive).
\* Ideal: an equivalence - the same day, month and year, Exact and About being interchangeable.
DateEq1(F, l, r) ==
  IF l = r THEN TRUE
  ELSE IF ~F.dateFuzzy THEN l.c \in {"Exact", "About"} /\ r.c \in {"Exact", "About"} /\ DSame(l, r)
  ELSE
  CASE r.c = "Exact"  -> (CASE l.c = "Exact" -> DSame(l, r) [] l.c = "About" -> DSame(l, r)
                            [] l.c = "Before" -> DGt(l, r) [] l.c = "After" -> DLt(l, r))
    [] r.c = "About"  -> (CASE l.c = "Exact" -> DSame(l, r) [] l.c = "About" -> DSame(l, r) [] OTHER -> FALSE)
    [] r.c = "Before" -> (CASE l.c = "Exact" -> DLt(l, r) [] l.c = "Before" -> DLt(l, r) [] OTHER -> FALSE)
    [] r.c = "After"  -> (CASE l.c = "Exact" -> DGt(l, r) [] l.c = "After" -> DGt(l, r) [] OTHER -> FALSE)
DateValEq(F, a, b) ==
  IF a.x.k = "date" /\ b.x.k = "date" THEN DateEq1(F, a.x, b.x)
  ELSE IF a.x.k = "date" \/ b.x.k = "date" THEN FALSE
  ELSE a.v = b.v                       \* phrases and unparsable values: equal only to the same text

RECURSIVE Eq(_, _, _), DeepEqS(_, _, _, _), Greedy(_, _, _, _, _, _)

\* left.Equals(right): dispatch on the kind of the RECEIVER
Eq(F, a, b) ==
  IF a.t \in AlwaysEqualTags THEN b.t = a.t
  ELSE IF a.t = "DATE" THEN b.t = "DATE" /\ DateValEq(F, a, b)
  ELSE IF a.t = "_UID" THEN
    /\ b.t = "_UID"
    /\ IF a.x.k = "uid" /\ b.x.k = "uid" THEN a.x.u = b.x.u
       ELSE IF F.uidBadNeverEq THEN FALSE
       ELSE a.x.k = "baduid" /\ b.x.k = "baduid" /\ a.v = b.v
  ELSE IF a.t = "RESI" THEN
    /\ b.t = "RESI"
    /\ LET da == KidsWithTag(a, "DATE")  db == KidsWithTag(b, "DATE") IN
       \/ \E i \in 1..Len(da), j \in 1..Len(db) : Eq(F, da[i], db[j])
       \/ (da = <<>> /\ db = <<>> /\ (~F.kidsInEquals \/ LET pa == KidsWithTag(a, "PLAC")  pb == KidsWithTag(b, "PLAC") IN
                                    Len(pa) = Len(pb) /\ Greedy(F, pa, pb, 1, {}, FALSE)))
  ELSE IF a.t = "EVEN" THEN
    /\ b.t = "EVEN"
    /\ LET da == KidsWithTag(a, "DATE")  db == KidsWithTag(b, "DATE") IN
       \/ \E i \in 1..Len(da), j \in 1..Len(db) : Eq(F, da[i], db[j])
       \/ (da = <<>> /\ db = <<>> /\ a.v = b.v
             /\ (~F.kidsInEquals \/ (Len(a.kids) = Len(b.kids) /\ Greedy(F, a.kids, b.kids, 1, {}, FALSE))))
  ELSE a.t = b.t /\ a.v = b.v /\ a.p = b.p

\* DeepEqual(l, r); same = l and r are the same object (pointer-identical)
DeepEqS(F, l, r, same) ==
  /\ (same \/ Eq(F, l, r))
  /\ Len(l.kids) = Len(r.kids)
  /\ Greedy(F, l.kids, r.kids, 1, {}, same)
\* DeepEqualNodes: every left child takes the FIRST unused right child it is deep-equal to
Greedy(F, ls, rs, k, used, sameParent) ==
  IF k > Len(ls) THEN TRUE
  ELSE LET S == {i \in 1..Len(rs) : i \notin used /\ DeepEqS(F, ls[k], rs[i], sameParent /\ i = k)} IN
       IF S = {} THEN FALSE ELSE Greedy(F, ls, rs, k + 1, used \cup {Min(S)}, sameParent)
DeepEq(F, l, r) == DeepEqS(F, l, r, FALSE)
DeepEqNodes(F, ls, rs) == Len(ls) = Len(rs) /\ Greedy(F, ls, rs, 1, {}, FALSE)
EqAny(F, a, b) == Eq(F, a, b) \/ Eq(F, b, a)

Ideal == [dateFuzzy |-> FALSE, uidBadNeverEq |-> FALSE, kidsInEquals |-> FALSE]

---------------------------------------------------------------------------
(* Tree surgery by path                                                     *)
RECURSIVE At(_, _), ReplaceAt(_, _, _), NodeCount(_), AllPaths(_, _)
At(n, path) == IF path = <<>> THEN n ELSE At(n.kids[Head(path)], Tail(path))
ReplaceAt(n, path, new) ==
  IF path = <<>> THEN new
  ELSE [n EXCEPT !.kids[Head(path)] = ReplaceAt(n.kids[Head(path)], Tail(path), new)]
NodeCount(n) == 1 + (LET RECURSIVE S(_) S(i) == IF i > Len(n.kids) THEN 0 ELSE NodeCount(n.kids[i]) + S(i + 1) IN S(1))
AllPaths(n, here) == {here} \cup UNION {AllPaths(n.kids[i], Append(here, i)) : i \in 1..Len(n.kids)}

RemoveAt(s, i) == SubSeq(s, 1, i - 1) \o SubSeq(s, i + 1, Len(s))
InsertAtPos(s, i, e) == SubSeq(s, 1, i - 1) \o <<e>> \o SubSeq(s, i, Len(s))   \* e becomes s[i]
PermuteSeq(s, perm) == [i \in 1..Len(s) |-> s[perm[i]]]
IsPerm(perm, n) == Len(perm) = n /\ SeqToSet(perm) = 1..n

Permute(n, path, perm)  == LET x == At(n, path) IN ReplaceAt(n, path, [x EXCEPT !.kids = PermuteSeq(x.kids, perm)])
InsertKid(n, path, pos, new) == LET x == At(n, path) IN ReplaceAt(n, path, [x EXCEPT !.kids = InsertAtPos(x.kids, pos, new)])
DeleteKid(n, path, pos) == LET x == At(n, path) IN ReplaceAt(n, path, [x EXCEPT !.kids = RemoveAt(x.kids, pos)])
ChangeKid(n, path, pos, new) == LET x == At(n, path) IN ReplaceAt(n, path, [x EXCEPT !.kids[pos] = new])
IsPlain(n) == n.x.k = "plain" /\ n.t \notin AlwaysEqualTags \cup {"DATE", "_UID", "RESI", "EVEN"}

\* the tree an edit record produces
ApplyOp(T, op) ==
  CASE op.k = "copy" -> T
    [] op.k = "perm" -> Permute(T, op.path, op.perm)
    [] op.k = "ins"  -> InsertKid(T, op.path, op.pos, op.node)
    [] op.k = "del"  -> DeleteKid(T, op.path, op.pos)
    [] op.k = "chg"  -> ChangeKid(T, op.path, op.pos, op.node)

\* what C07 demands of DeepEqual(T, ApplyOp(T, op))
C07Demand(T, op) ==
  CASE op.k \in {"copy", "perm"} -> "equal"
    [] op.k = "ins" -> (IF IsPlain(op.node) THEN "different" ELSE "any")
    [] op.k = "del" -> (IF IsPlain(At(T, op.path).kids[op.pos]) /\ At(T, op.path).kids[op.pos].kids = <<>> THEN "different" ELSE "any")
    [] op.k = "chg" -> (IF IsPlain(op.node) /\ IsPlain(At(T, op.path).kids[op.pos])
                           /\ ~Eq(Ideal, op.node, At(T, op.path).kids[op.pos]) THEN "different" ELSE "any")

---------------------------------------------------------------------------
(* C08: the diff traversal.  An entry is [l, r, kids] with l, r = [has, path] *)
No == [has |-> FALSE, path |-> <<>>]
Yes(path) == [has |-> TRUE, path |-> path]
EmptyEntry == [l |-> No, r |-> No, kids |-> <<>>]

RECURSIVE Traverse(_, _, _, _, _, _, _), FoldKids(_, _, _, _, _, _, _, _)
\* does entry dc already hold a node Equal to child c (receiver = the entry's node)
EntryMatches(F, L, R, dc, c) ==
  \/ (dc.l.has /\ Eq(F, At(L, dc.l.path), c))
  \/ (dc.r.has /\ Eq(F, At(R, dc.r.path), c))
FoldKids(F, L, R, ks, n, npath, k, isLeft) ==
  IF k > Len(n.kids) THEN ks
  ELSE LET c == n.kids[k]
           cpath == Append(npath, k)
           S == {m \in 1..Len(ks) : EntryMatches(F, L, R, ks[m], c)} IN
       IF S = {} THEN FoldKids(F, L, R, Append(ks, Traverse(F, L, R, EmptyEntry, c, cpath, isLeft)), n, npath, k + 1, isLeft)
       ELSE LET m == Min(S) IN
            FoldKids(F, L, R, [ks EXCEPT ![m] = Traverse(F, L, R, ks[m], c, cpath, isLeft)], n, npath, k + 1, isLeft)
Traverse(F, L, R, nd, n, npath, isLeft) ==
  LET nd1 == IF isLeft /\ ~nd.l.has THEN [nd EXCEPT !.l = Yes(npath)]
             ELSE IF ~isLeft /\ ~nd.r.has THEN [nd EXCEPT !.r = Yes(npath)] ELSE nd
  IN [nd1 EXCEPT !.kids = FoldKids(F, L, R, nd1.kids, n, npath, 1, isLeft)]
CompareNodes(F, L, R) == Traverse(F, L, R, Traverse(F, L, R, EmptyEntry, L, <<>>, TRUE), R, <<>>, FALSE)

\* --- the accounting predicates over an OBSERVED diff.  An observed entry is
\* [l, r, kids] with l, r = [has, s, path]: s says from which input ("L" | "R") the node
\* held really comes (by pointer identity), "n" = from neither.
RECURSIVE Entries(_, _), DiffAllTwoSided(_), DiffShape(_)
\* all entries with their depth
Entries(e, d) == {[e |-> e, d |-> d]} \cup UNION {Entries(e.kids[i], d + 1) : i \in 1..Len(e.kids)}
ValidPath(T, path) ==
  LET RECURSIVE V(_, _) V(n, p) == IF p = <<>> THEN TRUE ELSE Head(p) \in 1..Len(n.kids) /\ V(n.kids[Head(p)], Tail(p)) IN V(T, path)

\* each entry's left/right node is a node of the left/right input at that depth, never both absent
Provenance(L, R, D) ==
  \A x \in Entries(D, 0) :
    /\ (x.e.l.has \/ x.e.r.has)
    /\ (x.e.l.has => x.e.l.s = "L" /\ Len(x.e.l.path) = x.d /\ ValidPath(L, x.e.l.path))
    /\ (x.e.r.has => x.e.r.s = "R" /\ Len(x.e.r.path) = x.d /\ ValidPath(R, x.e.r.path))
NodeOfEntrySide(L, R, side) == IF side.s = "L" THEN At(L, side.path) ELSE At(R, side.path)
\* every input node is represented by an entry (at its depth) holding a node equal to it
Coverage(F, L, R, D) ==
  /\ \A p \in AllPaths(L, <<>>) : \E x \in Entries(D, 0) : x.d = Len(p) /\
        ((x.e.l.has /\ EqAny(F, NodeOfEntrySide(L, R, x.e.l), At(L, p))) \/ (x.e.r.has /\ EqAny(F, NodeOfEntrySide(L, R, x.e.r), At(L, p))))
  /\ \A p \in AllPaths(R, <<>>) : \E x \in Entries(D, 0) : x.d = Len(p) /\
        ((x.e.l.has /\ EqAny(F, NodeOfEntrySide(L, R, x.e.l), At(R, p))) \/ (x.e.r.has /\ EqAny(F, NodeOfEntrySide(L, R, x.e.r), At(R, p))))
\* a node present on one side only (nothing equal to it among the other input's nodes at that depth)
\* is held by a one-sided entry
NodesAtDepth(T, d) == {At(T, p) : p \in {q \in AllPaths(T, <<>>) : Len(q) = d}}
OneSidedIfUnique(F, L, R, D) ==
  \A x \in Entries(D, 0) :
    /\ ((x.e.l.has /\ x.e.l.s = "L" /\ ValidPath(L, x.e.l.path)
          /\ \A m \in NodesAtDepth(R, x.d) : ~EqAny(F, At(L, x.e.l.path), m)) => ~x.e.r.has)
    /\ ((x.e.r.has /\ x.e.r.s = "R" /\ ValidPath(R, x.e.r.path)
          /\ \A m \in NodesAtDepth(L, x.d) : ~EqAny(F, At(R, x.e.r.path), m)) => ~x.e.l.has)
DiffAllTwoSided(e) == e.l.has /\ e.r.has /\ \A i \in 1..Len(e.kids) : DiffAllTwoSided(e.kids[i])
\* structure only (which paths, which nesting) - for comparing an observed diff with CompareNodes
DiffShape(e) == [l |-> [has |-> e.l.has, path |-> e.l.path], r |-> [has |-> e.r.has, path |-> e.r.path],
                 kids |-> [i \in 1..Len(e.kids) |-> DiffShape(e.kids[i])]]

---------------------------------------------------------------------------
(* C09: the merge algorithm.  Results carry no identity here (a tree of     *)
(* [t, v, p, x, kids]); identity of the REAL result is observed separately. *)
RECURSIVE MergeNodesM(_, _, _), RightFold(_, _, _, _), MergeSlices(_, _, _, _), WhileLoop(_, _, _, _, _), ILoop(_, _, _, _, _, _, _)
\* mergeFn: "eq" (EqualityMergeFunction), "always" (MergeNodes whenever the tags agree), "never"
MergeFn(F, fn, a, b) ==
  IF fn = "never" THEN [ok |-> FALSE]
  ELSE IF fn = "always" THEN (IF a.t = b.t THEN [ok |-> TRUE, n |-> MergeNodesM(F, a, b)] ELSE [ok |-> FALSE])
  ELSE IF Eq(F, a, b) /\ a.t = b.t THEN [ok |-> TRUE, n |-> MergeNodesM(F, a, b)] ELSE [ok |-> FALSE]

\* MergeNodes(left, right): copy left, fold the children of right in
MergeNodesM(F, l, r) == RightFold(F, l, r.kids, 1)
RightFold(F, res, rk, c) ==
  IF c > Len(rk) THEN res
  ELSE LET child == rk[c]
           S == {k \in 1..Len(res.kids) : Eq(F, res.kids[k], child)} IN
       IF S = {} THEN RightFold(F, [res EXCEPT !.kids = Append(@, child)], rk, c + 1)
       ELSE LET k == Min(S) IN        \* roles swapped, as in the code: the right child's children are "left"
            RightFold(F, [res EXCEPT !.kids[k].kids = MergeSlices(F, child.kids, res.kids[k].kids, "eq")], rk, c + 1)

\* MergeNodeSlices.  A slice element is [n |-> node, m |-> already merged / taken from right]
MergeSlices(F, left, right, fn) ==
  LET out == WhileLoop(F, [i \in 1..Len(left) |-> [n |-> left[i], m |-> FALSE]], right, fn, 0) IN
  [i \in 1..Len(out) |-> out[i].n]
WhileLoop(F, slice, right, fn, fuel) ==
  IF right = <<>> THEN slice
  ELSE LET r == ILoop(F, 1, slice, right, FALSE, fn, 0) IN
       IF r.found THEN WhileLoop(F, r.slice, r.right, fn, fuel)
       ELSE WhileLoop(F, Append(r.slice, [n |-> Head(r.right), m |-> TRUE]), Tail(r.right), fn, fuel)
ILoop(F, i, slice, right, found, fn, fuel) ==
  IF i > Len(slice) THEN [slice |-> slice, right |-> right, found |-> found]
  ELSE IF slice[i].m THEN ILoop(F, i + 1, slice, right, found, fn, fuel)
  ELSE LET J == {j \in 1..Len(right) : MergeFn(F, fn, slice[i].n, right[j]).ok} IN
       IF J = {} THEN ILoop(F, i + 1, slice, right, found, fn, fuel)
       ELSE LET j == Min(J)
                mg == MergeFn(F, fn, slice[i].n, right[j]).n IN
            \* the element is removed and the merged node appended; the loop index still advances
            ILoop(F, i + 1, Append(RemoveAt(slice, i), [n |-> mg, m |-> TRUE]), RemoveAt(right, j), TRUE, fn, fuel)

\* --- the properties of a merge RESULT (observed or computed)
RECURSIVE Represented(_, _, _), Stems(_, _, _), HasEqSiblings(_, _)
\* n is represented among cands: an equal node all of whose children are represented among ITS children
Represented(F, n, cands) ==
  \E c \in cands : EqAny(F, c, n) /\ \A i \in 1..Len(n.kids) : Represented(F, n.kids[i], SeqToSet(c.kids))
\* m stems from the input nodes cands: some are equal to it, and its children stem from their children
Stems(F, m, cands) ==
  LET C == {c \in cands : EqAny(F, c, m)} IN
  C # {} /\ \A i \in 1..Len(m.kids) : Stems(F, m.kids[i], UNION {SeqToSet(c.kids) : c \in C})
HasEqSiblings(F, n) ==
  \/ \E i, j \in 1..Len(n.kids) : i # j /\ EqAny(F, n.kids[i], n.kids[j])
  \/ \E i \in 1..Len(n.kids) : HasEqSiblings(F, n.kids[i])

NothingLostNodes(F, l, r, res)     == Represented(F, l, {res}) /\ Represented(F, r, {res})
NothingInventedNodes(F, l, r, res) == Stems(F, res, {l, r})
NothingLostSlices(F, ls, rs, out)  == \A n \in SeqToSet(ls) \cup SeqToSet(rs) : Represented(F, n, SeqToSet(out))
NothingInventedSlices(F, ls, rs, out) == \A m \in SeqToSet(out) : Stems(F, m, SeqToSet(ls) \cup SeqToSet(rs))
Max2(a, b) == IF a > b THEN a ELSE b
SliceBounds(ls, rs, out) == Len(out) >= Max2(Len(ls), Len(rs)) /\ Len(out) <= Len(ls) + Len(rs)
\* merging a tree with itself adds nothing as long as no two of its siblings are equal to each other
SelfMergeAddsNothing(F, t, res) == ~HasEqSiblings(F, t) => NodeCount(res) = NodeCount(t)

\* ---------------------------------------------------------------- Filter (filter.go), beyond the listed properties
\* Filter(root, fn) is a fresh tree: a node the function drops disappears with its subtree, a node it keeps is copied and its
\* children are filtered in turn.  The stock functions: WhitelistTagFilter / BlacklistTagFilter (tags), OfficialTagFilter (tags
\* that do not start with an underscore), RemoveEmptyDeathTagFilter (a DEAT that had no children in the input).
Unofficial == {"_X", "_UID", "_NEW", "_MARK", "_HOLDER"}
Keeps(f, n) == CASE f.k = "white" -> n.t \in {f.tags[i] : i \in 1..Len(f.tags)}
                 [] f.k = "black" -> n.t \notin {f.tags[i] : i \in 1..Len(f.tags)}
                 [] f.k = "official" -> n.t \notin Unofficial
                 [] f.k = "emptydeath" -> ~(n.t = "DEAT" /\ n.kids = <<>>)
                 [] OTHER -> TRUE
RECURSIVE FilterKids(_, _, _, _)
FilterKids(f, kids, k, acc) ==
  IF k > Len(kids) THEN acc
  ELSE IF ~Keeps(f, kids[k]) THEN FilterKids(f, kids, k + 1, acc)
  ELSE FilterKids(f, kids, k + 1, Append(acc, [kids[k] EXCEPT !.kids = FilterKids(f, kids[k].kids, 1, <<>>)]))
\* <<>> when the root itself is dropped, else <<the filtered tree>>
FilterM(f, n) == FilterKids(f, <<n>>, 1, <<>>)
=============================================================================
