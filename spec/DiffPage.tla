------------------------------- MODULE DiffPage -------------------------------
(***************************************************************************)
(* The pipeline behind `gedcom diff` (html/diff_page.go, DiffPage.WriteHTMLTo):*)
(*                                                                         *)
(*   createJobs  --jobs(10)-->  W workers (shouldSkip)  --results(10)-->   *)
(*   sortResults (collect all, stable sort, resend)  --out(10)-->  caller  *)
(*                                                                         *)
(* One process per goroutine of the code, one label per channel operation. *)
(* The comparisons are 1..N in the order Compare returned them; Skip is    *)
(* the set shouldSkip drops (it depends on the -show option and on whether *)
(* the rendered comparison is empty); Key is the sort key (written name or *)
(* descending similarity, then name).  Channels are bounded FIFO queues    *)
(* with a closed flag, as in Go.                                           *)
(*                                                                         *)
(* TLC checks for every interleaving: the bounds of the channels, nothing  *)
(* is sent on a closed channel, the page lists exactly the comparisons     *)
(* that are not skipped, each once, in key order; when no two keys tie the *)
(* page is the same on every schedule; with ties only the order inside a   *)
(* tie group depends on the schedule (sort.SliceStable on arrival order);  *)
(* and WriteHTMLTo terminates (under weak fairness of every goroutine).    *)
(* DiffPageOps.tla holds the closed form used to judge real runs.          *)
(***************************************************************************)
EXTENDS Integers, Sequences, FiniteSets, TLC, DiffPageOps

CONSTANTS N, W, Cap, Skip, Key

ASSUME N \in Nat /\ W \in Nat \ {0} /\ Cap \in Nat \ {0} /\ Skip \subseteq 1..N /\ Key \in [1..N -> Nat]

(* --fair algorithm DiffPage {
  variables jobs = <<>>, jobsClosed = FALSE,
            results = <<>>, resultsClosed = FALSE,
            out = <<>>, outClosed = FALSE,
            running = W,               \* the WaitGroup of util.WorkerPool
            all = <<>>,                \* what sortResults has collected
            page = <<>>,               \* precalculatedComparisons
            sentAfterClose = FALSE,    \* a send on a closed channel panics in Go
            done = FALSE;

  process (producer = 0)              \* createJobs
    variable i = 1;
  {
    P1: while (i <= N) {
          await Len(jobs) < Cap;
          sentAfterClose := sentAfterClose \/ jobsClosed;
          jobs := Append(jobs, i);
          i := i + 1;
        };
    P2: jobsClosed := TRUE;
  }

  process (worker \in 1..W)
    variable job = 0;
  {
    W1: while (TRUE) {
          await jobs # <<>> \/ jobsClosed;            \* for job := range jobs
          if (jobs = <<>>) { goto W4 }
          else { job := Head(jobs); jobs := Tail(jobs) };
    W2:   if (job \in Skip) { goto W1 };              \* shouldSkip (renders the comparison once, cached)
    W3:   await Len(results) < Cap;
          sentAfterClose := sentAfterClose \/ resultsClosed;
          results := Append(results, job);
        };
    W4: running := running - 1;                       \* wg.Done()
  }

  process (closer = W + 1)            \* processJobs: wg.Wait(), close(results)
  {
    C1: await running = 0;                            \* wg.Wait()
        resultsClosed := TRUE;
  }

  process (sorter = W + 2)            \* sortResults
    variable k = 1;
  {
    S1: while (TRUE) {
          await results # <<>> \/ resultsClosed;
          if (results = <<>>) { goto S2 }
          else { all := Append(all, Head(results)); results := Tail(results) };
        };
    S2: all := StableSort(all, Key);
    S3: while (k <= Len(all)) {
          await Len(out) < Cap;
          sentAfterClose := sentAfterClose \/ outClosed;
          out := Append(out, all[k]);
          k := k + 1;
        };
    S4: outClosed := TRUE;
  }

  process (main = W + 3)              \* WriteHTMLTo
  {
    M1: while (TRUE) {
          await out # <<>> \/ outClosed;
          if (out = <<>>) { goto M2 }
          else { page := Append(page, Head(out)); out := Tail(out) };
        };
    M2: done := TRUE;
  }
} *)
\* BEGIN TRANSLATION
VARIABLES pc, jobs, jobsClosed, results, resultsClosed, out, outClosed, 
          running, all, page, sentAfterClose, done, i, job, k

vars == << pc, jobs, jobsClosed, results, resultsClosed, out, outClosed, 
           running, all, page, sentAfterClose, done, i, job, k >>

ProcSet == {0} \cup (1..W) \cup {W + 1} \cup {W + 2} \cup {W + 3}

Init == (* Global variables *)
        /\ jobs = <<>>
        /\ jobsClosed = FALSE
        /\ results = <<>>
        /\ resultsClosed = FALSE
        /\ out = <<>>
        /\ outClosed = FALSE
        /\ running = W
        /\ all = <<>>
        /\ page = <<>>
        /\ sentAfterClose = FALSE
        /\ done = FALSE
        (* Process producer *)
        /\ i = 1
        (* Process worker *)
        /\ job = [self \in 1..W |-> 0]
        (* Process sorter *)
        /\ k = 1
        /\ pc = [self \in ProcSet |-> CASE self = 0 -> "P1"
                                        [] self \in 1..W -> "W1"
                                        [] self = W + 1 -> "C1"
                                        [] self = W + 2 -> "S1"
                                        [] self = W + 3 -> "M1"]

P1 == /\ pc[0] = "P1"
      /\ IF i <= N
            THEN /\ Len(jobs) < Cap
                 /\ sentAfterClose' = (sentAfterClose \/ jobsClosed)
                 /\ jobs' = Append(jobs, i)
                 /\ i' = i + 1
                 /\ pc' = [pc EXCEPT ![0] = "P1"]
            ELSE /\ pc' = [pc EXCEPT ![0] = "P2"]
                 /\ UNCHANGED << jobs, sentAfterClose, i >>
      /\ UNCHANGED << jobsClosed, results, resultsClosed, out, outClosed, 
                      running, all, page, done, job, k >>

P2 == /\ pc[0] = "P2"
      /\ jobsClosed' = TRUE
      /\ pc' = [pc EXCEPT ![0] = "Done"]
      /\ UNCHANGED << jobs, results, resultsClosed, out, outClosed, running, 
                      all, page, sentAfterClose, done, i, job, k >>

producer == P1 \/ P2

W1(self) == /\ pc[self] = "W1"
            /\ jobs # <<>> \/ jobsClosed
            /\ IF jobs = <<>>
                  THEN /\ pc' = [pc EXCEPT ![self] = "W4"]
                       /\ UNCHANGED << jobs, job >>
                  ELSE /\ job' = [job EXCEPT ![self] = Head(jobs)]
                       /\ jobs' = Tail(jobs)
                       /\ pc' = [pc EXCEPT ![self] = "W2"]
            /\ UNCHANGED << jobsClosed, results, resultsClosed, out, outClosed, 
                            running, all, page, sentAfterClose, done, i, k >>

W2(self) == /\ pc[self] = "W2"
            /\ IF job[self] \in Skip
                  THEN /\ pc' = [pc EXCEPT ![self] = "W1"]
                  ELSE /\ pc' = [pc EXCEPT ![self] = "W3"]
            /\ UNCHANGED << jobs, jobsClosed, results, resultsClosed, out, 
                            outClosed, running, all, page, sentAfterClose, 
                            done, i, job, k >>

W3(self) == /\ pc[self] = "W3"
            /\ Len(results) < Cap
            /\ sentAfterClose' = (sentAfterClose \/ resultsClosed)
            /\ results' = Append(results, job[self])
            /\ pc' = [pc EXCEPT ![self] = "W1"]
            /\ UNCHANGED << jobs, jobsClosed, resultsClosed, out, outClosed, 
                            running, all, page, done, i, job, k >>

W4(self) == /\ pc[self] = "W4"
            /\ running' = running - 1
            /\ pc' = [pc EXCEPT ![self] = "Done"]
            /\ UNCHANGED << jobs, jobsClosed, results, resultsClosed, out, 
                            outClosed, all, page, sentAfterClose, done, i, job, 
                            k >>

worker(self) == W1(self) \/ W2(self) \/ W3(self) \/ W4(self)

C1 == /\ pc[W + 1] = "C1"
      /\ running = 0
      /\ resultsClosed' = TRUE
      /\ pc' = [pc EXCEPT ![W + 1] = "Done"]
      /\ UNCHANGED << jobs, jobsClosed, results, out, outClosed, running, all, 
                      page, sentAfterClose, done, i, job, k >>

closer == C1

S1 == /\ pc[W + 2] = "S1"
      /\ results # <<>> \/ resultsClosed
      /\ IF results = <<>>
            THEN /\ pc' = [pc EXCEPT ![W + 2] = "S2"]
                 /\ UNCHANGED << results, all >>
            ELSE /\ all' = Append(all, Head(results))
                 /\ results' = Tail(results)
                 /\ pc' = [pc EXCEPT ![W + 2] = "S1"]
      /\ UNCHANGED << jobs, jobsClosed, resultsClosed, out, outClosed, running, 
                      page, sentAfterClose, done, i, job, k >>

S2 == /\ pc[W + 2] = "S2"
      /\ all' = StableSort(all, Key)
      /\ pc' = [pc EXCEPT ![W + 2] = "S3"]
      /\ UNCHANGED << jobs, jobsClosed, results, resultsClosed, out, outClosed, 
                      running, page, sentAfterClose, done, i, job, k >>

S3 == /\ pc[W + 2] = "S3"
      /\ IF k <= Len(all)
            THEN /\ Len(out) < Cap
                 /\ sentAfterClose' = (sentAfterClose \/ outClosed)
                 /\ out' = Append(out, all[k])
                 /\ k' = k + 1
                 /\ pc' = [pc EXCEPT ![W + 2] = "S3"]
            ELSE /\ pc' = [pc EXCEPT ![W + 2] = "S4"]
                 /\ UNCHANGED << out, sentAfterClose, k >>
      /\ UNCHANGED << jobs, jobsClosed, results, resultsClosed, outClosed, 
                      running, all, page, done, i, job >>

S4 == /\ pc[W + 2] = "S4"
      /\ outClosed' = TRUE
      /\ pc' = [pc EXCEPT ![W + 2] = "Done"]
      /\ UNCHANGED << jobs, jobsClosed, results, resultsClosed, out, running, 
                      all, page, sentAfterClose, done, i, job, k >>

sorter == S1 \/ S2 \/ S3 \/ S4

M1 == /\ pc[W + 3] = "M1"
      /\ out # <<>> \/ outClosed
      /\ IF out = <<>>
            THEN /\ pc' = [pc EXCEPT ![W + 3] = "M2"]
                 /\ UNCHANGED << out, page >>
            ELSE /\ page' = Append(page, Head(out))
                 /\ out' = Tail(out)
                 /\ pc' = [pc EXCEPT ![W + 3] = "M1"]
      /\ UNCHANGED << jobs, jobsClosed, results, resultsClosed, outClosed, 
                      running, all, sentAfterClose, done, i, job, k >>

M2 == /\ pc[W + 3] = "M2"
      /\ done' = TRUE
      /\ pc' = [pc EXCEPT ![W + 3] = "Done"]
      /\ UNCHANGED << jobs, jobsClosed, results, resultsClosed, out, outClosed, 
                      running, all, page, sentAfterClose, i, job, k >>

main == M1 \/ M2

(* Allow infinite stuttering to prevent deadlock on termination. *)
Terminating == /\ \A self \in ProcSet: pc[self] = "Done"
               /\ UNCHANGED vars

Next == producer \/ closer \/ sorter \/ main
           \/ (\E self \in 1..W: worker(self))
           \/ Terminating

Spec == /\ Init /\ [][Next]_vars
        /\ WF_vars(Next)

Termination == <>(\A self \in ProcSet: pc[self] = "Done")

\* END TRANSLATION

---------------------------------------------------------------------------
Bounded == Len(jobs) <= Cap /\ Len(results) <= Cap /\ Len(out) <= Cap
NoSendOnClosedChannel == ~sentAfterClose
ClosedOnlyWhenDrained == /\ resultsClosed => running = 0
                         /\ outClosed => pc[W + 2] = "Done"
\* nothing is duplicated or invented anywhere in the pipeline, at any time
InFlightOnce ==
  LET inhand == {w \in 1..W : pc[w] \in {"W2", "W3"}}
      bag == jobs \o results \o (IF pc[W + 2] \in {"S1", "S2"} THEN all ELSE <<>>) \o out \o page
  IN /\ \A a, b \in 1..Len(bag) : a # b => bag[a] # bag[b]
     /\ \A w \in inhand : \A a \in 1..Len(bag) : bag[a] # job[w]
     /\ \A w1, w2 \in inhand : w1 # w2 => job[w1] # job[w2]
\* the page when WriteHTMLTo has read everything
PageIsTheFilteredSortedList == done => Acceptable(page, N, Skip, Key)
ScheduleIndependentWithoutTies == (done /\ NoTies(N, Skip, Key)) => page = Expected(N, Skip, Key)
Terminates == <>done
=============================================================================
