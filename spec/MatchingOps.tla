------------------------------ MODULE MatchingOps ------------------------------
(***************************************************************************)
(* C11: the properties of a matching result and the sequential semantics,  *)
(* as operators of an explicit input record                                *)
(*   I = [NL, NR, PtrL, PtrR, UidL, UidR, Full, Pool, Threshold,           *)
(*        PreferAbove, FixUniq]                                            *)
(* Full[i][j] = weighted similarity with the full calculation (used for    *)
(* the trusted-pointer test), Pool[i][j] = the similarity of the pair as a *)
(* candidate of the matrix phase.  A result is a sequence of [l, r] with   *)
(* 0 = nobody.  Shared by Matching.tla (constants) and MatchingTrace.tla   *)
(* (the inputs and scores of a recorded run).                              *)
(***************************************************************************)
EXTENDS Integers, Sequences, FiniteSets, TLC

None == 0
FirstRI(I, u) == LET S == {j \in 1..I.NR : I.UidR[j] = u} IN IF S = {} THEN 0 ELSE CHOOSE j \in S : \A k \in S : j <= k
ByPtrI(I, p)  == LET S == {j \in 1..I.NR : I.PtrR[j] = p} IN IF S = {} THEN 0 ELSE CHOOSE j \in S : \A k \in S : j <= k

PairsOf(final) == {final[q] : q \in 1..Len(final)}
EveryLeftOnceP(I, final)  == \A l \in 1..I.NL : Cardinality({q \in 1..Len(final) : final[q].l = l}) = 1
EveryRightOnceP(I, final) == \A r \in 1..I.NR : Cardinality({q \in 1..Len(final) : final[q].r = r}) = 1
NoEmptyResultP(final)     == \A q \in 1..Len(final) : final[q].l # None \/ final[q].r # None
\* paired individuals reach the threshold, or share a unique id, or a trusted pointer
JustifiedP(I, l, r) == \/ I.Pool[l][r] >= I.Threshold
                       \/ (I.UidL[l] # 0 /\ I.UidL[l] = I.UidR[r])
                       \/ (I.PtrL[l] = I.PtrR[r] /\ I.Full[l][r] >= I.PreferAbove)
PairsJustifiedP(I, final) == \A q \in 1..Len(final) : (final[q].l # None /\ final[q].r # None) => JustifiedP(I, final[q].l, final[q].r)

\* The sequential semantics as a function of the inputs: unique ids in left order (first claim wins),
\* then trusted pointers, then the greedy assignment of the remaining pairs by descending score.
RECURSIVE UniqSeq(_, _, _, _), PtrSeq(_, _, _, _, _), GreedySeq(_, _, _, _, _)
UniqSeq(I, i, sB, acc) ==
  IF i > I.NL \/ I.NR = 0 THEN acc
  ELSE LET b == IF I.UidL[i] # 0 THEN FirstRI(I, I.UidL[i]) ELSE 0 IN
       IF b = 0 \/ (I.FixUniq /\ b \in sB) THEN UniqSeq(I, i + 1, sB, acc)
       ELSE UniqSeq(I, i + 1, sB \cup {b}, acc \cup {<<i, b>>})
PtrSeq(I, i, sA, sB, acc) ==
  IF i > I.NL \/ I.NR = 0 THEN acc
  ELSE LET b == IF i \in sA THEN 0 ELSE ByPtrI(I, I.PtrL[i]) IN
       IF b = 0 \/ b \in sB \/ I.Full[i][b] < I.PreferAbove THEN PtrSeq(I, i + 1, sA, sB, acc)
       ELSE PtrSeq(I, i + 1, sA \cup {i}, sB \cup {b}, acc \cup {<<i, b>>})
GreedySeq(I, cands, fL, fR, acc) ==
  IF cands = {} THEN acc
  ELSE LET best == CHOOSE c \in cands : \A c2 \in cands : I.Pool[c2[1]][c2[2]] <= I.Pool[c[1]][c[2]] IN
       IF I.Pool[best[1]][best[2]] < I.Threshold THEN acc
       ELSE IF best[1] \in fL \/ best[2] \in fR THEN GreedySeq(I, cands \ {best}, fL, fR, acc)
       ELSE GreedySeq(I, cands \ {best}, fL \cup {best[1]}, fR \cup {best[2]}, acc \cup {best})
SeqCertainI(I) ==
  LET u == UniqSeq(I, 1, {}, {})
      uA == {c[1] : c \in u}  uB == {c[2] : c \in u}
  IN PtrSeq(I, 1, uA, uB, u)
SeqMatchedI(I) ==
  LET cert == SeqCertainI(I)
      cA == {c[1] : c \in cert}  cB == {c[2] : c \in cert}
      cands == {<<a, c>> \in (1..I.NL) \X (1..I.NR) : a \notin cA /\ c \notin cB}
  IN GreedySeq(I, cands, cA, cB, cert)
SeqPairsI(I) ==
  LET m == SeqMatchedI(I) IN
  {[l |-> c[1], r |-> c[2]] : c \in m}
  \cup {[l |-> a, r |-> None] : a \in {a \in 1..I.NL : \A c \in m : c[1] # a}}
  \cup {[l |-> None, r |-> c] : c \in {c \in 1..I.NR : \A d \in m : d[2] # c}}
\* no two candidate pairs that reach the threshold tie on score, and no right individual is claimed by
\* unique id from two left individuals
NoTiesI(I) ==
  /\ \A a1, a2 \in 1..I.NL, c1, c2 \in 1..I.NR :
        (<<a1, c1>> # <<a2, c2>> /\ I.Pool[a1][c1] >= I.Threshold) => I.Pool[a1][c1] # I.Pool[a2][c2]
  /\ \A a1, a2 \in 1..I.NL : (a1 # a2 /\ I.UidL[a1] # 0 /\ I.UidL[a1] = I.UidL[a2]) => FirstRI(I, I.UidL[a1]) = 0
=============================================================================
