----------------------------- MODULE DateCompare -----------------------------
(* C06: the comparison machine over the relations of DateCompareOps.tla.     *)
EXTENDS DateCompareOps

---------------------------------------------------------------------------
(* The machine: pick two forward ranges in a window, compare both ways.     *)
CONSTANT Window            \* ranges are [a,b], [c,d] with 0 <= a <= b < Window
VARIABLES a, b, c, d, rel, rel2
cvars == <<a, b, c, d, rel, rel2>>

CInit == /\ a \in 0..(Window - 1) /\ b \in a..(Window - 1)
         /\ c \in 0..(Window - 1) /\ d \in c..(Window - 1)
         /\ rel = "none" /\ rel2 = "none"
CompareAB == rel = "none" /\ rel' = Pick(a, b, c, d) /\ UNCHANGED <<a, b, c, d, rel2>>
CompareBA == rel # "none" /\ rel2 = "none" /\ rel2' = Pick(c, d, a, b) /\ UNCHANGED <<a, b, c, d, rel>>
CSpec == CInit /\ [][CompareAB \/ CompareBA]_cvars

Total == Allowed(a, b, c, d) # {}                          \* never "invalid" for forward ranges
SelfEqual == (a = c /\ b = d /\ rel # "none") => rel = "Equal"
ConverseHolds == rel2 # "none" => rel2 = Converse(rel)
ConversePossible == AllowedPairs(a, b, c, d) # {}
AmbiguousOnlyIfDegenerate == Cardinality(Allowed(a, b, c, d)) > 1 => (a = b \/ c = d)
ExactlyOneVerdict == rel # "none" => Simplified(rel) \in {"Equal", "PartiallyEqual", "NotEqual"}
PickAllowed == rel # "none" => rel \in Allowed(a, b, c, d)

=============================================================================
