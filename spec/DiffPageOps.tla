------------------------------ MODULE DiffPageOps ------------------------------
(***************************************************************************)
(* Closed forms for the diff report pipeline (DiffPage.tla): what the page *)
(* must list, given the comparisons 1..N in the order Compare returned     *)
(* them, the set Skip that shouldSkip drops and the sort key of each.      *)
(* No variables: the trace specification EXTENDS this module.              *)
(***************************************************************************)
EXTENDS Integers, Sequences, FiniteSets

\* insertion of e behind every element whose key is not greater (stable)
RECURSIVE InsertStable(_, _, _)
InsertStable(s, e, key) ==
  IF s = <<>> THEN <<e>>
  ELSE IF key[Head(s)] <= key[e] THEN <<Head(s)>> \o InsertStable(Tail(s), e, key)
  ELSE <<e>> \o s

\* sort.SliceStable: elements with equal keys keep the order they arrived in
RECURSIVE StableSort(_, _)
StableSort(s, key) ==
  IF s = <<>> THEN <<>>
  ELSE InsertStable(StableSort(SubSeq(s, 1, Len(s) - 1), key), s[Len(s)], key)

RECURSIVE KeptFrom(_, _, _)
KeptFrom(i, n, skip) == IF i > n THEN <<>> ELSE (IF i \in skip THEN <<>> ELSE <<i>>) \o KeptFrom(i + 1, n, skip)
Kept(n, skip) == KeptFrom(1, n, skip)

\* what one worker gives (arrival order = input order)
Expected(n, skip, key) == StableSort(Kept(n, skip), key)

IsSorted(s, key) == \A a, b \in 1..Len(s) : a < b => key[s[a]] <= key[s[b]]
IsPermutationOfKept(s, n, skip) ==
  /\ Len(s) = n - Cardinality(skip)
  /\ \A a \in 1..Len(s) : s[a] \in (1..n) \ skip
  /\ \A a, b \in 1..Len(s) : a # b => s[a] # s[b]

\* what any number of workers may give: the order inside a group of equal keys depends on the schedule
Acceptable(s, n, skip, key) == IsPermutationOfKept(s, n, skip) /\ IsSorted(s, key)
NoTies(n, skip, key) == \A a, b \in (1..n) \ skip : a # b => key[a] # key[b]
=============================================================================
