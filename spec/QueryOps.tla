------------------------------- MODULE QueryOps -------------------------------
(***************************************************************************)
(* C16.  The documented STRUCTURAL semantics of the query language over    *)
(* tagged values.  Leaves are not modelled: what an accessor returns on an *)
(* object is a FACT supplied with the observation (computed by calling the *)
(* Go API directly, by reflection, independently of the engine).           *)
(*                                                                         *)
(* Values (TLC has no dynamic type test, so every value is tagged):        *)
(*   [t |-> "nil"]                      untyped nil                        *)
(*   [t |-> "nilptr"], [t |-> "nilslice"]   typed nil pointer / nil slice  *)
(*   [t |-> "list", v |-> <<values>>]                                      *)
(*   [t |-> "obj", id |-> n]            a Go object (pointer identity)     *)
(*   [t |-> "str", s |-> <<code points>>], [t |-> "int", n |-> k],         *)
(*   [t |-> "bool", b |-> TRUE], [t |-> "map", ks |-> <<..>>, vs |-> <<..>>] *)
(*   [t |-> "other", s |-> text]        anything else (compared as text)   *)
(*   [t |-> "err"]                      evaluation error                   *)
(* A fact is [o |-> id, a |-> accessor, r |-> value].                      *)
(* A statement is [name, es]; an expression a record with field k.         *)
(***************************************************************************)
EXTENDS Integers, Sequences, FiniteSets, TLC

Nil == [t |-> "nil"]
Err == [t |-> "err"]
List(v) == [t |-> "list", v |-> v]
IntV(n) == [t |-> "int", n |-> n]
Bool(b) == [t |-> "bool", b |-> b]
IsErr(x) == x.t = "err"

FactOf(F, o, a) == LET S == {k \in 1..Len(F) : F[k].o = o /\ F[k].a = a} IN
                   IF S = {} THEN Err ELSE F[CHOOSE k \in S : TRUE].r

---------------------------------------------------------------------------
(* Comparison operators: numeric when both operands are decimal numbers,    *)
(* otherwise case-insensitive on trimmed text.  Operands are code points.   *)
IsDigitC(c) == c >= 48 /\ c <= 57
IsSpaceC(c) == c \in {9, 10, 11, 12, 13, 32}
LowerC(c) == IF c >= 65 /\ c <= 90 THEN c + 32 ELSE c
RECURSIVE TrimL(_), TrimR(_)
TrimL(s) == IF s # <<>> /\ IsSpaceC(s[1]) THEN TrimL(Tail(s)) ELSE s
TrimR(s) == IF s # <<>> /\ IsSpaceC(s[Len(s)]) THEN TrimR(SubSeq(s, 1, Len(s) - 1)) ELSE s
Norm(s) == LET t == TrimR(TrimL(s)) IN [i \in 1..Len(t) |-> LowerC(t[i])]
Ascii(s) == \A i \in 1..Len(s) : s[i] < 128

\* decimal grammar of the documentation: [+-] digits [. digits]; value as an integer scaled by 10^4
\* (at most 5 integer digits and 4 fraction digits are judged: 32-bit integers)
DigitsOnly(s) == s # <<>> /\ \A i \in 1..Len(s) : IsDigitC(s[i])
RECURSIVE DecVal(_, _)
DecVal(s, acc) == IF s = <<>> THEN acc ELSE DecVal(Tail(s), acc * 10 + (Head(s) - 48))
DotAt(s) == LET S == {i \in 1..Len(s) : s[i] = 46} IN IF S = {} THEN 0 ELSE CHOOSE i \in S : \A j \in S : i <= j
Unsigned(s) == IF s # <<>> /\ s[1] \in {43, 45} THEN Tail(s) ELSE s
IsDecimal(s) ==
  LET u == Unsigned(s)  d == DotAt(u) IN
  IF d = 0 THEN DigitsOnly(u) /\ Len(u) <= 5
  ELSE DigitsOnly(SubSeq(u, 1, d - 1)) /\ DigitsOnly(SubSeq(u, d + 1, Len(u))) /\ d - 1 <= 5 /\ Len(u) - d <= 4
\* scientific notation, the other usual spelling of a floating-point number: mantissa e [+-] digit, judged when the mantissa
\* has at most 2 integer and 2 fraction digits and the exponent lies in -2..3 (so that the scaled value is exact and fits)
EAt(s) == LET S == {i \in 1..Len(s) : s[i] = 101} IN IF S = {} THEN 0 ELSE CHOOSE i \in S : \A j \in S : i <= j
SmallMantissa(m) ==
  LET u == Unsigned(m)  d == DotAt(u) IN
  IF d = 0 THEN DigitsOnly(u) /\ Len(u) <= 2
  ELSE DigitsOnly(SubSeq(u, 1, d - 1)) /\ DigitsOnly(SubSeq(u, d + 1, Len(u))) /\ d - 1 <= 2 /\ Len(u) - d <= 2
ExpOf(x) == IF Len(x) = 1 /\ IsDigitC(x[1]) THEN x[1] - 48
            ELSE IF Len(x) = 2 /\ x[1] = 43 /\ IsDigitC(x[2]) THEN x[2] - 48
            ELSE IF Len(x) = 2 /\ x[1] = 45 /\ IsDigitC(x[2]) THEN -(x[2] - 48)
            ELSE 99
IsSci(s) ==
  LET e == EAt(s) IN
  e > 1 /\ e < Len(s) /\ SmallMantissa(SubSeq(s, 1, e - 1)) /\ ExpOf(SubSeq(s, e + 1, Len(s))) \in -2..3
RECURSIVE Pad4Aux(_)
Pad4Aux(f) == IF Len(f) >= 4 THEN f ELSE Pad4Aux(Append(f, 48))
NumVal(s) ==
  LET u == Unsigned(s)  d == DotAt(u)
      mag == IF d = 0 THEN DecVal(u, 0) * 10000
             ELSE DecVal(SubSeq(u, 1, d - 1), 0) * 10000 + DecVal(Pad4Aux(SubSeq(u, d + 1, Len(u))), 0)
  IN IF s # <<>> /\ s[1] = 45 THEN -mag ELSE mag
Pow10(k) == CASE k = 0 -> 1 [] k = 1 -> 10 [] k = 2 -> 100 [] k = 3 -> 1000
SciVal(s) ==
  LET e == EAt(s)  m == NumVal(SubSeq(s, 1, e - 1))  x == ExpOf(SubSeq(s, e + 1, Len(s))) IN
  IF x >= 0 THEN m * Pow10(x) ELSE m \div Pow10(-x)
IsNumber(s) == IsDecimal(s) \/ IsSci(s)
ValueOf(s) == IF IsSci(s) THEN SciVal(s) ELSE NumVal(s)
\* lexicographic order of code point sequences (= byte order of UTF-8)
RECURSIVE LexLt(_, _)
LexLt(a, b) == IF b = <<>> THEN FALSE ELSE IF a = <<>> THEN TRUE
               ELSE IF a[1] # b[1] THEN a[1] < b[1] ELSE LexLt(Tail(a), Tail(b))
\* the three-way comparison of two operands the specification decides: "lt" | "eq" | "gt", or "free" when the
\* documentation leaves the numeric-or-text choice open (hex, Inf, NaN, underscores, large or unusual exponents, non-ASCII case)
LooksNumericButUndocumented(s) ==
  LET n == Norm(s) IN ~IsNumber(n) /\ n # <<>> /\ (IsDigitC(n[1]) \/ n[1] \in {43, 45, 46} \/ n \in {<<105, 110, 102>>, <<110, 97, 110>>, <<105, 110, 102, 105, 110, 105, 116, 121>>})
Compare3(l, r) ==
  LET a == Norm(l)  b == Norm(r) IN
  IF ~Ascii(l) \/ ~Ascii(r) \/ LooksNumericButUndocumented(l) \/ LooksNumericButUndocumented(r) THEN "free"
  \* a number with white space around it: "represents a numeric value" is not settled by the documentation
  ELSE IF (IsNumber(a) /\ a # [k \in 1..Len(l) |-> LowerC(l[k])]) \/ (IsNumber(b) /\ b # [k \in 1..Len(r) |-> LowerC(r[k])]) THEN "free"
  ELSE IF IsNumber(a) /\ IsNumber(b) THEN (IF ValueOf(a) < ValueOf(b) THEN "lt" ELSE IF ValueOf(a) = ValueOf(b) THEN "eq" ELSE "gt")
  ELSE IF a = b THEN "eq" ELSE IF LexLt(a, b) THEN "lt" ELSE "gt"
OpHolds(op, c3) ==
  CASE op = "=" -> c3 = "eq" [] op = "!=" -> c3 # "eq" [] op = "<" -> c3 = "lt" [] op = ">" -> c3 = "gt"
    [] op = "<=" -> c3 \in {"lt", "eq"} [] op = ">=" -> c3 \in {"gt", "eq"}

\* how a scalar is read as an operand (fmt %v): strings as they are, integers in decimal, booleans as true/false
RECURSIVE Digits(_)
Digits(n) == IF n < 10 THEN <<48 + n>> ELSE Append(Digits(n \div 10), 48 + (n % 10))
\* operators compare values as they are printed: a value of a defined string type with its own String() (a name type "" prints
\* as "Normal") carries the printed form in p
OperandText(x) ==
  CASE x.t = "str" -> (IF "p" \in DOMAIN x THEN x.p ELSE x.s)
    [] x.t = "int" -> (IF x.n < 0 THEN <<45>> \o Digits(-x.n) ELSE Digits(x.n))
    [] x.t = "bool" -> (IF x.b THEN <<116, 114, 117, 101>> ELSE <<102, 97, 108, 115, 101>>)
IsScalar(x) == x.t \in {"str", "int", "bool"}
Free == [t |-> "free"]      \* the specification does not decide this value

---------------------------------------------------------------------------
RECURSIVE EvalExpr(_, _, _, _), EvalStmt(_, _, _, _, _), MapOver(_, _, _, _, _, _), OnlyLoop(_, _, _, _, _, _),
          ConcatArgs(_, _, _, _, _, _), ObjLoop(_, _, _, _, _, _)

\* a statement [name, es]: its expressions left to right, each on the result of the previous
EvalStmt(stmts, F, st, input, k) ==
  IF IsErr(input) \/ input.t = "free" THEN input
  ELSE IF k > Len(st.es) THEN input
  ELSE EvalStmt(stmts, F, st, EvalExpr(stmts, F, st.es[k], input), k + 1)

\* apply expression e to every element of xs in order; an error poisons the whole
MapOver(stmts, F, e, xs, k, acc) ==
  IF k > Len(xs) THEN List(acc)
  ELSE LET r == EvalExpr(stmts, F, e, xs[k]) IN
       IF IsErr(r) \/ r.t = "free" THEN r ELSE MapOver(stmts, F, e, xs, k + 1, Append(acc, r))

\* order-preserving filter
OnlyLoop(stmts, F, cond, xs, k, acc) ==
  IF k > Len(xs) THEN List(acc)
  ELSE LET r == EvalStmt(stmts, F, cond, xs[k], 1) IN
       IF IsErr(r) \/ r.t = "free" THEN r
       ELSE OnlyLoop(stmts, F, cond, xs, k + 1, IF r.t = "bool" /\ r.b THEN Append(acc, xs[k]) ELSE acc)

\* concatenation of the lists the arguments evaluate to (each on the current input)
ConcatArgs(stmts, F, args, input, k, acc) ==
  IF k > Len(args) THEN List(acc)
  ELSE LET r == EvalStmt(stmts, F, args[k], input, 1) IN
       IF r.t = "free" THEN r ELSE IF IsErr(r) \/ r.t # "list" THEN Err ELSE ConcatArgs(stmts, F, args, input, k + 1, acc \o r.v)

\* object construction: each field evaluated on the current item
ObjLoop(stmts, F, e, input, k, acc) ==
  IF k > Len(e.keys) THEN [t |-> "map", ks |-> e.keys, vs |-> acc]
  ELSE LET r == EvalStmt(stmts, F, e.vals[k], input, 1) IN
       IF IsErr(r) \/ r.t = "free" THEN r ELSE ObjLoop(stmts, F, e, input, k + 1, Append(acc, r))

AsList(x) == IF x.t = "list" THEN x.v ELSE <<x>>
\* the single integer argument of First / Last (-1 = not a number)
ArgInt(stmts, F, args, input) ==
  IF Len(args) # 1 THEN -1
  ELSE LET r == EvalStmt(stmts, F, args[1], input, 1) IN
       IF r.t = "int" /\ r.n >= 0 THEN r.n
       ELSE IF r.t = "str" /\ DigitsOnly(r.s) /\ Len(r.s) <= 6 THEN DecVal(r.s, 0)     \* constants are text: First(2)
       ELSE -1

EvalExpr(stmts, F, e, input) ==
  CASE e.k = "const" -> e.v
    [] e.k = "acc" -> IF input.t = "nil" THEN Nil
                      ELSE IF input.t = "list" THEN MapOver(stmts, F, e, input.v, 1, <<>>)
                      ELSE IF input.t = "obj" THEN FactOf(F, input.id, e.n)
                      ELSE IF input.t \in {"nilptr", "nilslice"} THEN Free ELSE Err
    [] e.k = "var" -> LET S == {k \in 1..Len(stmts) : stmts[k].name = e.n} IN
                      IF S = {} THEN Err ELSE EvalStmt(stmts, F, stmts[CHOOSE k \in S : \A k2 \in S : k <= k2], input, 1)
    [] e.k = "call" /\ e.f = "Length" -> IF input.t = "list" THEN IntV(Len(input.v)) ELSE IF input.t = "nilslice" THEN IntV(0) ELSE IntV(1)
    [] e.k = "call" /\ e.f = "First" ->
         LET n == ArgInt(stmts, F, e.args, input) IN
         IF Len(e.args) # 1 THEN Err ELSE IF input.t \in {"nil", "nilslice"} THEN Nil ELSE IF n < 0 THEN Err
         ELSE LET xs == AsList(input) IN List(SubSeq(xs, 1, IF n >= Len(xs) THEN Len(xs) ELSE n))
    [] e.k = "call" /\ e.f = "Last" ->
         LET n == ArgInt(stmts, F, e.args, input) IN
         IF Len(e.args) # 1 THEN Err ELSE IF input.t \in {"nil", "nilslice"} THEN Nil ELSE IF n < 0 THEN Err
         ELSE LET xs == AsList(input) IN List(SubSeq(xs, (IF n >= Len(xs) THEN 1 ELSE Len(xs) - n + 1), Len(xs)))
    [] e.k = "call" /\ e.f = "Only" ->
         IF Len(e.args) # 1 THEN Err ELSE IF input.t = "nilslice" THEN List(<<>>) ELSE IF input.t # "list" THEN Nil
         ELSE OnlyLoop(stmts, F, e.args[1], input.v, 1, <<>>)
    [] e.k = "call" /\ e.f = "Combine" ->
         IF Len(e.args) = 0 THEN Nil ELSE ConcatArgs(stmts, F, e.args, input, 1, <<>>)
    [] e.k = "call" /\ e.f = "NodesWithTagPath" ->    \* tag-path lookup: a fact of the node(s), keyed by the path
         \* the nodes found below each input node, concatenated; the Go API (and the engine) give a nil list when there are none
         IF input.t \in {"nil", "nilptr", "nilslice"} THEN [t |-> "nilslice"]
         ELSE LET xs == AsList(input)
                  RECURSIVE Cat(_, _) Cat(k, acc) ==
                    IF k > Len(xs) THEN (IF acc = <<>> THEN [t |-> "nilslice"] ELSE List(acc))
                    ELSE IF xs[k].t \in {"nil", "nilptr"} THEN Cat(k + 1, acc)      \* "if the node is nil the result will also be nil"
                    ELSE IF xs[k].t # "obj" THEN Err
                    ELSE LET r == FactOf(F, xs[k].id, e.path) IN
                         IF r.t = "nilslice" THEN Cat(k + 1, acc) ELSE IF r.t # "list" THEN Err ELSE Cat(k + 1, acc \o r.v)
              IN Cat(1, <<>>)
    [] e.k = "obj" -> IF input.t = "list" THEN MapOver(stmts, F, e, input.v, 1, <<>>) ELSE ObjLoop(stmts, F, e, input, 1, <<>>)
    [] e.k = "bin" -> IF input.t = "list" THEN MapOver(stmts, F, e, input.v, 1, <<>>)
                      ELSE LET l == EvalExpr(stmts, F, e.l, input)  r == EvalExpr(stmts, F, e.r, input) IN
                           IF IsErr(l) \/ IsErr(r) THEN Err
                           ELSE IF ~IsScalar(l) \/ ~IsScalar(r) THEN Free
                           ELSE LET c3 == Compare3(OperandText(l), OperandText(r)) IN
                                IF c3 = "free" THEN Free ELSE Bool(OpHolds(e.op, c3))
    [] OTHER -> Err

\* the whole engine: every statement must evaluate on the document; the result is the last statement's
RECURSIVE AllOk(_, _, _, _)
AllOk(stmts, F, doc, k) == IF k > Len(stmts) THEN TRUE ELSE ~IsErr(EvalStmt(stmts, F, stmts[k], doc, 1)) /\ AllOk(stmts, F, doc, k + 1)
Engine(stmts, F, doc) == IF ~AllOk(stmts, F, doc, 1) THEN Err ELSE EvalStmt(stmts, F, stmts[Len(stmts)], doc, 1)

\* does the specification decide the whole value (no "free" part inside)
RECURSIVE Decided(_)
Decided(x) == CASE x.t = "free" -> FALSE
                [] x.t = "list" -> \A k \in 1..Len(x.v) : Decided(x.v[k])
                [] x.t = "map" -> \A k \in 1..Len(x.vs) : Decided(x.vs[k])
                [] OTHER -> TRUE
=============================================================================
