--------------------------------- MODULE Names ---------------------------------
(* The name machine: every NAME value over a small alphabet (letters, space,   *)
(* slash, a no-break space) up to MaxLen bytes, alone and with one overriding  *)
(* sub-tag, is taken apart by NamesOps; TLC checks what the documentation      *)
(* promises of the parts on every value and emits every case for replay into   *)
(* the real NameNode.                                                          *)
EXTENDS NamesOps, TLC, Json

CONSTANTS Alphabet, MaxLen, SubValues    \* SubValues: the values tried for an overriding sub-tag
VARIABLES value, piece, subval
nvars == <<value, piece, subval>>

RECURSIVE Strings(_)
Strings(n) == IF n = 0 THEN {<<>>} ELSE LET S == Strings(n - 1) IN S \cup {Append(s, c) : s \in {t \in S : Len(t) = n - 1}, c \in Alphabet}

NInit == value \in Strings(MaxLen) /\ piece \in 0..6 /\ subval \in (IF piece = 0 THEN {<<>>} ELSE SubValues)
NNext == UNCHANGED nvars
NSpec == NInit /\ [][NNext]_nvars

Name == [value |-> value,
         has |-> [k \in 1..6 |-> k = piece],
         sub |-> [k \in 1..6 |-> IF k = piece THEN subval ELSE <<>>]]

\* the three parts partition the value: nothing of it is lost or invented
PartsPartition == LET p == Parts(value) IN p.given \o p.sur \o p.rest = value
\* the given part holds no slash; the surname part is empty or one slash-delimited group
PartsShape == LET p == Parts(value) IN
  /\ FindFrom(p.given, 1, SLASH) = 0
  /\ p.sur # <<>> => (Len(p.sur) >= 2 /\ p.sur[1] = SLASH /\ p.sur[Len(p.sur)] = SLASH /\ FindFrom(Sub(p.sur, 2, Len(p.sur) - 1), 1, SLASH) = 0)
\* a name composed as the documentation draws it gives its pieces back
ComposeInverse ==
  \A g \in SubValues, l \in SubValues, x \in SubValues :
    (IsCleanPiece(g) /\ IsCleanPiece(l) /\ IsCleanPiece(x)) =>
      LET n == Plain(Compose(g, l, x)) IN Given(n) = g /\ Surname(n) = l /\ Suffix(n) = x
\* every rendering is clean: no leading, trailing or doubled space
RenderingsClean == IsClean(Written(Name)) /\ IsClean(GedcomName(Name)) /\ IsClean(IndexName(Name)) /\ IsClean(Given(Name)) /\ IsClean(Suffix(Name))
\* a sub-tag wins over the value
SubTagWins == /\ piece = 1 => Given(Name) = CleanSpace(subval)
              /\ piece = 2 => Surname(Name) = CleanSpace(subval)
              /\ piece = 4 => Suffix(Name) = CleanSpace(subval)
\* the written name of a plain clean name is its value without the slashes
WrittenIsValueWithoutSlashes ==
  (piece = 0 /\ Parts(value).sur # <<>> /\ FindFrom(Parts(value).rest, 1, SLASH) = 0 /\ IsClean(Surname(Name)))
     => Written(Name) = CleanSpace(Given(Name) \o <<SP>> \o Surname(Name) \o <<SP>> \o Suffix(Name))

Emit == PrintT(<<"CASE", ToJson([value |-> value, piece |-> piece, subval |-> subval,
                                 given |-> Given(Name), surname |-> Surname(Name), prefix |-> Prefix(Name), suffix |-> Suffix(Name),
                                 surnameprefix |-> SurnamePrefix(Name), title |-> Title(Name),
                                 written |-> Written(Name), gedcom |-> GedcomName(Name), index |-> IndexName(Name)])>>)
=============================================================================
