------------------------------- MODULE Warnings -------------------------------
(***************************************************************************)
(* C20: the machine that builds family graphs with dates placed at margins *)
(* around every threshold.  A father, a mother, up to two children in      *)
(* family F1 and optionally a second family F2 of the same father; one     *)
(* action per fact that is chosen.                                         *)
(***************************************************************************)
EXTENDS WarningsOps

D(y, m, d) == [k |-> "d", y |-> y, m |-> m, d |-> d]
Bad(t) == [k |-> "bad", t |-> t]

CONSTANTS
  FatherSexes, MotherSexes,   \* sets of Seq("M"|"F")
  FatherBirth, MotherBirth,   \* sets of events (<<>> or <<date>>)
  Child1Birth, Child2Birth,
  TwoChildren,                \* subset of BOOLEAN: is there a second child
  Child1Baptism,
  Marriage,                   \* events
  FatherDeath, FatherBurial,
  SecondFamily                \* subset of {"none", "samechild", "otherchild"}

Dims == <<"fs", "ms", "fb", "mb", "c1", "two", "c2", "c1bap", "marr", "fd", "fbu", "fam2">>
Vals(name) ==
  CASE name = "fs" -> FatherSexes [] name = "ms" -> MotherSexes [] name = "fb" -> FatherBirth [] name = "mb" -> MotherBirth
    [] name = "c1" -> Child1Birth [] name = "two" -> TwoChildren [] name = "c2" -> Child2Birth [] name = "c1bap" -> Child1Baptism [] name = "marr" -> Marriage
    [] name = "fd" -> FatherDeath [] name = "fbu" -> FatherBurial [] name = "fam2" -> SecondFamily

VARIABLES g, stage
wvars == <<g, stage>>
WInit == g = [n \in {} |-> 0] /\ stage = 1
Choose(name) == /\ stage <= Len(Dims) /\ Dims[stage] = name
                /\ \E v \in (IF name = "c2" /\ ~g["two"] THEN {<<>>} ELSE Vals(name)) : g' = [n \in DOMAIN g \cup {name} |-> IF n = name THEN v ELSE g[n]]
                /\ stage' = stage + 1
FatherSex == Choose("fs")
MotherSex == Choose("ms")
FatherBorn == Choose("fb")
MotherBorn == Choose("mb")
Child1Born == Choose("c1")
SecondChild == Choose("two")
Child2Born == Choose("c2")
Child1Baptised == Choose("c1bap")
MarriageHeld == Choose("marr")
FatherDied == Choose("fd")
FatherBuried == Choose("fbu")
SecondFamilyOfFather == Choose("fam2")
WNext == FatherSex \/ MotherSex \/ FatherBorn \/ MotherBorn \/ Child1Born \/ SecondChild \/ Child2Born \/ Child1Baptised
         \/ MarriageHeld \/ FatherDied \/ FatherBuried \/ SecondFamilyOfFather
WSpec == WInit /\ [][WNext]_wvars
Done == stage > Len(Dims)

Pn(p, sexes, birt, bapm, deat, buri) == [p |-> p, sexes |-> sexes, birt |-> birt, bapm |-> bapm, deat |-> deat, buri |-> buri]
Doc ==
  LET two == g["two"]
      people == <<Pn("I1", g["fs"], g["fb"], <<>>, g["fd"], g["fbu"]),
                  Pn("I2", g["ms"], g["mb"], <<>>, <<>>, <<>>),
                  Pn("I3", <<"M">>, g["c1"], g["c1bap"], <<>>, <<>>)>>
                \o (IF two THEN <<Pn("I4", <<"F">>, g["c2"], <<>>, <<>>, <<>>)>> ELSE <<>>)
                \o (IF g["fam2"] = "otherchild" THEN <<Pn("I5", <<>>, <<D(1899, 1, 1)>>, <<>>, <<>>, <<>>)>> ELSE <<>>)
      f1 == [p |-> "F1", husb |-> "I1", wife |-> "I2", chil |-> <<"I3">> \o (IF two THEN <<"I4">> ELSE <<>>), marr |-> g["marr"]]
      f2 == [p |-> "F2", husb |-> "I1", wife |-> "", chil |-> IF g["fam2"] = "samechild" THEN <<"I3">> ELSE <<"I5">>, marr |-> <<>>]
  IN [people |-> people, fams |-> <<f1>> \o (IF g["fam2"] = "none" THEN <<>> ELSE <<f2>>)]

\* reordering the records or the children does not change the set of warnings
RevDoc(doc) ==
  [people |-> [i \in 1..Len(doc.people) |-> doc.people[Len(doc.people) + 1 - i]],
   fams |-> [i \in 1..Len(doc.fams) |->
               LET f == doc.fams[Len(doc.fams) + 1 - i] IN [f EXCEPT !.chil = [j \in 1..Len(f.chil) |-> f.chil[Len(f.chil) + 1 - j]]]]]
OrderIndependent == Done => Expected(RevDoc(Doc)) = Expected(Doc)
\* each warning names people of the document
NamesRealPeople == Done => \A w \in Expected(Doc) : w.n \in {"ChildBornBeforeParent", "SiblingsBornTooClose"} =>
                              \A k \in 1..Len(w.a) : Known(Doc, w.a[k])
=============================================================================
