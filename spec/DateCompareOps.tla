----------------------------- MODULE DateCompareOps ----------------------------
(***************************************************************************)
(* C06.  The thirteen relations drawn in the documentation of              *)
(* DateRangeComparison, over integer day intervals.  Receiver [x,y] is     *)
(* compared against base [u,v]  (receiver.Compare(base)).                  *)
(* For proper ranges exactly one drawn relation holds; when an operand is  *)
(* a single day several can hold at once: Allowed is the set of all that   *)
(* do, and the property's converse law must hold between the two verdicts. *)
(***************************************************************************)
EXTENDS Calendar, DateCompareRel, FiniteSets, Sequences, TLC

---------------------------------------------------------------------------
(* Dates of any granularity as day intervals (for the pairing of day /      *)
(* month / year dates and for judging recorded comparisons).  A date is     *)
(* <<y, m, d>> with 0 for "not given".                                      *)
FirstDayOf(t) == IF t[2] = 0 THEN DayNumber(t[1], 1, 1)
                 ELSE IF t[3] = 0 THEN DayNumber(t[1], t[2], 1) ELSE DayNumber(t[1], t[2], t[3])
LastDayOf(t)  == IF t[2] = 0 THEN DayNumber(t[1], 12, 31)
                 ELSE IF t[3] = 0 THEN DayNumber(t[1], t[2], DaysInMonth(t[1], t[2])) ELSE DayNumber(t[1], t[2], t[3])

\* the date k days after <<y, m, d>>
RECURSIVE AddDays(_, _)
AddDays(t, k) ==
  IF k = 0 THEN t
  ELSE IF t[3] < DaysInMonth(t[1], t[2]) THEN AddDays(<<t[1], t[2], t[3] + 1>>, k - 1)
  ELSE IF t[2] < 12 THEN AddDays(<<t[1], t[2] + 1, 1>>, k - 1)
  ELSE AddDays(<<t[1] + 1, 1, 1>>, k - 1)

SetToSeq(S) == LET RECURSIVE F(_) F(T) == IF T = {} THEN <<>> ELSE LET e == CHOOSE e \in T : TRUE IN <<e>> \o F(T \ {e}) IN F(S)
PairRecs(x, y, u, v) ==
  SetToSeq({[r1 |-> p[1], r2 |-> p[2], s1 |-> Simplified(p[1]), s2 |-> Simplified(p[2])] : p \in AllowedPairs(x, y, u, v)})
=============================================================================
