----------------------------- MODULE DateCompareOps ----------------------------
(***************************************************************************)
(* C06.  The thirteen relations drawn in the documentation of              *)
(* DateRangeComparison, over integer day intervals.  Receiver [x,y] is     *)
(* compared against base [u,v]  (receiver.Compare(base)).                  *)
(* For proper ranges exactly one drawn relation holds; when an operand is  *)
(* a single day several can hold at once: Allowed is the set of all that   *)
(* do, and the property's converse law must hold between the two verdicts. *)
(***************************************************************************)
EXTENDS Calendar, FiniteSets, Sequences, TLC

Rels == {"Equal", "Inside", "InsideStart", "InsideEnd", "Outside", "OutsideStart", "OutsideEnd",
         "PartiallyBefore", "PartiallyAfter", "Before", "After", "EntirelyBefore", "EntirelyAfter"}

Holds(r, x, y, u, v) ==
  CASE r = "Equal"           -> x = u /\ y = v
    [] r = "Inside"          -> u < x /\ y < v
    [] r = "InsideStart"     -> x = u /\ y < v
    [] r = "InsideEnd"       -> u < x /\ y = v
    [] r = "Outside"         -> x < u /\ v < y
    [] r = "OutsideStart"    -> x = u /\ v < y
    [] r = "OutsideEnd"      -> x < u /\ y = v
    [] r = "PartiallyBefore" -> x < u /\ u < y /\ y < v
    [] r = "PartiallyAfter"  -> u < x /\ x < v /\ v < y
    [] r = "Before"          -> x < u /\ y = u
    [] r = "After"           -> x = v /\ v < y
    [] r = "EntirelyBefore"  -> y < u
    [] r = "EntirelyAfter"   -> v < x
Allowed(x, y, u, v) == {r \in Rels : Holds(r, x, y, u, v)}

Converse(r) ==
  CASE r = "Equal" -> "Equal" [] r = "Inside" -> "Outside" [] r = "Outside" -> "Inside"
    [] r = "InsideStart" -> "OutsideStart" [] r = "OutsideStart" -> "InsideStart"
    [] r = "InsideEnd" -> "OutsideEnd" [] r = "OutsideEnd" -> "InsideEnd"
    [] r = "PartiallyBefore" -> "PartiallyAfter" [] r = "PartiallyAfter" -> "PartiallyBefore"
    [] r = "Before" -> "After" [] r = "After" -> "Before"
    [] r = "EntirelyBefore" -> "EntirelyAfter" [] r = "EntirelyAfter" -> "EntirelyBefore"

\* the three simplified verdicts of the documentation table
Simplified(r) ==
  IF r = "Equal" THEN "Equal"
  ELSE IF r \in {"Before", "After", "EntirelyBefore", "EntirelyAfter"} THEN "NotEqual"
  ELSE "PartiallyEqual"

\* the ideal machine's choice when several drawn relations hold: containment beats touching
Pref == <<"Equal", "InsideStart", "InsideEnd", "OutsideStart", "OutsideEnd", "Inside", "Outside",
          "PartiallyBefore", "PartiallyAfter", "Before", "After", "EntirelyBefore", "EntirelyAfter">>
Pick(x, y, u, v) ==
  LET A == Allowed(x, y, u, v)
      k == CHOOSE k \in 1..13 : Pref[k] \in A /\ \A j \in 1..(k - 1) : Pref[j] \notin A
  IN Pref[k]

\* what the two calls receiver.Compare(base), base.Compare(receiver) may return together
AllowedPairs(x, y, u, v) ==
  {<<r1, r2>> \in Allowed(x, y, u, v) \X Allowed(u, v, x, y) : r2 = Converse(r1)}

---------------------------------------------------------------------------
(* Dates of any granularity as day intervals (for the pairing of day /      *)
(* month / year dates and for judging recorded comparisons).  A date is     *)
(* <<y, m, d>> with 0 for "not given".                                      *)
FirstDayOf(t) == IF t[2] = 0 THEN DayNumber(t[1], 1, 1)
                 ELSE IF t[3] = 0 THEN DayNumber(t[1], t[2], 1) ELSE DayNumber(t[1], t[2], t[3])
LastDayOf(t)  == IF t[2] = 0 THEN DayNumber(t[1], 12, 31)
                 ELSE IF t[3] = 0 THEN DayNumber(t[1], t[2], DaysInMonth(t[1], t[2])) ELSE DayNumber(t[1], t[2], t[3])

\* the date k days after <<y, m, d>>
RECURSIVE AddDays(_, _)
AddDays(t, k) ==
  IF k = 0 THEN t
  ELSE IF t[3] < DaysInMonth(t[1], t[2]) THEN AddDays(<<t[1], t[2], t[3] + 1>>, k - 1)
  ELSE IF t[2] < 12 THEN AddDays(<<t[1], t[2] + 1, 1>>, k - 1)
  ELSE AddDays(<<t[1] + 1, 1, 1>>, k - 1)

SetToSeq(S) == LET RECURSIVE F(_) F(T) == IF T = {} THEN <<>> ELSE LET e == CHOOSE e \in T : TRUE IN <<e>> \o F(T \ {e}) IN F(S)
PairRecs(x, y, u, v) ==
  SetToSeq({[r1 |-> p[1], r2 |-> p[2], s1 |-> Simplified(p[1]), s2 |-> Simplified(p[2])] : p \in AllowedPairs(x, y, u, v)})
=============================================================================
