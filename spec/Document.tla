------------------------------- MODULE Document -------------------------------
(***************************************************************************)
(* C13: the history machine.  From the empty document, any sequence of     *)
(* public edit operations drawn from the alphabet Ops; h records the       *)
(* operations and the state after each, so that every history can be       *)
(* replayed on a real document with all views read after every step.       *)
(***************************************************************************)
EXTENDS DocumentOps

CONSTANTS Ops, MaxLen
VARIABLES doc, h
dvars == <<doc, h>>

DInit == doc = <<>> /\ h = <<>>
Do(kind) == /\ Len(h) < MaxLen
            /\ \E op \in Ops : /\ op.k = kind /\ Enabled(doc, op)
                               /\ doc' = Apply(doc, op)
                               /\ h' = Append(h, [op |-> op, doc |-> Apply(doc, op)])
AddIndividual == Do("AddIndividual")
AddFamily == Do("AddFamily")
AddFamilyWithHusbandAndWife == Do("AddFamilyWithHusbandAndWife")
SetHusband == Do("SetHusband")
SetWife == Do("SetWife")
ClearHusband == Do("ClearHusband")
ClearWife == Do("ClearWife")
AddChild == Do("AddChild")
AddNode == Do("AddNode")
DeleteNode == Do("DeleteNode")
SetNodes == Do("SetNodes")
DocAddNode == Do("DocAddNode")
DocDeleteNode == Do("DocDeleteNode")
DNext == AddIndividual \/ AddFamily \/ AddFamilyWithHusbandAndWife \/ SetHusband \/ SetWife \/ ClearHusband \/ ClearWife
         \/ AddChild \/ AddNode \/ DeleteNode \/ SetNodes \/ DocAddNode \/ DocDeleteNode
DSpec == DInit /\ [][DNext]_dvars

\* the views are total functions of the state
ViewsDefined == Views(doc) = Views(doc)
PointersStayUnique == UniquePointers(doc)

\* "views reflect every edit": what the last operation did is visible in the views
LastOp == h[Len(h)].op
EditsVisible ==
  h # <<>> =>
    LET op == LastOp  V == Views(doc) IN
    CASE op.k = "AddIndividual" -> op.p \in SeqToSet(V.individuals)
      [] op.k = "AddFamily" -> op.p \in SeqToSet(V.families)
      [] op.k \in {"SetHusband", "SetWife"} -> op.f \in SeqToSet(IndiView(doc, ByPtr(doc, op.i)).families)
      [] op.k = "AddChild" -> op.f \in SeqToSet(IndiView(doc, ByPtr(doc, op.i)).parents)
      [] op.k = "DocDeleteNode" -> ~HasRoot(doc, op.rp) => (op.rp \notin SeqToSet(V.individuals) /\ op.rp \notin SeqToSet(V.families))
      [] op.k = "AddNode" -> op.v \in SeqToSet(Vals(KidsWithTag(doc[IdxOf(doc, op.rt, op.rp)], op.t)))
      [] OTHER -> TRUE
=============================================================================
