------------------------------- MODULE Dates -------------------------------
(***************************************************************************)
(* C04.  The generative machine of the documented DATE grammar: it writes  *)
(* a sentence token by token (one action per token kind) and knows what it *)
(* means.  The reference parser and canonical printer are in DatesOps.tla. *)
(***************************************************************************)
EXTENDS DatesOps

---------------------------------------------------------------------------
(* The generative machine                                                   *)
CONSTANTS Cases,            \* subset of {"lower", "upper", "title"}
          KwSet,            \* subset of 0..15 (0 = no prefix)
          Days,             \* day numbers to write (may contain 0 and 32: near misses)
          LeadZero,         \* subset of BOOLEAN: write days < 10 with one leading zero
          MonthSet,         \* subset of 1..23 (index into MonthWords)
          JunkMonthSet,     \* subset of 1..5  (index into JunkWords): unknown month word
          Years,
          RangeSet,         \* subset of BOOLEAN: write single dates / ranges
          BetSet, AndSet,   \* subsets of 1..4 / 1..3
          Extra,            \* numbers of extra spaces between tokens
          AllowMissingYear, AllowDayWithoutMonth,
          TrailSet          \* subset of 0..5 (0 = nothing after the year)

VARIABLES stage, side, rng, d1, d2, text, near, hasDay
dvars == <<stage, side, rng, d1, d2, text, near, hasDay>>

ApplyCase(t, cs) == CASE cs = "upper" -> Upper(t)
                      [] cs = "title" -> [i \in 1..Len(t) |-> IF i = 1 THEN UpperByte(t[i]) ELSE t[i]]
                      [] OTHER -> t
Spaces(n) == [i \in 1..n |-> SP]
Put(tok, x) == IF text = <<>> THEN tok ELSE text \o Spaces(1 + x) \o tok

None == [d |-> 0, m |-> 0, y |-> 0, c |-> "Exact"]
Cur == IF side = 1 THEN d1 ELSE d2
SetCur(v) == IF side = 1 THEN d1' = v /\ d2' = d2 ELSE d2' = v /\ d1' = d1

DInit == /\ stage = "form" /\ side = 1 /\ rng = FALSE /\ d1 = None /\ d2 = None /\ text = <<>> /\ near = FALSE /\ hasDay = FALSE

ChooseSingle == /\ stage = "form" /\ FALSE \in RangeSet
                /\ stage' = "kw" /\ UNCHANGED <<side, rng, d1, d2, text, near, hasDay>>
Between == /\ stage = "form" /\ TRUE \in RangeSet
           /\ \E b \in BetSet, cs \in Cases : text' = ApplyCase(BetweenWords[b], cs)
           /\ rng' = TRUE /\ stage' = "kw" /\ UNCHANGED <<side, d1, d2, near, hasDay>>

Keyword == /\ stage = "kw"
           /\ \/ (0 \in KwSet /\ UNCHANGED <<text, d1, d2>>)
              \/ \E k \in KwSet \ {0}, cs \in Cases, x \in Extra :
                   /\ text' = Put(ApplyCase(Keywords[k].t, cs), x)
                   /\ SetCur([Cur EXCEPT !.c = Keywords[k].c])
           /\ stage' = "day" /\ UNCHANGED <<side, rng, near, hasDay>>

Day == /\ stage = "day"
       /\ \/ (hasDay' = FALSE /\ UNCHANGED <<text, d1, d2, near>>)            \* no day written
          \/ \E d \in Days, lz \in LeadZero, x \in Extra :
               /\ text' = Put((IF lz /\ d < 10 THEN <<48>> ELSE <<>>) \o DecDigits(d), x)
               /\ SetCur([Cur EXCEPT !.d = d]) /\ hasDay' = TRUE
               /\ near' = (near \/ d < 1 \/ d > 31)
       /\ stage' = "mon" /\ UNCHANGED <<side, rng>>

Month == /\ stage = "mon"
         /\ \/ (~hasDay /\ UNCHANGED <<text, d1, d2, near>>)                        \* year only
            \/ (hasDay /\ AllowDayWithoutMonth /\ near' = TRUE /\ UNCHANGED <<text, d1, d2>>)
            \/ \E i \in MonthSet, cs \in Cases, x \in Extra :
                 /\ text' = Put(ApplyCase(MonthWords[i].t, cs), x)
                 /\ SetCur([Cur EXCEPT !.m = MonthWords[i].m]) /\ UNCHANGED near
            \/ \E j \in JunkMonthSet, x \in Extra :                                  \* unknown month word
                 /\ text' = Put(JunkWords[j], x) /\ near' = TRUE /\ UNCHANGED <<d1, d2>>
         /\ stage' = "year" /\ UNCHANGED <<side, rng, hasDay>>

Year == /\ stage = "year"
        /\ \/ \E y \in Years, x \in Extra :
                /\ text' = Put(DecDigits(y), x) /\ SetCur([Cur EXCEPT !.y = y]) /\ UNCHANGED near
           \/ (AllowMissingYear /\ Cur.m # 0 /\ near' = TRUE /\ UNCHANGED <<text, d1, d2>>)   \* "3 Sep", "Sep"
        /\ stage' = "trail" /\ UNCHANGED <<side, rng, hasDay>>

Trail == /\ stage = "trail"
         /\ \/ (0 \in TrailSet /\ UNCHANGED <<text, near>>)
            \/ \E j \in TrailSet \ {0} : text' = Put(JunkWords[j], 0) /\ near' = TRUE
         /\ stage' = "end" /\ UNCHANGED <<side, rng, d1, d2, hasDay>>

And == /\ stage = "end" /\ rng /\ side = 1
       /\ \E a \in AndSet, cs \in Cases, x \in Extra : text' = Put(ApplyCase(AndWords[a], cs), x)
       /\ side' = 2 /\ stage' = "kw" /\ hasDay' = FALSE /\ UNCHANGED <<rng, d1, d2, near>>

Done == /\ stage = "end" /\ (~rng \/ side = 2)
        /\ stage' = "done" /\ UNCHANGED <<side, rng, d1, d2, text, near, hasDay>>

DNext == ChooseSingle \/ Between \/ Keyword \/ Day \/ Month \/ Year \/ Trail \/ And \/ Done
DSpec == DInit /\ [][DNext]_dvars

---------------------------------------------------------------------------
(* What the written sentence means                                          *)
WellFormed(x) == x.y >= 1 /\ (x.d = 0 \/ ValidDay(x.y, x.m, x.d))
Meaning ==
  IF near \/ ~WellFormed(d1) \/ (rng /\ ~WellFormed(d2)) THEN Invalid
  ELSE [valid |-> TRUE, s |-> d1, e |-> IF rng THEN d2 ELSE d1]

(* Invariants (evaluated on complete sentences)                             *)
ParserAgreesWithGrammar == stage = "done" => ParseValue(text) = Meaning
PrintParse ==                \* parsing the canonical spelling gives back the same start and end dates
  (stage = "done" /\ Meaning.valid) => ParseValue(Canon(Meaning)) = Meaning
CanonIsCanonical ==          \* printing is idempotent through the parser
  (stage = "done" /\ Meaning.valid) => Canon(ParseValue(Canon(Meaning))) = Canon(Meaning)
NearMissIsInvalid == (stage = "done" /\ near) => ~ParseValue(text).valid
=============================================================================
