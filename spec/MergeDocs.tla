------------------------------- MODULE MergeDocs -------------------------------
(***************************************************************************)
(* C10: the machine.  A base document (left) is chosen, the right document *)
(* is derived from it by edit actions (renumber pointers, drop a person,   *)
(* add a person, clash a pointer, drop/keep families), then merged.        *)
(***************************************************************************)
EXTENDS MergeDocsOps

CONSTANTS Bases,        \* set of base documents
          NoRewrite     \* FALSE: the ideal merge, TRUE: AsIs_NoPointerRewrite
VARIABLES left, right, stage, out
mvars == <<left, right, stage, out>>

Empty == [people |-> <<>>, fams |-> <<>>]
MInit == left \in Bases /\ right = left /\ stage = "edit" /\ out = Empty

RenumberOne ==       \* one individual of the copy gets a new pointer (references follow)
  /\ stage = "edit"
  /\ \E i \in Idx(right.people) :
       LET old == right.people[i].p  new == "X" \o old
           M(v) == IF v = old THEN new ELSE v IN
       /\ ~\E q \in Idx(right.people) : right.people[q].p = new
       /\ SubSeq(old, 1, 1) # "X"
       /\ right' = [people |-> [right.people EXCEPT ![i].p = new],
                    fams |-> [k \in Idx(right.fams) |-> [right.fams[k] EXCEPT !.husb = M(@), !.wife = M(@),
                                                                             !.chil = [q \in Idx(@) |-> M(@[q])]]]]
  /\ UNCHANGED <<left, stage, out>>
RenumberAll ==       \* every pointer of the copy is renumbered
  /\ stage = "edit" /\ \A i \in Idx(right.people) : SubSeq(right.people[i].p, 1, 1) # "X"
  /\ LET M(v) == IF v = "" THEN "" ELSE "X" \o v IN
     right' = [people |-> [i \in Idx(right.people) |-> [right.people[i] EXCEPT !.p = M(@)]],
               fams |-> [k \in Idx(right.fams) |-> [right.fams[k] EXCEPT !.p = M(@), !.husb = M(@), !.wife = M(@),
                                                                        !.chil = [q \in Idx(@) |-> M(@[q])]]]]
  /\ UNCHANGED <<left, stage, out>>
DropUnreferenced ==  \* a person nobody refers to is dropped from the copy
  /\ stage = "edit"
  /\ \E i \in Idx(right.people) :
       /\ \A f \in SeqToSet(right.fams) : right.people[i].p \notin {f.husb, f.wife} \cup SeqToSet(f.chil)
       /\ right' = [right EXCEPT !.people = SubSeq(@, 1, i - 1) \o SubSeq(@, i + 1, Len(@))]
  /\ UNCHANGED <<left, stage, out>>
AddStranger ==       \* a new person, under a free pointer or under a pointer the left document uses for somebody else
  /\ stage = "edit" /\ ~\E q \in Idx(right.people) : right.people[q].who = 99
  /\ \E p \in {"N1"} \cup {left.people[i].p : i \in Idx(left.people)} :
       /\ ~\E q \in Idx(right.people) : right.people[q].p = p
       /\ right' = [right EXCEPT !.people = Append(@, [p |-> p, who |-> 99])]
  /\ UNCHANGED <<left, stage, out>>
RenumberFamilies ==  \* the families were re-entered under other pointers; the individuals keep theirs
  /\ stage = "edit" /\ right.fams # <<>> /\ \A k \in Idx(right.fams) : SubSeq(right.fams[k].p, 1, 1) \notin {"X", "Y"}
  /\ right' = [right EXCEPT !.fams = [k \in Idx(@) |-> [@[k] EXCEPT !.p = "Y" \o @]]]
  /\ UNCHANGED <<left, stage, out>>
DropFamilies ==
  /\ stage = "edit" /\ right.fams # <<>> /\ right' = [right EXCEPT !.fams = <<>>] /\ UNCHANGED <<left, stage, out>>
DoMerge ==
  /\ stage = "edit" /\ stage' = "merged"
  /\ out' = Merge([left |-> left, right |-> right], NoRewrite)
  /\ UNCHANGED <<left, right>>
MNext == RenumberOne \/ RenumberAll \/ RenumberFamilies \/ DropUnreferenced \/ AddStranger \/ DropFamilies \/ DoMerge
MSpec == MInit /\ [][MNext]_mvars

D == [left |-> left, right |-> right]
InputsWellFormed == UniquePeople(left) /\ UniquePeople(right) /\ Closed(left) /\ Closed(right)
Accounted == stage = "merged" => EveryoneAccountedOnce(D, out) /\ OnlySamePersonMerged(D, out) /\ EveryFamilyAccounted(D, out)
LinksValid == stage = "merged" => ReferentialClosurePreserved(D, out)
=============================================================================
