--------------------------------- MODULE Query ---------------------------------
(***************************************************************************)
(* C15 / C16: the machines.                                                *)
(*  "tokens": every sequence of at most MaxLen tokens over the alphabet    *)
(*            (each is handed to the real parser / engine / formatters)    *)
(*  "asts":   every pipeline of at most MaxLen stages over a toy fact      *)
(*            table: Eval is total and obeys the documented laws           *)
(***************************************************************************)
EXTENDS QueryOps

CONSTANTS Mode, Tokens, MaxLen
VARIABLES toks
qvars == <<toks>>

RECURSIVE Join(_, _)
Join(s, k) == IF k > Len(s) THEN "" ELSE IF k = Len(s) THEN s[k] ELSE s[k] \o " " \o Join(s, k + 1)
Text == Join(toks, 1)

\* --- stages of the toy pipelines
Str(cp) == [t |-> "str", s |-> cp]
A(n) == [k |-> "acc", n |-> n]
C(cp) == [k |-> "const", v |-> Str(cp)]
Call(f, args) == [k |-> "call", f |-> f, args |-> args]
St(es) == [name |-> "", es |-> es]
Stages == {A("kids"), A("name"), A("none"), Call("Length", <<>>), Call("First", <<St(<<C(<<49>>)>>)>>), Call("Last", <<St(<<C(<<50>>)>>)>>),
           Call("First", <<>>), Call("Only", <<St(<<[k |-> "bin", op |-> "=", l |-> A("name"), r |-> C(<<97>>)]>>)>>),
           Call("Only", <<St(<<[k |-> "bin", op |-> "!=", l |-> A("name"), r |-> C(<<97>>)]>>)>>),
           Call("Combine", <<St(<<A("kids")>>), St(<<A("kids")>>)>>), Call("Combine", <<>>), [k |-> "var", n |-> "X"], [k |-> "var", n |-> "Y"],
           [k |-> "obj", keys |-> <<"a">>, vals |-> <<St(<<A("name")>>)>>]}
\* toy facts: object 1 (the document) has kids 2, 3, 4 named a, b, A; object 4 has a typed nil
Obj(n) == [t |-> "obj", id |-> n]
ToyFacts == << [o |-> 1, a |-> "kids", r |-> List(<<Obj(2), Obj(3), Obj(4)>>)], [o |-> 1, a |-> "name", r |-> Str(<<100>>)],
               [o |-> 2, a |-> "name", r |-> Str(<<97>>)], [o |-> 3, a |-> "name", r |-> Str(<<98>>)], [o |-> 4, a |-> "name", r |-> Str(<<65, 32>>)],
               [o |-> 2, a |-> "kids", r |-> List(<<>>)], [o |-> 3, a |-> "kids", r |-> [t |-> "nilslice"]], [o |-> 4, a |-> "kids", r |-> List(<<Obj(2)>>)] >>
XDef == [name |-> "X", es |-> <<A("kids")>>]           \* X is .kids
YDef == [name |-> "Y", es |-> <<[k |-> "var", n |-> "Y"]>>]   \* Y is Y : self-referential, must be an error, not a divergence

QInit == toks = <<>>
AddToken == /\ Len(toks) < MaxLen
            /\ \E t \in (IF Mode = "tokens" THEN Tokens ELSE Stages) : toks' = Append(toks, t)
QSpec == QInit /\ [][AddToken]_qvars

\* --- "asts": totality and laws on the model
ValueTags == {"nil", "nilptr", "nilslice", "list", "obj", "str", "int", "bool", "map", "err", "free"}
UsesY == \E k \in 1..Len(toks) : toks[k] = [k |-> "var", n |-> "Y"]
Prog == <<XDef, St(toks)>>
Result == Engine(Prog, ToyFacts, Obj(1))
\* (the specification's own Eval would not terminate on Y: the ideal engine reports an error; the machine
\*  therefore only evaluates pipelines without Y and states the requirement for Y separately)
EvalTotal == (Mode = "asts" /\ toks # <<>> /\ ~UsesY) => Result.t \in ValueTags
\* a variable is interchangeable with its definition
Inline(s) == [k \in 1..Len(s) |-> IF s[k] = [k |-> "var", n |-> "X"] THEN A("kids") ELSE s[k]]
VariableLaw == (Mode = "asts" /\ toks # <<>> /\ ~UsesY) => Engine(<<XDef, St(Inline(toks))>>, ToyFacts, Obj(1)) = Result
\* Length after Combine(E, E) is twice Length after E
CombineLaw == (Mode = "asts" /\ ~UsesY /\ Len(toks) < MaxLen) =>
  LET e1 == Engine(<<XDef, St(toks \o <<Call("Combine", <<St(<<A("kids")>>), St(<<A("kids")>>)>>), Call("Length", <<>>)>>)>>, ToyFacts, Obj(1))
      e2 == Engine(<<XDef, St(toks \o <<A("kids"), Call("Length", <<>>)>>)>>, ToyFacts, Obj(1)) IN
  (e1.t = "int" /\ e2.t = "int") => e1.n = 2 * e2.n
=============================================================================
