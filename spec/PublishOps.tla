----------------------------- MODULE PublishOps -----------------------------
(* Publishing a site (html.Publisher): who is living, whose strings are private, what a published site must      *)
(* satisfy (C17 non-disclosure, C19 closed / confined / deterministic file set, fail-stop).  Pure operators over *)
(* a case (the abstract family graph the document was materialised from) and an observed site.                  *)
EXTENDS Sequences, Integers, FiniteSets, TLC

SeqSet(s) == {s[i] : i \in 1..Len(s)}
Min2(a, b) == IF a < b THEN a ELSE b

\* ---------------------------------------------------------------- who is living
\* IsLiving as documented: no death event, and no (estimated) birth date or one not older than MaxLivingAge
\* (100 years).  A burial without a death does not make a person dead.  The materialiser places births 40..60
\* years back ("recent", "burialonly") or more than 180 years back ("old"), well clear of the limit.
Kinds == {"deat", "old", "nodate", "recent", "burialonly"}
Living(p) == p.kind \in {"nodate", "recent", "burialonly"}

\* ---------------------------------------------------------------- whose strings
NameStrings(p)  == ({p.given, p.sur, p.nick} \cup SeqSet(p.altg) \cup SeqSet(p.alts)) \ {""}
OtherStrings(p) == {p.bplac, p.rplac, p.dplac, p.note, p.occu} \ {""}
AllStrings(p)   == NameStrings(p) \cup OtherStrings(p)
People(d)       == SeqSet(d.people)
\* a string is public as soon as somebody who is not living (or a family, or a source) carries it
PublicStrings(d) == UNION {AllStrings(p) : p \in {x \in People(d) : ~Living(x)}}
                    \cup {d.families[i].mplac : i \in 1..Len(d.families)}
                    \cup {d.sources[i].title : i \in 1..Len(d.sources)} \cup {d.sources[i].auth : i \in 1..Len(d.sources)}
PrivateNames(d) == UNION {NameStrings(p) : p \in {x \in People(d) : Living(x)}} \ PublicStrings(d)
Hidden(opts) == opts.living \in {"hide", "placeholder"}

\* the twin of a document: the same graph, other data for the living people only
SamePublicPart(d, t) ==
  /\ Len(d.people) = Len(t.people) /\ d.families = t.families /\ d.sources = t.sources
  /\ \A i \in 1..Len(d.people) : /\ d.people[i].kind = t.people[i].kind /\ d.people[i].p = t.people[i].p /\ d.people[i].sex = t.people[i].sex
                                 /\ (~Living(d.people[i]) => d.people[i] = t.people[i])

\* ---------------------------------------------------------------- an observed site
FileMap(run) == {<<run.files[i].name, run.files[i].sha>> : i \in 1..Len(run.files)}
Names(run)   == {run.files[i].name : i \in 1..Len(run.files)}
Completed(run) == run.died = "" /\ ~run.hung

NoLivingName(d, run) == \A i \in 1..Len(run.files) : SeqSet(run.files[i].found) \cap PrivateNames(d) = {}
LeakedIn(d, run) == {run.files[i].group : i \in {k \in 1..Len(run.files) : SeqSet(run.files[k].found) \cap PrivateNames(d) # {}}}

\* people who are not living (everybody, when living people are shown) are fully published: their names and the
\* places of their events are on some page, and a page carrying their name is linked from an index page
Shown(d, opts) == {p \in People(d) : ~Living(p) \/ ~Hidden(opts)}
FoundSomewhere(run, s) == \E i \in 1..Len(run.files) : s \in SeqSet(run.files[i].found)
PublishedStrings(p) == ({p.given, p.sur} \cup SeqSet(p.altg) \cup SeqSet(p.alts) \cup (IF p.kind = "nodate" /\ p.bplac = "" THEN {} ELSE {p.bplac})) \ {""}
FullyPublished(d, opts, run) ==
  opts.individuals =>
    \A p \in Shown(d, opts) :
      /\ \A s \in PublishedStrings(p) : FoundSomewhere(run, s)
      /\ p.given # "" =>
           \E i \in 1..Len(run.files) : /\ run.files[i].group = "page" /\ p.given \in SeqSet(run.files[i].found)
                                        /\ \E k \in 1..Len(run.files) : run.files[k].group = "index" /\ run.files[i].name \in SeqSet(run.files[k].links)

\* ---------------------------------------------------------------- the file set (C19)
\* a plain name: not empty, not "." or "..", no path separator, no NUL
Plain(cp) == cp # <<>> /\ cp # <<46>> /\ cp # <<46, 46>> /\ \A i \in 1..Len(cp) : cp[i] \notin {47, 92, 0}
NamesPlain(run)    == \A i \in 1..Len(run.files) : Plain(run.files[i].namecp)
NoCollision(run)   == \A i, k \in 1..Len(run.files) : i # k => run.files[i].name # run.files[k].name
LinksClosed(run)   == \A i \in 1..Len(run.files) : \A l \in SeqSet(run.files[i].links) : l = "#" \/ l \in Names(run)
DeadLinks(run)     == UNION {{<<run.files[i].group, l>> : l \in {x \in SeqSet(run.files[i].links) : x # "#" /\ x \notin Names(run)}} : i \in 1..Len(run.files)}

\* ---------------------------------------------------------------- Publish as a pipeline: what a failing writer leads to
\* n files, N workers, the writer fails at its k-th call (k = 0: never), once or from then on
ExpectedErr(n, k) == k > 0 /\ k <= n
ExpectedCalls(n, N, k, m) ==
  IF ~ExpectedErr(n, k) THEN n
  ELSE IF m = "once" THEN (IF N = 1 THEN k ELSE n)
  ELSE Min2(n, k - 1 + N)
=============================================================================
