------------------------------- MODULE Publish -------------------------------
(* html.Publisher.Publish as a machine (PlusCal): a producer goroutine sends the pages on a channel whose       *)
(* capacity is the number of jobs, N workers receive a page and hand it to the file writer, a worker stops at   *)
(* the first error it sees and records it, main waits for the workers and returns the error.  The writer fails  *)
(* at its FailK-th call (once, or from then on).                                                                *)
(*   Termination    - main returns, whatever the writer does (the producer may stay blocked for ever)           *)
(*   FailStop       - a failed write is reported;  NoFalseError - no failure, no error                          *)
(*   CallsAsExpected- the number of writer calls is PublishOps!ExpectedCalls (the closed form the trace spec    *)
(*                    holds the real runs against)                                                              *)
EXTENDS PublishOps
CONSTANTS MaxFiles, MaxWorkers

(* --fair algorithm Publish {
  variables NFiles \in 0..MaxFiles, NWorkers \in 1..MaxWorkers, FailK \in 0..(MaxFiles + 1), FailM \in {"once", "from"},
            chan = <<>>, closed = FALSE, sent = 0, calls = 0, err = FALSE, alive = 1..NWorkers, returned = FALSE;
  define { Fails(c) == FailK > 0 /\ (c = FailK \/ (FailM = "from" /\ c > FailK)) }
  process (producer = 0) {
    p1: while (sent < NFiles) {
          await Len(chan) < NWorkers;            \* a channel with room for one page per job
          chan := Append(chan, sent + 1);
          sent := sent + 1;
        };
    p2: closed := TRUE;
  }
  process (worker \in 1..MaxWorkers) variables failed = FALSE; {
    w0: if (self > NWorkers) { goto Done; };
    w1: while (TRUE) {
          await chan # <<>> \/ closed;          \* for file := range files
          if (chan = <<>>) { goto w4; } else { chan := Tail(chan); };
    w2:   calls := calls + 1;                   \* fileWriter.WriteFile(file)
          failed := Fails(calls);
    w3:   if (failed) { err := TRUE; goto w4; }; \* err = fileErr; break
        };
    w4: alive := alive \ {self};
  }
  process (main = 99) {
    m1: await alive = {};                       \* util.WorkerPool waits for the workers only
    m2: returned := TRUE;                       \* return err
  }
} *)
\* BEGIN TRANSLATION
VARIABLES pc, NFiles, NWorkers, FailK, FailM, chan, closed, sent, calls, err, 
          alive, returned

(* define statement *)
Fails(c) == FailK > 0 /\ (c = FailK \/ (FailM = "from" /\ c > FailK))

VARIABLE failed

vars == << pc, NFiles, NWorkers, FailK, FailM, chan, closed, sent, calls, err, 
           alive, returned, failed >>

ProcSet == {0} \cup (1..MaxWorkers) \cup {99}

Init == (* Global variables *)
        /\ NFiles \in 0..MaxFiles
        /\ NWorkers \in 1..MaxWorkers
        /\ FailK \in 0..(MaxFiles + 1)
        /\ FailM \in {"once", "from"}
        /\ chan = <<>>
        /\ closed = FALSE
        /\ sent = 0
        /\ calls = 0
        /\ err = FALSE
        /\ alive = 1..NWorkers
        /\ returned = FALSE
        (* Process worker *)
        /\ failed = [self \in 1..MaxWorkers |-> FALSE]
        /\ pc = [self \in ProcSet |-> CASE self = 0 -> "p1"
                                        [] self \in 1..MaxWorkers -> "w0"
                                        [] self = 99 -> "m1"]

p1 == /\ pc[0] = "p1"
      /\ IF sent < NFiles
            THEN /\ Len(chan) < NWorkers
                 /\ chan' = Append(chan, sent + 1)
                 /\ sent' = sent + 1
                 /\ pc' = [pc EXCEPT ![0] = "p1"]
            ELSE /\ pc' = [pc EXCEPT ![0] = "p2"]
                 /\ UNCHANGED << chan, sent >>
      /\ UNCHANGED << NFiles, NWorkers, FailK, FailM, closed, calls, err, 
                      alive, returned, failed >>

p2 == /\ pc[0] = "p2"
      /\ closed' = TRUE
      /\ pc' = [pc EXCEPT ![0] = "Done"]
      /\ UNCHANGED << NFiles, NWorkers, FailK, FailM, chan, sent, calls, err, 
                      alive, returned, failed >>

producer == p1 \/ p2

w0(self) == /\ pc[self] = "w0"
            /\ IF self > NWorkers
                  THEN /\ pc' = [pc EXCEPT ![self] = "Done"]
                  ELSE /\ pc' = [pc EXCEPT ![self] = "w1"]
            /\ UNCHANGED << NFiles, NWorkers, FailK, FailM, chan, closed, sent, 
                            calls, err, alive, returned, failed >>

w1(self) == /\ pc[self] = "w1"
            /\ chan # <<>> \/ closed
            /\ IF chan = <<>>
                  THEN /\ pc' = [pc EXCEPT ![self] = "w4"]
                       /\ chan' = chan
                  ELSE /\ chan' = Tail(chan)
                       /\ pc' = [pc EXCEPT ![self] = "w2"]
            /\ UNCHANGED << NFiles, NWorkers, FailK, FailM, closed, sent, 
                            calls, err, alive, returned, failed >>

w2(self) == /\ pc[self] = "w2"
            /\ calls' = calls + 1
            /\ failed' = [failed EXCEPT ![self] = Fails(calls')]
            /\ pc' = [pc EXCEPT ![self] = "w3"]
            /\ UNCHANGED << NFiles, NWorkers, FailK, FailM, chan, closed, sent, 
                            err, alive, returned >>

w3(self) == /\ pc[self] = "w3"
            /\ IF failed[self]
                  THEN /\ err' = TRUE
                       /\ pc' = [pc EXCEPT ![self] = "w4"]
                  ELSE /\ pc' = [pc EXCEPT ![self] = "w1"]
                       /\ err' = err
            /\ UNCHANGED << NFiles, NWorkers, FailK, FailM, chan, closed, sent, 
                            calls, alive, returned, failed >>

w4(self) == /\ pc[self] = "w4"
            /\ alive' = alive \ {self}
            /\ pc' = [pc EXCEPT ![self] = "Done"]
            /\ UNCHANGED << NFiles, NWorkers, FailK, FailM, chan, closed, sent, 
                            calls, err, returned, failed >>

worker(self) == w0(self) \/ w1(self) \/ w2(self) \/ w3(self) \/ w4(self)

m1 == /\ pc[99] = "m1"
      /\ alive = {}
      /\ pc' = [pc EXCEPT ![99] = "m2"]
      /\ UNCHANGED << NFiles, NWorkers, FailK, FailM, chan, closed, sent, 
                      calls, err, alive, returned, failed >>

m2 == /\ pc[99] = "m2"
      /\ returned' = TRUE
      /\ pc' = [pc EXCEPT ![99] = "Done"]
      /\ UNCHANGED << NFiles, NWorkers, FailK, FailM, chan, closed, sent, 
                      calls, err, alive, failed >>

main == m1 \/ m2

(* Allow infinite stuttering to prevent deadlock on termination. *)
Terminating == /\ \A self \in ProcSet: pc[self] = "Done"
               /\ UNCHANGED vars

Next == producer \/ main
           \/ (\E self \in 1..MaxWorkers: worker(self))
           \/ Terminating

Spec == /\ Init /\ [][Next]_vars
        /\ WF_vars(Next)

Termination == <>(\A self \in ProcSet: pc[self] = "Done")

\* END TRANSLATION

FailStop        == returned => (err <=> ExpectedErr(NFiles, FailK))
CallsAsExpected == returned => calls = ExpectedCalls(NFiles, NWorkers, FailK, FailM)
MainReturns     == <>returned
\* the leak the code has: with one job and a failed write the producer stays blocked on the channel for ever
ProducerMayLeak == returned /\ pc[0] = "p1" => err
=============================================================================
