------------------------------- MODULE PageNames -------------------------------
(***************************************************************************)
(* C19: the name of the page of a source (html/util.go PageSource).  The   *)
(* pointer comes from the file; the page name must be a plain name, must   *)
(* not be the name of a fixed page, and two sources must never share one.  *)
(* A pointer is a sequence of runes, a rune the sequence of its UTF-8      *)
(* bytes.  A rune that is not a letter, a digit or an underscore is        *)
(* written as a dash followed by the hexadecimal value of its bytes; a     *)
(* name that would be that of a fixed page gets its first rune written     *)
(* that way as well.                                                       *)
(*                                                                         *)
(* TLC checks on every pointer of the universe (all strings up to MaxLen   *)
(* runes over a hostile alphabet, plus the fixed names and near misses of  *)
(* them): the name is plain, is not reserved, and the mapping is injective *)
(* (the dash is escaped itself, so an escape can not be forged).  Every    *)
(* pointer is emitted with its name and replayed into the real PageSource. *)
(***************************************************************************)
EXTENDS Chars, FiniteSets, TLC, Json

CONSTANTS Runes, MaxLen, Seeds      \* Seeds: further pointers (sequences of runes)

HexDigit(n) == IF n < 10 THEN 48 + n ELSE 87 + n           \* lower case, as fmt %x
HexOf(bytes) == Flatten([k \in 1..Len(bytes) |-> <<HexDigit(bytes[k] \div 16), HexDigit(bytes[k] % 16)>>])
IsSafeRune(r) == Len(r) = 1 /\ (IsAlpha(r[1]) \/ IsDigit(r[1]) \/ r[1] = US)
Escape(r) == <<45>> \o HexOf(r)
EscapeAll(p) == Flatten([k \in 1..Len(p) |-> IF IsSafeRune(p[k]) THEN p[k] ELSE Escape(p[k])])

Bytes(str) == str   \* names below are written as byte tuples
FixedNames == { <<112,108,97,99,101,115>>,                         \* places
                <<102,97,109,105,108,105,101,115>>,                 \* families
                <<115,111,117,114,99,101,115>>,                     \* sources
                <<115,116,97,116,105,115,116,105,99,115>>,          \* statistics
                <<115,117,114,110,97,109,101,115>> }                \* surnames
IndividualsPrefix == <<105,110,100,105,118,105,100,117,97,108,115,45>>   \* individuals-
HasPrefix(s, pre) == Len(s) >= Len(pre) /\ SubSeq(s, 1, Len(pre)) = pre
IsReserved(name) == name \in FixedNames \/ HasPrefix(name, IndividualsPrefix)

\* the name without ".html"
PageSourceName(p) ==
  LET n == EscapeAll(p) IN
  IF IsReserved(n) THEN Escape(<<n[1]>>) \o SubSeq(n, 2, Len(n)) ELSE n

IsPlainByte(c) == IsAlpha(c) \/ IsDigit(c) \/ c = US \/ c = 45
IsPlain(name) == name # <<>> /\ \A k \in 1..Len(name) : IsPlainByte(name[k])

RECURSIVE Strings(_)
Strings(n) == IF n = 0 THEN {<<>>} ELSE LET S == Strings(n - 1) IN S \cup {Append(s, r) : s \in {t \in S : Len(t) = n - 1}, r \in Runes}
Universe == (Strings(MaxLen) \ {<<>>}) \cup Seeds

VARIABLE p
Init == p \in Universe
Next == UNCHANGED p
Spec == Init /\ [][Next]_p

NameIsPlain == IsPlain(PageSourceName(p))
NameIsNotReserved == ~IsReserved(PageSourceName(p))
\* checked once (ASSUME-like, evaluated in the initial state with the smallest pointer only): no two pointers share a name
Injective == Cardinality({PageSourceName(q) : q \in Universe}) = Cardinality(Universe)
InjectiveOnce == (p = CHOOSE q \in Universe : TRUE) => Injective
Emit == PrintT(<<"CASE", ToJson([ptr |-> Flatten(p), name |-> PageSourceName(p)])>>)
=============================================================================
