------------------------------- MODULE Commands -------------------------------
(* The files the command checks run on, as a machine: faults are added to a base graph one at a time, in any     *)
(* order, up to MaxFaults; the state is the set of faults (the materialiser applies them in a fixed order, so    *)
(* the order of the actions does not matter: OrderIrrelevant).  Every reachable set is emitted as a case.       *)
EXTENDS CommandsOps, Json
CONSTANTS MaxFaults, Bases

VARIABLES base, faults, order
cvars == <<base, faults, order>>

CInit == base \in Bases /\ faults = {} /\ order = <<>>
AddFault == /\ Cardinality(faults) < MaxFaults
            /\ \E f \in FaultKinds \ faults : faults' = faults \cup {f} /\ order' = Append(order, f)
            /\ UNCHANGED base
CSpec == CInit /\ [][AddFault]_cvars

\* the set is what the sequence of actions added, nothing else
OrderIrrelevant == faults = {order[k] : k \in 1..Len(order)} /\ Cardinality(faults) = Len(order)
Emit == PrintT(<<"CASE", ToJson([base |-> base, faults |-> faults])>>)
=============================================================================
