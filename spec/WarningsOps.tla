------------------------------ MODULE WarningsOps ------------------------------
(***************************************************************************)
(* C20.  The documented warning conditions over a family graph whose dates *)
(* are exact calendar days (lib/Calendar.tla day numbers).                 *)
(*                                                                         *)
(* A document is [people, fams]:                                           *)
(*   person = [p, sexes, birt, bapm, deat, buri]   sexes: Seq("M" | "F"),   *)
(*            each event a sequence of dates (<<>> = no such event,         *)
(*            <<d>> = the event with that DATE)                             *)
(*   family = [p, husb, wife, chil, marr]   husb/wife: pointer or "",       *)
(*            chil: Seq(pointer), marr as the events above                  *)
(*   date   = [k |-> "d", y, m, d]  |  [k |-> "bad", t |-> text]            *)
(* Expected(doc) is the SET of warnings the documentation calls for, each   *)
(* [n |-> name, a |-> <<who / what>>].  Thresholds in days: 2 and 274       *)
(* (siblings), 16 and 100 years of 365.25 days (marriage), 100 years (age); *)
(* generated dates stay >= 10 days away from each, so the year              *)
(* approximation never decides.                                             *)
(***************************************************************************)
EXTENDS Calendar, Sequences, FiniteSets, TLC

SeqToSet(s) == {s[i] : i \in 1..Len(s)}
IsDay(dt) == dt.k = "d"
Day(dt) == DayNumber(dt.y, dt.m, dt.d)
HasDay(ev) == ev # <<>> /\ IsDay(ev[1])

Person(doc, ptr) == CHOOSE x \in SeqToSet(doc.people) : x.p = ptr
Known(doc, ptr) == ptr # "" /\ \E x \in SeqToSet(doc.people) : x.p = ptr

\* the date used as "birth" / "death" for ages: birth, else baptism; death, else burial
EstBirth(x) == IF x.birt # <<>> THEN x.birt ELSE x.bapm
EstDeath(x) == IF x.deat # <<>> THEN x.deat ELSE x.buri

YearDays16 == 5844      \* 16 * 365.25
YearDays100 == 36525    \* 100 * 365.25

W(n, a) == [n |-> n, a |-> a]

CBBP(doc) ==
  UNION {UNION {{W("ChildBornBeforeParent", <<par, f.chil[k]>>) : par \in
      {q \in {f.husb, f.wife} : /\ Known(doc, q) /\ Known(doc, f.chil[k])
                                 /\ HasDay(Person(doc, q).birt) /\ HasDay(Person(doc, f.chil[k]).birt)
                                 /\ Day(Person(doc, f.chil[k]).birt[1]) < Day(Person(doc, q).birt[1])}}
    : k \in 1..Len(f.chil)} : f \in SeqToSet(doc.fams)}

\* unordered pairs of different children of one family born 2 days .. 9 months (274 days) apart
Siblings(doc) ==
  UNION {{W("SiblingsBornTooClose", <<a, b>>) : <<a, b>> \in
      {pr \in SeqToSet(f.chil) \X SeqToSet(f.chil) :
         /\ pr[1] # pr[2] /\ Known(doc, pr[1]) /\ Known(doc, pr[2])
         /\ HasDay(Person(doc, pr[1]).birt) /\ HasDay(Person(doc, pr[2]).birt)
         /\ LET d == Day(Person(doc, pr[2]).birt[1]) - Day(Person(doc, pr[1]).birt[1]) IN d >= 2 /\ d < 274}}
    : f \in SeqToSet(doc.fams)}
\* (the pair is written <<earlier born, later born>>; the observation is normalised the same way)

Married(doc) ==
  UNION {UNION {
      {W("MarriedOutOfRange", <<f.p, s, "young">>) : s \in
         {s \in {f.husb, f.wife} : Known(doc, s) /\ HasDay(f.marr) /\ HasDay(EstBirth(Person(doc, s)))
                                    /\ Day(f.marr[1]) - Day(EstBirth(Person(doc, s))[1]) < YearDays16}},
      {W("MarriedOutOfRange", <<f.p, s, "old">>) : s \in
         {s \in {f.husb, f.wife} : Known(doc, s) /\ HasDay(f.marr) /\ HasDay(EstBirth(Person(doc, s)))
                                    /\ Day(f.marr[1]) - Day(EstBirth(Person(doc, s))[1]) > YearDays100}} }
    : f \in SeqToSet(doc.fams)}

TooOld(doc) ==
  {W("IndividualTooOld", <<x.p>>) : x \in
     {x \in SeqToSet(doc.people) : HasDay(EstBirth(x)) /\ HasDay(EstDeath(x))
                                   /\ Day(EstDeath(x)[1]) - Day(EstBirth(x)[1]) > YearDays100}}

\* a later-kind event entirely before an earlier-kind event: birth < baptism < death < burial
Kinds == <<"Birth", "Baptism", "Death", "Burial">>
EventOf(x, k) == CASE k = 1 -> x.birt [] k = 2 -> x.bapm [] k = 3 -> x.deat [] k = 4 -> x.buri
EventOrder(doc) ==
  UNION {{W("IncorrectEventOrder", <<x.p, Kinds[pr[2]], Kinds[pr[1]]>>) : pr \in
      {pr \in (1..4) \X (1..4) : /\ pr[1] < pr[2] /\ HasDay(EventOf(x, pr[1])) /\ HasDay(EventOf(x, pr[2]))
                                 /\ Day(EventOf(x, pr[2])[1]) < Day(EventOf(x, pr[1])[1])}}
    : x \in SeqToSet(doc.people)}

BadDatesOf(ev) == IF ev # <<>> /\ ~IsDay(ev[1]) THEN {ev[1].t} ELSE {}
Unparsable(doc) ==
  UNION {{W("UnparsableDate", <<x.p, t>>) : t \in BadDatesOf(x.birt) \cup BadDatesOf(x.bapm) \cup BadDatesOf(x.deat) \cup BadDatesOf(x.buri)}
         : x \in SeqToSet(doc.people)}
  \cup UNION {{W("UnparsableDate", <<f.p, t>>) : t \in BadDatesOf(f.marr)} : f \in SeqToSet(doc.fams)}

MultipleSexes(doc) == {W("MultipleSexes", <<x.p>>) : x \in {x \in SeqToSet(doc.people) : Len(x.sexes) > 1}}

\* the first SEX line decides
SexOf(doc, ptr) == IF Known(doc, ptr) /\ Person(doc, ptr).sexes # <<>> THEN Person(doc, ptr).sexes[1] ELSE ""
Inverse(doc) == {W("InverseSpouses", <<f.p>>) : f \in {f \in SeqToSet(doc.fams) : SexOf(doc, f.husb) = "F" /\ SexOf(doc, f.wife) = "M"}}

Expected(doc) == CBBP(doc) \cup Siblings(doc) \cup Married(doc) \cup TooOld(doc) \cup EventOrder(doc)
                 \cup Unparsable(doc) \cup MultipleSexes(doc) \cup Inverse(doc)

\* reordering records or children
PermSeq(s, perm) == [i \in 1..Len(s) |-> s[perm[i]]]
=============================================================================
